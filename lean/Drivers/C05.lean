import RpylibModel.Basic.Proto
import RpylibModel.Model.Mlmc
import RpylibModel.Model.Alloc
import RpylibModel.Model.MlmcCv
open Rpylib Rpylib.Mlmc Rpylib.MlmcCv

/-- scripted process shared with harness/fake_engine.py (values already discounted with df = 1/2):
    F l k = (16 l + (k+1)/1024)/2, C l k = (16 l − 8 + (k+1)/2048)/2, cost per sample 2^l -/
def proc : Proc := ⟨fun l k => (16 * l + (k + 1) / 1024) / 2, fun l k => (16 * l - 8 + (k + 1) / 2048) / 2, fun l => 2 ^ l⟩

def parseOracle? (s : String) : Option Oracle :=
  match s.splitOn "|" with
  | [ns, c, ns2] => do
      let a ← parseNatList? ns
      let b ← parseNatList? ns2
      some ⟨a, c == "1", b⟩
  | _ => none

def levels (s : St) : List Nat := List.range (s.L + 1)

/-- one read point: what `set_mlmc_results` sees -/
def showRead (s : St) : String :=
  let ls := levels s
  let lv := fun l => s.lv l
  "R " ++ toString s.L ++ " " ++ showNatList (ls.map (fun l => (lv l).N)) ++ " " ++ showNatList (ls.map (fun l => (lv l).sim))
    ++ " " ++ showRatList (ls.map (fun l => (lv l).cost))
    ++ " " ++ showListList showRat (ls.map (fun l => (lv l).rows.map rowFine))
    ++ " " ++ showListList showRat (ls.map (fun l => (lv l).rows.map rowCoarse))
    ++ " " ++ showListList (fun (r : Row) => if r.isNone then "1" else "0") (ls.map (fun l => (lv l).rows))
    ++ " " ++ showRat (priceOf s)
    ++ " " ++ showRatList (ls.map (fun l => dpMean (lv l)))
    ++ " " ++ showRatList (ls.map (fun l => vlOf (lv l)))
    ++ " " ++ showRatList (ls.map (fun l => clOf (lv l)))
    ++ " " ++ showRatList (ls.map (fun l => fineMean (lv l)))

def showEnd (tag : String) (s : St) : String :=
  tag ++ " " ++ toString s.L ++ " " ++ showNatList ((levels s).map (fun l => (s.lv l).N)) ++ " " ++
    showNatList ((levels s).map (fun l => (s.lv l).dN)) ++ " " ++
    showNatList ((levels s).map (fun l => (s.lv l).rows.length))

/-- run with a trace of every read point -/
def trace : List Oracle → St → List String → List String
  | [], s, acc => (showEnd "cont" s :: acc).reverse
  | o :: os, s, acc =>
    let acc := showRead (afterPasses proc s) :: acc
    match iter proc o s with
    | .cont s' => trace os s' acc
    | .ret s' => (showEnd "ret" s' :: acc).reverse

/-- what the criteria callbacks receive at one read point: `ml vl cl` (first `compute_mc_paths` / `criteria`) and the
    extrapolated `vl cl` of the second `compute_mc_paths` call -/
def showFeeds (qa qb qg : Rat) (L : Nat) (lv : Nat → Lvl) : String :=
  "F " ++ showRatList (mlFed qa L lv) ++ " " ++ showRatList (vlFed qb L lv) ++ " " ++ showRatList (clFed L lv)
    ++ " " ++ showRatList (vlFed2 qb L lv) ++ " " ++ showRatList (clFed2 qg L lv)

/-! ### control-variate path (Model/MlmcCv.lean) -/

/-- scripted process of `harness/fake_engine.py: FakeCouplingV` (discounted with df = 1/2) -/
def tF (k : Nat) : Rat := (((37 * k + 11) % 64 : Nat) : Rat) / 16
def tC (k : Nat) : Rat := (((29 * k + 5) % 64 : Nat) : Rat) / 32
def procV : Proc := ⟨fun l k => (16 * l + tF k) / 2, fun l k => (16 * l - 8 + tC k) / 2, fun l => 2 ^ l⟩

structure Ctl where
  kind : String
  par : Rat
  notional : Rat
  price : Rat
  deriving Inhabited

def mod8 (s : Rat) : Rat := s - 8 * ((s / 8).floor : Rat)

/-- `fake_engine.control_value`, times notional, discounted -/
def ctlVal (c : Ctl) (s : Rat) : Rat :=
  (c.notional * (if c.kind == "sq" then mod8 s * mod8 s else if c.kind == "call" then max (mod8 s - c.par) 0 else s - c.par)) / 2

def parseCtl? (s : String) : Option Ctl :=
  match s.splitOn ":" with
  | [k, a, n, pr] => do
      let a ← parseRat? a
      let n ← parseRat? n
      let pr ← parseRat? pr
      some ⟨k, a, n, pr⟩
  | _ => none

def cvProcOf (cs : List Ctl) : CvProc :=
  { k := cs.length
    XF := fun l j i => ctlVal (cs.getD j default) (16 * l + tF i)
    XC := fun l j i => ctlVal (cs.getD j default) (16 * l - 8 + tC i)
    price := fun j => (cs.getD j default).price
    coef := Stats.kernelOf cs.length }

/-- one read point with control variates: raw rows, control rows, adjusted rows, and the results read from the adjusted arrays -/
def showReadCv (q : Rat × Rat × Rat) (k : Nat) (s : CvSt) : String :=
  let ls := levels s.base
  let lv := fun l => s.base.lv l
  let xs := (List.range k).map (fun j =>
    " " ++ showListList showRat (ls.map (fun l => (List.range (s.cv l).xrows.length).map (xCol true (s.cv l).xrows j)))
    ++ " " ++ showListList showRat (ls.map (fun l => (List.range (s.cv l).xrows.length).map (xCol false (s.cv l).xrows j))))
  "V " ++ toString s.base.L ++ " " ++ showNatList (ls.map (fun l => (lv l).N))
    ++ " " ++ showList (fun (b : Bool) => if b then "1" else "0") (ls.map (fun l => (s.cv l).err))
    ++ " " ++ showListList showRat (ls.map (fun l => (lv l).rows.map rowFine))
    ++ " " ++ showListList showRat (ls.map (fun l => (lv l).rows.map rowCoarse))
    ++ " " ++ showListList showRat (ls.map (fun l => (s.cv l).adj.map rowFine))
    ++ " " ++ showListList showRat (ls.map (fun l => (s.cv l).adj.map rowCoarse))
    ++ " " ++ showRat (priceOfCv s) ++ " " ++ showRat (priceOf s.base)
    ++ " " ++ showRatList (ls.map (fun l => dpMean (adjLvl s l)))
    ++ " " ++ showRatList (ls.map (fun l => vlOf (adjLvl s l)))
    ++ " " ++ showRatList (ls.map (fun l => clOf (adjLvl s l)))
    ++ " " ++ showRatList (ls.map (fun l => fineMean (adjLvl s l)))
    ++ String.join xs ++ " " ++ showFeeds q.1 q.2.1 q.2.2 s.base.L (adjLvl s)

def showEndCv (tag : String) (s : CvSt) : String :=
  showEnd tag s.base ++ " " ++ showNatList ((levels s.base).map (fun l => (s.cv l).adj.length)) ++ " " ++
    showNatList ((levels s.base).map (fun l => (s.cv l).xrows.length))

def traceCv (q : Rat × Rat × Rat) (c : CvProc) : List Oracle → CvSt → List String → List String
  | [], s, acc => (showEndCv "cont" s :: acc).reverse
  | o :: os, s, acc =>
    let s1 := cvAfterPasses procV c s
    let acc := showReadCv q c.k s1 :: acc
    match iterCvAfter o s1 with
    | .cont s' => traceCv q c os s' acc
    | .ret s' => (showEndCv "ret" s' :: showReadCv q c.k s' :: acc).reverse

def step (t : List String) : String :=
  match t with
  | ["price", l0, n0, lmax, ninit, hist] =>
    match parseNat? l0, parseNat? n0, parseNat? lmax, parseNat? ninit,
          (if hist == "-" then some [] else (hist.splitOn ";").mapM parseOracle?) with
    | some l0, some n0, some lmax, some ninit, some os =>
      match loopHead (init l0 n0 lmax ninit) with
      | .cont s => " # ".intercalate (trace os s [])
      | .ret s => showEnd "ret" s
    | _, _, _, _, _ => "bad-op"
  | ["pricecv", l0, n0, lmax, hist, ctls, qa, qb, qg] =>
    match parseNat? l0, parseNat? n0, parseNat? lmax,
          (if hist == "-" then some [] else (hist.splitOn ";").mapM parseOracle?), (ctls.splitOn ";").mapM parseCtl?,
          parseRat? qa, parseRat? qb, parseRat? qg with
    | some l0, some n0, some lmax, some os, some cs, some qa, some qb, some qg =>
      if cs.length != 1 && cs.length != 2 then "bad-op" else
      let c := cvProcOf cs
      match cvLoopHead (initCv l0 n0 lmax 0) with
      | .cont s => " # ".intercalate (traceCv (qa, qb, qg) c os s [])
      | .ret s => showEndCv "ret" s
    | _, _, _, _, _, _, _, _ => "bad-op"
  | ["fixedcv", lmax, mc, ctls] =>
    match parseNat? lmax, parseNat? mc, (ctls.splitOn ";").mapM parseCtl? with
    | some lmax, some mc, some cs =>
      if cs.length != 1 && cs.length != 2 then "bad-op" else showReadCv (2, 4, 2) cs.length (fixedRunCv procV (cvProcOf cs) lmax mc)
    | _, _, _ => "bad-op"
  | ["feeds", l0, n0, lmax, qa, qb, qg, hist] =>
    match parseNat? l0, parseNat? n0, parseNat? lmax, parseRat? qa, parseRat? qb, parseRat? qg,
          (if hist == "-" then some [] else (hist.splitOn ";").mapM parseOracle?) with
    | some l0, some n0, some lmax, some qa, some qb, some qg, some os =>
      match loopHead (init l0 n0 lmax 0) with
      | .cont s => " # ".intercalate ("-" :: (reads proc os s).map (fun r => showFeeds qa qb qg r.L r.lv))
      | .ret _ => "-"
    | _, _, _, _, _, _, _ => "bad-op"
  | ["fixed", lmax, mc] =>
    match parseNat? lmax, parseNat? mc with
    | some lmax, some mc => showRead (fixedRun proc lmax mc)
    | _, _ => "bad-op"
  | ["giles", theta, rmse, v, c] =>
    match parseRat? theta, parseRat? rmse, parseRatList? v, parseRatList? c with
    | some th, some e, some v, some c => showIntList (Rpylib.Alloc.giles th e v c)
    | _, _, _, _ => "bad-op"
  | ["criteria", st, q, m1, m2, m3, rmse] =>
    match parseRat? st, parseRat? q, parseRat? m1, parseRat? m2, parseRat? m3, parseRat? rmse with
    | some st, some q, some m1, some m2, some m3, some e => if Rpylib.Alloc.criteria st q m1 m2 m3 e then "1" else "0"
    | _, _, _, _, _, _ => "bad-op"
  | _ => "bad-op"

def main : IO Unit := runStateless step
