import RpylibModel.Basic.Proto
import RpylibModel.Model.Payoff
open Rpylib Rpylib.Payoff

/-!
Stateful driver: one `Product` object at a time, executed by M's own `step`.

requests
  new <und> <pay> <notional>               -> ok            (fresh object: flag false, identity binding)
  old 0|1                                  -> ok            (1: run the pre-fix machine `stepOld` instead of `step`)
  tab exp|log <keys [..]> <vals [..]>      -> ok            (extends the table the abstract exp / log is read from)
  update id|log                            -> ok
  uv <times [..]> <rows [a,b;c,d]> <jrows [..;..]> <flat 0|1>   -> <val>     (Product.underlying_value)
  call <val>                               -> <val>         (Product.__call__)
  pure id|log <times> <rows> <jrows> <flat>-> <val>         (M's pure function `pureValue`, no object involved)
  state                                    -> <flag 0|1> <id|log>
und  : spot | logspot | asian | mean | perf:[s0] | maxperf:[s0] | nthspot:i | ind:[thr] | dt:a | dtn:[as]:k | nth:[as]:k
pay  : fc:c | fwd:K | van:c:K | vanv:c:[Ks] | cs:K1:K2 | bf:K1:K2:K3 | dig:c:K | bar:c:K:up:in:B | rb:[w]:K:c
       | cds:R:s:T:r:d0:d1 | bond:[d]:[L0] | cap:[d]:[L0]:K | rat:[d]:g:m:s:inc:first | swp:[d]:[L0]:K:payer     (c,up,in,payer ∈ {0,1})
val  : v[a,b,…] | t:inf | t:<rat> | err
A key missing from a table evaluates to the sentinel -123456789 (the harness sends every key M asks for).
-/

structure DState where
  terms : Terms
  obj : Obj
  expT : List (Rat × Rat)
  logT : List (Rat × Rat)
  old : Bool

def lookupT (t : List (Rat × Rat)) (x : Rat) : Rat :=
  match t.find? (fun kv => kv.1 == x) with
  | some kv => kv.2
  | none => -123456789

def DState.E (d : DState) : ExpLog := ⟨lookupT d.expT, lookupT d.logT⟩

def bool? (s : String) : Option Bool := if s == "1" then some true else if s == "0" then some false else none

def parseUnd? (s : String) : Option UnderlyingT :=
  match s.splitOn ":" with
  | ["spot"] => some .spot
  | ["logspot"] => some .logSpot
  | ["asian"] => some .asian
  | ["mean"] => some .mean
  | ["perf", l] => (parseRatList? l).map .performances
  | ["maxperf", l] => (parseRatList? l).map .maxPerf
  | ["nthspot", i] => (parseNat? i).map .nthSpot
  | ["ind", l] => (parseRatList? l).map .indicators
  | ["dt", a] => (parseRat? a).map .defaultTime
  | ["dtn", l, k] => do some (.defaultTimeNth (← parseRatList? l) (← parseNat? k))
  | ["nth", l, k] => do some (.nthDefault (← parseRatList? l) (← parseNat? k))
  | _ => none

def parsePay? (s : String) : Option PayoffT :=
  match s.splitOn ":" with
  | ["fc", c] => (parseRat? c).map .fixedCoupon
  | ["fwd", k] => (parseRat? k).map .forward
  | ["van", c, k] => do some (.vanilla (← bool? c) (← parseRat? k))
  | ["vanv", c, ks] => do some (.vanillaVec (← bool? c) (← parseRatList? ks))
  | ["cs", a, b] => do some (.callSpread (← parseRat? a) (← parseRat? b))
  | ["bf", a, b, c] => do some (.butterfly (← parseRat? a) (← parseRat? b) (← parseRat? c))
  | ["dig", c, k] => do some (.digital (← bool? c) (← parseRat? k))
  | ["bar", c, k, up, isIn, b] => do
      some (.barrier (← bool? c) (← parseRat? k) (← bool? up) (← bool? isIn) (← parseRat? b))
  | ["rb", w, k, c] => do some (.rainbow (← parseRatList? w) (← parseRat? k) (← bool? c))
  | ["cds", r, s, t, rr, d0, d1] => do
      some (.cds (← parseRat? r) (← parseRat? s) (← parseRat? t) (← parseRat? rr) (← parseRat? d0) (← parseRat? d1))
  | ["bond", d, l0] => do some (.bond (← parseRatList? d) (← parseRatList? l0))
  | ["cap", d, l0, k] => do some (.cap (← parseRatList? d) (← parseRatList? l0) (← parseRat? k))
  | ["rat", d, g, m, s, i, f] => do
      some (.ratchet (← parseRatList? d) (← parseRat? g) (← parseRat? m) (← parseRat? s) (← parseRat? i) (← parseRat? f))
  | ["swp", d, l0, k, p] => do some (.swaption (← parseRatList? d) (← parseRatList? l0) (← parseRat? k) (← bool? p))
  | _ => none

def parseRep? (s : String) : Option Rep := if s == "id" then some .identity else if s == "log" then some .log else none

def parseVal? (s : String) : Option Val :=
  if s == "err" then some .err
  else if s == "t:inf" then some (.time none)
  else if s.startsWith "t:" then (parseRat? (s.drop 2).toString).map (fun r => .time (some r))
  else if s.startsWith "v" then (parseRatList? (s.drop 1).toString).map .vec
  else none

def showVal : Val → String
  | .err => "err"
  | .time none => "t:inf"
  | .time (some r) => "t:" ++ showRat r
  | .vec l => "v" ++ showRatList l

def parsePath? (t r j f : String) : Option Path := do
  some ⟨← parseRatList? t, ← parseListListWith? parseRat? r, ← parseListListWith? parseRat? j, ← bool? f⟩

def showOut : Out → String
  | .unit => "ok"
  | .val v => showVal v

def doStep (d : DState) (o : Op) : DState × String :=
  let (s', out) := if d.old then stepOld d.E d.terms d.obj o else step d.E d.terms d.obj o
  ({ d with obj := s' }, showOut out)

def stepD (d : DState) (t : List String) : DState × String :=
  match t with
  | ["new", u, p, n] =>
    match parseUnd? u, parsePay? p, parseRat? n with
    | some u, some p, some n => ({ d with terms := ⟨u, p, n⟩, obj := Obj.init, expT := [], logT := [] }, "ok")
    | _, _, _ => (d, "bad-op")
  | ["old", b] =>
    match bool? b with
    | some b => ({ d with old := b }, "ok")
    | none => (d, "bad-op")
  | ["tab", which, ks, vs] =>
    match parseRatList? ks, parseRatList? vs with
    | some ks, some vs =>
      if ks.length ≠ vs.length then (d, "bad-op")
      else if which == "exp" then ({ d with expT := ks.zip vs ++ d.expT }, "ok")
      else if which == "log" then ({ d with logT := ks.zip vs ++ d.logT }, "ok")
      else (d, "bad-op")
    | _, _ => (d, "bad-op")
  | ["update", r] =>
    match parseRep? r with
    | some r => doStep d (.update r)
    | none => (d, "bad-op")
  | ["uv", ts, rs, js, f] =>
    match parsePath? ts rs js f with
    | some p => doStep d (.uv p)
    | none => (d, "bad-op")
  | ["call", v] =>
    match parseVal? v with
    | some v => doStep d (.call v)
    | none => (d, "bad-op")
  | ["pure", r, ts, rs, js, f] =>
    match parseRep? r, parsePath? ts rs js f with
    | some r, some p => (d, showVal (pureValue d.E d.terms r p))
    | _, _ => (d, "bad-op")
  | ["state"] => (d, (if d.obj.flag then "1" else "0") ++ " " ++ (if d.obj.bind = .log then "log" else "id"))
  | _ => (d, "bad-op")

def main : IO Unit :=
  runStateful stepD ⟨⟨.spot, .forward 0, 1⟩, Obj.init, [], [], false⟩
