import RpylibModel.Basic.Proto
import RpylibModel.Model.Samplers
open Rpylib

/-- requests (lists are `[a,b,c]`; cells are answered as `[state,lo,hi;state,lo,hi;…]`):
  inv-run <adm 0/1 list> <maxFrontier> <prob list> <maxStorage> <us>   -> `<answers> <memo length> <last1>` (answer = pairing index or -1 for "exhausted")
  inv-cells <adm> <maxFrontier> <prob>                                 -> cells of the enumeration (skips allowed)
  alias-build <p>                 -> `<J> <q>`
  alias-draw <J> <q> <us>         -> states
  alias-cells <J> <q>             -> cells
  alias-law <J> <q>               -> law induced by the tables, states 0..K-1
  bst-build <p>                   -> thresholds of nodes 1..K
  bst-draw <thresholds> <us>      -> states
  bst-cells <thresholds>          -> cells
  huff-build <p>                  -> prefix shape of the tree (-1 internal, state for a leaf)
  huff-draw <shape> <leaf values in prefix order> <us> -> states
  huff-cells <shape> <leaf values>                     -> cells
  table-build <p>                 -> `<slots> <J> <q>` or `zero`
  table-draw <slots> <J> <q> <is> -> states
  table-law <slots> <J> <q> <n>   -> idealised law for states 0..n-1
  ad1-draw <w> <o> <pLeft> <us>   -> axis indices
  ad1-cells <w> <o> <pLeft>       -> cells
-/
def showCells (cs : List (Nat × Rat × Rat)) : String :=
  showListList id (cs.map (fun c => [toString c.1, showRat c.2.1, showRat c.2.2]))

def fnOf (l : List Rat) : Nat → Rat := let a := l.toArray; fun i => a.getD i 0

/-- rebuild a Huffman tree from its prefix shape and the leaf values (internal values are the exact sums) -/
partial def parseTree : List Int → List Rat → Option (Huffman.Tree × List Int × List Rat)
  | [], _ => none
  | s :: rest, vals =>
    if s < 0 then do
      let (l, r1, v1) ← parseTree rest vals
      let (r, r2, v2) ← parseTree r1 v1
      some (.node (l.value + r.value) l r, r2, v2)
    else
      match vals with
      | [] => none
      | v :: vs => some (.leaf s.toNat v, rest, vs)

def step (t : List String) : String :=
  match t with
  | ["inv-run", adm, mf, prob, ms, us] =>
    match parseNatList? adm, parseNat? mf, parseRatList? prob, parseNat? ms, parseRatList? us with
    | some adm, some mf, some prob, some ms, some us =>
      let e : Inversion.Env := ⟨adm.map (· != 0), mf, prob, ms⟩
      match Inversion.init e with
      | none => "no-admissible-state"
      | some st0 =>
        let (st, out) := us.foldl (fun (acc : Inversion.St × List Int) u =>
          let (s', r) := Inversion.step e acc.1 u
          (s', (match r with | some k => (k : Int) | none => -1) :: acc.2)) (st0, [])
        showIntList out.reverse ++ " " ++ toString st.cum.length ++ " " ++ toString st.last1
    | _, _, _, _, _ => "bad-op"
  | ["inv-cells", adm, mf, prob] =>
    match parseNatList? adm, parseNat? mf, parseRatList? prob with
    | some adm, some mf, some prob => showCells (Inversion.cellsGen ⟨adm.map (· != 0), mf, prob, 0⟩)
    | _, _, _ => "bad-op"
  | ["alias-build", p] =>
    match parseRatList? p with
    | some p =>
      let t := Alias.build p.length (fnOf p)
      showNatList ((List.range t.K).map t.J) ++ " " ++ showRatList ((List.range t.K).map t.q)
    | _ => "bad-op"
  | ["alias-draw", j, q, us] =>
    match parseNatList? j, parseRatList? q, parseRatList? us with
    | some j, some q, some us => showNatList (us.map (Alias.draw (Alias.ofLists q j)))
    | _, _, _ => "bad-op"
  | ["alias-cells", j, q] =>
    match parseNatList? j, parseRatList? q with
    | some j, some q => showCells (Alias.cells (Alias.ofLists q j))
    | _, _ => "bad-op"
  | ["alias-law", j, q] =>
    match parseNatList? j, parseRatList? q with
    | some j, some q => showRatList ((List.range q.length).map (Alias.lawOfTables (Alias.ofLists q j)))
    | _, _ => "bad-op"
  | ["bst-build", p] =>
    match parseRatList? p with
    | some p =>
      let K := p.length - 1
      let b := Bst.build K (fnOf p)
      showRatList ((List.range K).map (fun i => b (i + 1)))
    | _ => "bad-op"
  | ["bst-draw", b, us] =>
    match parseRatList? b, parseRatList? us with
    | some b, some us => let f := fnOf b; showNatList (us.map (Bst.draw b.length (fun ptr => f (ptr - 1))))
    | _, _ => "bad-op"
  | ["bst-cells", b] =>
    match parseRatList? b with
    | some b => let f := fnOf b; showCells (Bst.cells b.length (fun ptr => f (ptr - 1)))
    | _ => "bad-op"
  | ["huff-build", p] =>
    match parseRatList? p with
    | some p => match Huffman.build p with
      | some t => showIntList (Huffman.shape t)
      | none => "empty"
    | _ => "bad-op"
  | ["huff-draw", sh, vals, us] =>
    match parseIntList? sh, parseRatList? vals, parseRatList? us with
    | some sh, some vals, some us =>
      match parseTree sh vals with
      | some (t, [], []) => showNatList (us.map (Huffman.draw t))
      | _ => "bad-tree"
    | _, _, _ => "bad-op"
  | ["huff-cells", sh, vals] =>
    match parseIntList? sh, parseRatList? vals with
    | some sh, some vals =>
      match parseTree sh vals with
      | some (t, [], []) => showCells (Huffman.cells t)
      | _ => "bad-tree"
    | _, _ => "bad-op"
  | ["table-build", p] =>
    match parseRatList? p with
    | some p =>
      match Table.build p.length (fnOf p) with
      | none => "zero"
      | some t => showIntList t.slots ++ " " ++ showNatList ((List.range t.resid.K).map t.resid.J) ++ " " ++
          showRatList ((List.range t.resid.K).map t.resid.q)
    | _ => "bad-op"
  | ["table-draw", sl, j, q, is] =>
    match parseIntList? sl, parseNatList? j, parseRatList? q, parseNatList? is with
    | some sl, some j, some q, some is => showNatList (is.map (Table.draw ⟨sl, Alias.ofLists q j⟩))
    | _, _, _, _ => "bad-op"
  | ["table-law", sl, j, q, n] =>
    match parseIntList? sl, parseNatList? j, parseRatList? q, parseNat? n with
    | some sl, some j, some q, some n => showRatList ((List.range n).map (Table.lawOfTables ⟨sl, Alias.ofLists q j⟩))
    | _, _, _, _ => "bad-op"
  | ["ad1-draw", w, o, pl, us] =>
    match parseRatList? w, parseNat? o, parseRat? pl, parseRatList? us with
    | some w, some o, some pl, some us => showNatList (us.map (Adapted.draw (fnOf w) w.length o pl))
    | _, _, _, _ => "bad-op"
  | ["ad1-cells", w, o, pl] =>
    match parseRatList? w, parseNat? o, parseRat? pl with
    | some w, some o, some pl => showCells (Adapted.cells (fnOf w) w.length o pl)
    | _, _, _ => "bad-op"
  | _ => "bad-op"

def main : IO Unit := runStateless step
