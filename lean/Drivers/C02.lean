import RpylibModel.Basic.Proto
import RpylibModel.Model.Samplers
import Std.Data.HashMap
open Rpylib

/-- requests (lists are `[a,b,c]`; cells are answered as `[state,lo,hi;state,lo,hi;…]`):
  inv-run <adm 0/1 list> <maxFrontier> <prob list> <maxStorage> <us>   -> `<answers> <memo length> <last1>` (answer = pairing index or -1 for "exhausted")
  inv-cells <adm> <maxFrontier> <prob>                                 -> cells of the enumeration (skips allowed)
  alias-build <p>                 -> `<J> <q>`
  alias-draw <J> <q> <us>         -> states
  alias-cells <J> <q>             -> cells
  alias-law <J> <q>               -> law induced by the tables, states 0..K-1
  bst-build <p>                   -> thresholds of nodes 1..K
  bst-draw <thresholds> <us>      -> states
  bst-cells <thresholds>          -> cells
  huff-build <p>                  -> prefix shape of the tree (-1 internal, state for a leaf)
  huff-draw <shape> <leaf values in prefix order> <us> -> states
  huff-cells <shape> <leaf values>                     -> cells
  table-build <p>                 -> `<slots> <J> <q>` or `zero`
  table-draw <slots> <J> <q> <is> -> states
  table-law <slots> <J> <q> <n>   -> idealised law for states 0..n-1
  ad1-draw <w> <o> <pLeft> <us>   -> axis indices
  ad1-cells <w> <o> <pLeft>       -> cells
  adnd-draw <T> <us>              -> states (`i:j:…` axis indices, `X` for "beyond the last bucket": IndexError)
  adnd-cells <T>                  -> cells `[i:j,lo,hi;…]` (uniforms `lo < u ≤ hi`)
  adnd-build <origins> <sizes> <low 0/1> <M keys> <M values> -> `<boxes> <isAxis> <cumP> <axisCum>` of `_pre_computation`
    where <T> = <boxes [l0,r0,l1,r1;…]> <cumP> <isAxis 0/1 list> <axisCum [c,c;;c,…]> <M keys [l0,r0,…;…]> <M values>
-/
def showCells (cs : List (Nat × Rat × Rat)) : String :=
  showListList id (cs.map (fun c => [toString c.1, showRat c.2.1, showRat c.2.2]))

def fnOf (l : List Rat) : Nat → Rat := let a := l.toArray; fun i => a.getD i 0

/-- rebuild a Huffman tree from its prefix shape and the leaf values (internal values are the exact sums) -/
partial def parseTree : List Int → List Rat → Option (Huffman.Tree × List Int × List Rat)
  | [], _ => none
  | s :: rest, vals =>
    if s < 0 then do
      let (l, r1, v1) ← parseTree rest vals
      let (r, r2, v2) ← parseTree r1 v1
      some (.node (l.value + r.value) l r, r2, v2)
    else
      match vals with
      | [] => none
      | v :: vs => some (.leaf s.toNat v, rest, vs)

def pairUp : List Nat → AdaptedNd.Box
  | l :: r :: rest => (l, r) :: pairUp rest
  | _ => []

def flat (b : AdaptedNd.Box) : List Nat := b.flatMap (fun lr => [lr.1, lr.2])

/-- the tables of the n-d adapted sampler from the wire; the box-mass table is a finite map (0 elsewhere) -/
def parseNd (boxes cum isax axc mk mv : String) : Option AdaptedNd.Tables := do
  let boxes ← parseListListWith? parseNat? boxes
  let cum ← parseRatList? cum
  let isax ← parseNatList? isax
  let axc ← parseListListWith? parseRat? axc
  let mk ← parseListListWith? parseNat? mk
  let mv ← parseRatList? mv
  if boxes.length != cum.length || boxes.length != isax.length || boxes.length != axc.length || mk.length != mv.length then none
  let tbl : Std.HashMap (List Nat) Rat := (mk.zip mv).foldl (fun h kv => h.insert kv.1 kv.2) {}
  let buckets := (List.range boxes.length).map (fun i =>
    ({ box := pairUp (boxes.getD i []), cumP := cum.getD i 0, isAxis := isax.getD i 0 != 0, axisCum := axc.getD i [] } : AdaptedNd.Bucket))
  some ⟨buckets, fun b => tbl.getD (flat b) 0⟩

def showState (s : List Nat) : String := ":".intercalate (s.map toString)

def step (t : List String) : String :=
  match t with
  | ["adnd-draw", boxes, cum, isax, axc, mk, mv, us] =>
    match parseNd boxes cum isax axc mk mv, parseRatList? us with
    | some T, some us => showList (fun u => match AdaptedNd.draw T u with | some s => showState s | none => "X") us
    | _, _ => "bad-op"
  | ["adnd-build", os, ns, low, mk, mv] =>
    match parseNatList? os, parseNatList? ns, parseNat? low, parseListListWith? parseNat? mk, parseRatList? mv with
    | some os, some ns, some low, some mk, some mv =>
      let tbl : Std.HashMap (List Nat) Rat := (mk.zip mv).foldl (fun h kv => h.insert kv.1 kv.2) {}
      let T := AdaptedNd.build (fun b => tbl.getD (flat b) 0) (low != 0) (os.zip ns)
      showListList toString (T.buckets.map (fun bk => flat bk.box)) ++ " " ++
        showNatList (T.buckets.map (fun bk => if bk.isAxis then 1 else 0)) ++ " " ++
        showRatList (T.buckets.map (·.cumP)) ++ " " ++ showListList showRat (T.buckets.map (·.axisCum))
    | _, _, _, _, _ => "bad-op"
  | ["adnd-cells", boxes, cum, isax, axc, mk, mv] =>
    match parseNd boxes cum isax axc mk mv with
    | some T => showListList id ((AdaptedNd.cells T).map (fun c => [showState c.1, showRat c.2.1, showRat c.2.2]))
    | none => "bad-op"
  | ["inv-run", adm, mf, prob, ms, us] =>
    match parseNatList? adm, parseNat? mf, parseRatList? prob, parseNat? ms, parseRatList? us with
    | some adm, some mf, some prob, some ms, some us =>
      let e : Inversion.Env := ⟨adm.map (· != 0), mf, prob, ms⟩
      match Inversion.init e with
      | none => "no-admissible-state"
      | some st0 =>
        let (st, out) := us.foldl (fun (acc : Inversion.St × List Int) u =>
          let (s', r) := Inversion.step e acc.1 u
          (s', (match r with | some k => (k : Int) | none => -1) :: acc.2)) (st0, [])
        showIntList out.reverse ++ " " ++ toString st.cum.length ++ " " ++ toString st.last1
    | _, _, _, _, _ => "bad-op"
  | ["inv-cells", adm, mf, prob] =>
    match parseNatList? adm, parseNat? mf, parseRatList? prob with
    | some adm, some mf, some prob => showCells (Inversion.cellsGen ⟨adm.map (· != 0), mf, prob, 0⟩)
    | _, _, _ => "bad-op"
  | ["alias-build", p] =>
    match parseRatList? p with
    | some p =>
      let t := Alias.build p.length (fnOf p)
      showNatList ((List.range t.K).map t.J) ++ " " ++ showRatList ((List.range t.K).map t.q)
    | _ => "bad-op"
  | ["alias-draw", j, q, us] =>
    match parseNatList? j, parseRatList? q, parseRatList? us with
    | some j, some q, some us => showNatList (us.map (Alias.draw (Alias.ofLists q j)))
    | _, _, _ => "bad-op"
  | ["alias-cells", j, q] =>
    match parseNatList? j, parseRatList? q with
    | some j, some q => showCells (Alias.cells (Alias.ofLists q j))
    | _, _ => "bad-op"
  | ["alias-law", j, q] =>
    match parseNatList? j, parseRatList? q with
    | some j, some q => showRatList ((List.range q.length).map (Alias.lawOfTables (Alias.ofLists q j)))
    | _, _ => "bad-op"
  | ["bst-build", p] =>
    match parseRatList? p with
    | some p =>
      let K := p.length - 1
      let b := Bst.build K (fnOf p)
      showRatList ((List.range K).map (fun i => b (i + 1)))
    | _ => "bad-op"
  | ["bst-draw", b, us] =>
    match parseRatList? b, parseRatList? us with
    | some b, some us => let f := fnOf b; showNatList (us.map (Bst.draw b.length (fun ptr => f (ptr - 1))))
    | _, _ => "bad-op"
  | ["bst-cells", b] =>
    match parseRatList? b with
    | some b => let f := fnOf b; showCells (Bst.cells b.length (fun ptr => f (ptr - 1)))
    | _ => "bad-op"
  | ["huff-build", p] =>
    match parseRatList? p with
    | some p => match Huffman.build p with
      | some t => showIntList (Huffman.shape t)
      | none => "empty"
    | _ => "bad-op"
  | ["huff-draw", sh, vals, us] =>
    match parseIntList? sh, parseRatList? vals, parseRatList? us with
    | some sh, some vals, some us =>
      match parseTree sh vals with
      | some (t, [], []) => showNatList (us.map (Huffman.draw t))
      | _ => "bad-tree"
    | _, _, _ => "bad-op"
  | ["huff-cells", sh, vals] =>
    match parseIntList? sh, parseRatList? vals with
    | some sh, some vals =>
      match parseTree sh vals with
      | some (t, [], []) => showCells (Huffman.cells t)
      | _ => "bad-tree"
    | _, _ => "bad-op"
  | ["table-build", p] =>
    match parseRatList? p with
    | some p =>
      match Table.build p.length (fnOf p) with
      | none => "zero"
      | some t => showIntList t.slots ++ " " ++ showNatList ((List.range t.resid.K).map t.resid.J) ++ " " ++
          showRatList ((List.range t.resid.K).map t.resid.q)
    | _ => "bad-op"
  | ["table-draw", sl, j, q, is] =>
    match parseIntList? sl, parseNatList? j, parseRatList? q, parseNatList? is with
    | some sl, some j, some q, some is => showNatList (is.map (Table.draw ⟨sl, Alias.ofLists q j⟩))
    | _, _, _, _ => "bad-op"
  | ["table-law", sl, j, q, n] =>
    match parseIntList? sl, parseNatList? j, parseRatList? q, parseNat? n with
    | some sl, some j, some q, some n => showRatList ((List.range n).map (Table.lawOfTables ⟨sl, Alias.ofLists q j⟩))
    | _, _, _, _ => "bad-op"
  | ["ad1-draw", w, o, pl, us] =>
    match parseRatList? w, parseNat? o, parseRat? pl, parseRatList? us with
    | some w, some o, some pl, some us => showNatList (us.map (Adapted.draw (fnOf w) w.length o pl))
    | _, _, _, _ => "bad-op"
  | ["ad1-cells", w, o, pl] =>
    match parseRatList? w, parseNat? o, parseRat? pl with
    | some w, some o, some pl => showCells (Adapted.cells (fnOf w) w.length o pl)
    | _, _, _ => "bad-op"
  | _ => "bad-op"

def main : IO Unit := runStateless step
