import RpylibModel.Basic.Proto
import RpylibModel.Model.Stats
open Rpylib Rpylib.Stats

def fn (l : List Rat) : Nat → Rat := fun i => l.getD i 0

/-- constant-time accessors (arrays), so that a request with a few hundred paths is answered in well under a second -/
def fnA (l : List Rat) : Nat → Rat :=
  let a := l.toArray
  fun i => a.getD i 0

def fnnA (l : List (List Rat)) : Array (Array Rat) := (l.map List.toArray).toArray

def atA (a : Array (Array Rat)) (r i : Nat) : Rat := (a.getD r #[]).getD i 0
/-- requests:
  stats <ys>                  -> `<mean> <varU> <stderrSq>`
  cv1 <price> <xs> <ys>       -> `<bStar> <adjusted list> <mean adjusted> <stderrSq adjusted>`
  rows <df> <notional> <payoffs> -> stored rows (`-` for a placeholder)
  cvvec <k> <d> <prices: k rows of d> <X: k*d rows of n, row j*d+c = control j, component c> <Y: d rows of n>
        -> `<adjusted: d rows of n> <coefficients: d rows of k> <means: d> <stderrSq: d>`   (k ≤ 2: the kernel as coded)
-/

def step (t : List String) : String :=
  match t with
  | ["stats", ys] =>
    match parseRatList? ys with
    | some ys => let n := ys.length; let f := fnA ys; showRat (mean n f) ++ " " ++ showRat (varU n f) ++ " " ++ showRat (stderrSq n f)
    | none => "bad-op"
  | ["cv1", c, xs, ys] =>
    match parseRat? c, parseRatList? xs, parseRatList? ys with
    | some c, some xs, some ys =>
      let n := ys.length
      let b := bStar n (fn xs) (fn ys)
      let a := adjust b c (fn xs) (fn ys)
      showRat b ++ " " ++ showRatList ((List.range n).map a) ++ " " ++ showRat (mean n a) ++ " " ++ showRat (stderrSq n a)
    | _, _, _ => "bad-op"
  | ["cvvec", k, d, prs, xs, ys] =>
    match parseNat? k, parseNat? d, parseListListWith? parseRat? prs, parseListListWith? parseRat? xs, parseListListWith? parseRat? ys with
    | some k, some d, some prs, some xs, some ys =>
      if k > 2 || ys.length != d || xs.length != k * d || prs.length != k then "bad-op" else
      let n := (ys.getD 0 []).length
      let xa := fnnA xs
      let ya := fnnA ys
      let pa := fnnA prs
      let x : Nat → Nat → Nat → Rat := fun j c i => atA xa (j * d + c) i
      let y : Nat → Nat → Rat := atA ya
      let pr : Nat → Nat → Rat := atA pa
      let cs := List.range d
      let adj := cs.map (adjustVecRow k (kernelOf k) pr x y n)
      let adjA := fnnA adj
      showListList showRat adj ++ " " ++ showListList showRat (cs.map (coefVec k (kernelOf k) x y n))
        ++ " " ++ showRatList (cs.map (fun c => mean n (atA adjA c)))
        ++ " " ++ showRatList (cs.map (fun c => stderrSq n (atA adjA c)))
    | _, _, _, _, _ => "bad-op"
  | ["rows", df, no, ps] =>
    match parseRat? df, parseRat? no, parseRatList? ps with
    | some df, some no, some ps => showList (showOpt showRat) (stdRows ps.length df no (fn ps))
    | _, _, _ => "bad-op"
  | _ => "bad-op"

def main : IO Unit := runStateless step
