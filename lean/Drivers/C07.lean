import RpylibModel.Basic.Proto
import RpylibModel.Model.Stats
open Rpylib Rpylib.Stats

def fn (l : List Rat) : Nat → Rat := fun i => l.getD i 0

/-- requests:
  stats <ys>                  -> `<mean> <varU> <stderrSq>`
  cv1 <price> <xs> <ys>       -> `<bStar> <adjusted list> <mean adjusted> <stderrSq adjusted>`
  rows <df> <notional> <payoffs> -> stored rows (`-` for a placeholder)
-/
def step (t : List String) : String :=
  match t with
  | ["stats", ys] =>
    match parseRatList? ys with
    | some ys => let n := ys.length; showRat (mean n (fn ys)) ++ " " ++ showRat (varU n (fn ys)) ++ " " ++ showRat (stderrSq n (fn ys))
    | none => "bad-op"
  | ["cv1", c, xs, ys] =>
    match parseRat? c, parseRatList? xs, parseRatList? ys with
    | some c, some xs, some ys =>
      let n := ys.length
      let b := bStar n (fn xs) (fn ys)
      let a := adjust b c (fn xs) (fn ys)
      showRat b ++ " " ++ showRatList ((List.range n).map a) ++ " " ++ showRat (mean n a) ++ " " ++ showRat (stderrSq n a)
    | _, _, _ => "bad-op"
  | ["rows", df, no, ps] =>
    match parseRat? df, parseRat? no, parseRatList? ps with
    | some df, some no, some ps => showList (showOpt showRat) (stdRows ps.length df no (fn ps))
    | _, _, _ => "bad-op"
  | _ => "bad-op"

def main : IO Unit := runStateless step
