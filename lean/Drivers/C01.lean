import RpylibModel.Basic.Proto
import RpylibModel.Model.Grid
import RpylibModel.Model.Cells
open Rpylib Rpylib.Grid Rpylib.Cells

/-! Line-protocol driver of property C01: executes the definitions of RpylibModel/Model/Cells.lean.

requests (lists as in Proto: `[a,b,c]`, nested `[a,b;c,d]`; a mid table is a nested list of triples `a,b,middle(a,b)`,
`[]` for the arithmetic mean):
  cells1d <axis> <midtbl>                     -> `<cellLo k> <cellHi k>`                        (two lists)
  origin1d <axis> <o> <midtbl>                -> `<h_left> <h_right>`
  queries1d <axis> <o> <midtbl>               -> `[a,b;…]` the intervals at which the chain evaluates the underlying
                                                 (untruncated) `integrate`: the n-1 non-origin cells, then left block, right block
  chain1d <axis> <o> <midtbl> <values>        -> `<qVector> <intensity> <jumpProb k>` with the measure given by the table
                                                 queries1d ↦ values, truncated to [axis[0], axis[-1]] by the model
  step1d <axis> <o> <knots> <heights>         -> same three outputs for the piecewise-constant density (exact)
  refcells <axis> <o> <k>                     -> `<axis'> <o'> <cellLo> <cellHi>` after k refinements (arithmetic mean)
  cellsNd <axes> <o>                          -> `<[lo of axis 0;lo of axis 1;…]> <[hi…]> <[h_left…]> <[h_right…]>`
  queriesNd <axes> <o>                        -> `[a1,b1,a2,b2,…;…]` every non-origin cell (first coordinate slowest), then the blocks
  chainNd <axes> <o> <values>                 -> `<qTensor> <intensity> <block masses> <bucket index ranges> <axis bucket probabilities>`
-/

def parseTriples (s : String) : Option (List (Rat × Rat × Rat)) := do
  let rows ← parseListListWith? parseRat? s
  rows.mapM (fun r => match r with
    | [a, b, v] => some (a, b, v)
    | _ => none)

def midOf (tbl : List (Rat × Rat × Rat)) : Rat → Rat → Rat :=
  if tbl.isEmpty then amid else tableMid tbl

def showPairs (l : List (Rat × Rat)) : String := showListList showRat (l.map (fun p => [p.1, p.2]))

def showBoxes (l : List Box) : String :=
  showListList showRat (l.map (fun b => b.flatMap (fun p => [p.1, p.2])))

def out1d (mid : Rat → Rat → Rat) (ax : List Rat) (o : Nat) (m : Rat → Rat → Rat) : String :=
  let mm := chainMass ax m
  showRatList (qVector mid ax o mm) ++ " " ++ showRat (intensity1d mid ax o mm) ++ " " ++
    showRatList ((List.range ax.length).map (fun k => if k = o then 0 else jumpProb mid ax o mm k))

def step (t : List String) : String :=
  match t with
  | ["cells1d", ax, tbl] =>
    match parseRatList? ax, parseTriples tbl with
    | some ax, some tbl =>
      let mid := midOf tbl
      showRatList ((List.range ax.length).map (cellLo mid ax)) ++ " " ++
        showRatList ((List.range ax.length).map (cellHi mid ax))
    | _, _ => "bad-op"
  | ["origin1d", ax, o, tbl] =>
    match parseRatList? ax, parseNat? o, parseTriples tbl with
    | some ax, some o, some tbl =>
      let mid := midOf tbl
      showRat (hLeft mid ax o) ++ " " ++ showRat (hRight mid ax.length ax o)
    | _, _, _ => "bad-op"
  | ["queries1d", ax, o, tbl] =>
    match parseRatList? ax, parseNat? o, parseTriples tbl with
    | some ax, some o, some tbl => showPairs (queries1d (midOf tbl) ax o)
    | _, _, _ => "bad-op"
  | ["chain1d", ax, o, tbl, vals] =>
    match parseRatList? ax, parseNat? o, parseTriples tbl, parseRatList? vals with
    | some ax, some o, some tbl, some vals =>
      let mid := midOf tbl
      let qs := queries1d mid ax o
      if qs.length != vals.length then "bad-op" else
      let table := (qs.zip vals).map (fun p => (p.1.1, p.1.2, p.2))
      out1d mid ax o (tableMass table)
    | _, _, _, _ => "bad-op"
  | ["step1d", ax, o, knots, heights] =>
    match parseRatList? ax, parseNat? o, parseRatList? knots, parseRatList? heights with
    | some ax, some o, some knots, some heights => out1d amid ax o (stepMass knots heights)
    | _, _, _, _ => "bad-op"
  | ["refcells", ax, o, k] =>
    match parseRatList? ax, parseNat? o, parseNat? k with
    | some ax, some o, some k =>
      let g := Grid.refineN amid k ⟨[ax], 1, o⟩
      let ax' := g.axes.headD []
      showRatList ax' ++ " " ++ toString g.origin ++ " " ++
        showRatList ((List.range ax'.length).map (cellLo amid ax')) ++ " " ++
        showRatList ((List.range ax'.length).map (cellHi amid ax'))
    | _, _, _ => "bad-op"
  | ["cellsNd", axes, o] =>
    match parseListListWith? parseRat? axes, parseNat? o with
    | some axes, some o =>
      showListList showRat (axes.map (fun ax => (List.range ax.length).map (cellLo amid ax))) ++ " " ++
        showListList showRat (axes.map (fun ax => (List.range ax.length).map (cellHi amid ax))) ++ " " ++
        showRatList (axes.map (fun ax => hLeft amid ax o)) ++ " " ++
        showRatList (axes.map (fun ax => hRight amid ax.length ax o))
    | _, _ => "bad-op"
  | ["queriesNd", axes, o] =>
    match parseListListWith? parseRat? axes, parseNat? o with
    | some axes, some o => showBoxes (queriesNd amid axes o)
    | _, _ => "bad-op"
  | ["chainNd", axes, o, vals] =>
    match parseListListWith? parseRat? axes, parseNat? o, parseRatList? vals with
    | some axes, some o, some vals =>
      let qs := queriesNd amid axes o
      if qs.length != vals.length then "bad-op" else
      let m := tableBoxMass (qs.zip vals)
      let bs := bucketIdx axes o
      showRatList (qTensor amid axes o m) ++ " " ++ showRat (intensityNd amid axes o m) ++ " " ++
        showRatList ((blocks amid axes o).map m) ++ " " ++
        showListList toString (bs.map (fun b => b.flatMap (fun p => [p.1, p.2]))) ++ " " ++
        showListList showRat (bs.map (axisBucketProbs amid axes o m))
    | _, _, _ => "bad-op"
  | _ => "bad-op"

def main : IO Unit := runStateless step
