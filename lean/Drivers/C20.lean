import RpylibModel.Basic.Proto
import RpylibModel.Model.Params
open Rpylib Rpylib.Params

/-- requests (stateful: one current `Parameters` object):
  qnew <fam> <args>                  -> irrational evaluations the constructor needs: `[k,a,b;…]` (k: 0 gamma(a), 1 pow(a,b), 2 sqrt(a))
  new <fam> <args> <table>           -> `<outcome> <dict>`; args in constructor order; table `[k,a,b,value;…]`
  queries                            -> evaluations `initialisation` needs in the current state
  set <name> <v>                     -> `<outcome> <dict>`
  init <table>                       -> `<outcome> <dict>`
  initprefix                         -> Black–Scholes `initialisation` before fix 5621114 (no-op)
  interval <fam> <name> <lo> <hi>    -> `true|false` (Cons.containsInterval) and `rowok <FAMNAME> <name> <lo> <hi>`
  derived <fam>                      -> names of the cached attributes
  calib <fam> <args> <table> <name> <x> -> rebuild after calibration: `<dict>` or `none`
fam ∈ bs merton hem vg cgmy;  outcome ∈ ok ValueError ZeroDivisionError;  dict = `name=value,…` in a fixed order -/
def famOf : String → Option Fam
  | "bs" => some .bs | "merton" => some .merton | "hem" => some .hem | "vg" => some .vg | "cgmy" => some .cgmy
  | _ => none

def allAttrs : List Attr :=
  [.sigma, .variance, .mu_j, .sigma_j, .intensity, .p, .eta1, .eta2, .xi, .nu, .theta, .vc, .lambda_p, .lambda_m,
   .c, .g, .m, .y, .cGammamY, .mPowerY, .gPowerY, .other 5]

def showDict (d : Dict) : String :=
  "{" ++ ",".intercalate (allAttrs.filterMap (fun a => (d a).map (fun v => nameOfAttr a ++ "=" ++ showRat v))) ++ "}"

def showOutcome : Outcome → String
  | .ok => "ok" | .valueError => "ValueError" | .zeroDiv => "ZeroDivisionError"

def lookup (tbl : List (List Rat)) (k a b : Rat) : Rat :=
  match tbl.find? (fun r => match r with | [k', a', b', _] => k' == k && a' == a && b' == b | _ => false) with
  | some [_, _, _, v] => v
  | _ => 0

def irrOf (tbl : List (List Rat)) : Irr :=
  { gamma := fun x => lookup tbl 0 x 0, pow := fun a b => lookup tbl 1 a b, sqrt := fun x => lookup tbl 2 x 0 }

/-- the arguments at which `initialisation` evaluates an irrational function in state `d` -/
def queriesOf (f : Fam) (d : Dict) : List (List Rat) :=
  match f with
  | .cgmy => [[0, -(d.get .y), 0], [1, d.get .m, d.get .y], [1, d.get .g, d.get .y]]
  | .vg =>
    if d.get .nu = 0 ∨ d.get .sigma * d.get .sigma = 0 then []
    else [[2, d.get .theta * d.get .theta + 2 * (d.get .sigma * d.get .sigma) / d.get .nu, 0]]
  | _ => []

def argsOf (f : Fam) (vals : List Rat) : Attr → Rat :=
  fun a => match ((prims f).zip vals).find? (fun p => p.1 == a) with
    | some p => p.2
    | none => 0

abbrev St := Option (Fam × Dict)

def step (s : St) (t : List String) : St × String :=
  match t with
  | ["qnew", f, args] =>
    match famOf f, parseRatList? args with
    | some f, some vals =>
      if vals.length ≠ (prims f).length then (s, "bad-op") else
      (s, showListList showRat (queriesOf f (setAll' f vals)))
    | _, _ => (s, "bad-op")
  | ["new", f, args, tbl] =>
    match famOf f, parseRatList? args, parseListListWith? parseRat? tbl with
    | some f, some vals, some tbl =>
      if vals.length ≠ (prims f).length then (s, "bad-op") else
      let (d, o) := construct (irrOf tbl) f (argsOf f vals)
      match o with
      | .ok => (some (f, d), showOutcome o ++ " " ++ showDict d)
      | _ => (none, showOutcome o ++ " {}")
    | _, _, _ => (s, "bad-op")
  | ["queries"] =>
    match s with
    | some (f, d) => (s, showListList showRat (queriesOf f d))
    | none => (s, "bad-op")
  | ["set", name, v] =>
    match s, parseRat? v with
    | some (f, d), some v =>
      let (d', o) := Params.step (irrOf []) f d (.set (attrOfName name) v)
      (some (f, d'), showOutcome o ++ " " ++ showDict d')
    | _, _ => (s, "bad-op")
  | ["init", tbl] =>
    match s, parseListListWith? parseRat? tbl with
    | some (f, d), some tbl =>
      let (d', o) := Params.step (irrOf tbl) f d .init
      (some (f, d'), showOutcome o ++ " " ++ showDict d')
    | _, _ => (s, "bad-op")
  | ["initprefix"] =>
    match s with
    | some (f, d) => let (d', o) := initialisationBSPrefix d; (some (f, d'), showOutcome o ++ " " ++ showDict d')
    | none => (s, "bad-op")
  | ["interval", f, name, lo, hi] =>
    match famOf f, parseRat? lo, parseRat? hi with
    | some f, some lo, some hi => (s, toString ((cons f (attrOfName name)).containsInterval lo hi))
    | _, _, _ => (s, "bad-op")
  | ["rowok", fname, name, lo, hi] =>
    match parseRat? lo, parseRat? hi with
    | some lo, some hi => (s, toString (rowOk (fname, name, lo, hi)))
    | _, _ => (s, "bad-op")
  | ["derived", f] =>
    match famOf f with
    | some f => (s, showList nameOfAttr (derivedNames f))
    | none => (s, "bad-op")
  | ["calib", name, x, tbl] =>
    match s, parseRat? x, parseListListWith? parseRat? tbl with
    | some (f, d), some x, some tbl =>
      match rebuild (irrOf tbl) f d (attrOfName name) x with
      | some d2 => (s, showDict d2)
      | none => (s, "none")
    | _, _, _ => (s, "bad-op")
  | ["qcalib", name, x] =>
    match s, parseRat? x with
    | some (f, d), some x => (s, showListList showRat (queriesOf f (assign f d (attrOfName name) x).1))
    | _, _ => (s, "bad-op")
  | _ => (s, "bad-op")
where
  setAll' (f : Fam) (vals : List Rat) : Dict :=
    ((prims f).zip vals).foldl (fun d p => d.set p.1 p.2) Dict.empty

def main : IO Unit := runStateful step (none : St)
