import RpylibModel.Basic.Proto
import RpylibModel.Model.Grid
import RpylibModel.Model.Cells
import RpylibModel.Model.Coupling
open Rpylib Rpylib.Grid Rpylib.Cells Rpylib.Coupling

/-! Line-protocol driver of property C03: executes the definitions of RpylibModel/Model/Coupling.lean.

A mid table is a nested list of triples `a,b,middle(a,b)` (`[]` = arithmetic mean).  `<fine>` is the refined axis, `<of>`
its origin index (even); the coarse axis is `coarsen fine`, its origin `of / 2`.

  q1d <fine> <of> <midtbl>              -> `[a,b;…]` the intervals whose mass the model needs: the two half cells of every odd
                                           position, the cells of the non-origin fine states, the cells of the non-origin
                                           coarse states
  c1d <fine> <of> <midtbl> <values>     -> `<pRight of the odd positions> <fine rates> <coupled rate of every coarse state>
                                            <coarse rates> <sentRight odd> <sentLeft odd>`
  couple1d <fine> <of> <midtbl> <values> <inc> <u>   -> the value `coupling_state(inc)` returns for the coupling uniform u
  couple1dm … <incs> <us>               -> the same for a list of (increment, uniform) pairs
  couplendm <axes> <o> <values> <incs> <us> -> rows of coupled values for a list of (increment, uniform) pairs (empty row = raise)
  slice1d <fine> <of> <midtbl> <values> <incs> <us>  -> `coupling_states_for_a_slice` (running sums)
  levels <axis> <o> <h> <midtbl> <L> <diffs> <drifts> <x0s> <t>
                                        -> state after L `next_level` calls, the chain parameters of level l being the l-th
                                           entries: `<axis> <origin> <h> <level> <diffFine> <diffCoarse> <freeze_spots>
                                           <freeze_drift> <coarse path at t> <fine path at t>`
  diffpaths <cf> <cc> <sqrtdts> <w>     -> `<fine cumsum> <coarse cumsum>`
  qnd <axes> <o>                        -> rows `k,s1..sk,a1,b1,…,ak,bk`: index set and box of every mass the model needs
  cnd <axes> <o> <values>               -> `<corner probabilities, one row per fine state> <fine rates> <coupled rate of
                                            every coarse state> <coarse rates>` (states: first coordinate slowest)
  couplend <axes> <o> <values> <inc> <u> -> the coupled value, or `raise`
  cex                                   -> the numbers of the negation witness `telescoping_nd_counterexample`
  cexaxes                               -> the numbers of the negation witness `axes_counterexample` (two different axes):
                                           `<coarse A> <coarse B> <fine A> <fine B> <cornerProbs [0,3]> <coupleNd [0,3] at 3/4>
                                            <coupledRate2 [4,8]> <rateNd coarse [2,4]> <coupledRate2 [8,4]> <rateNd coarse [4,2]>`
  sde <axis> <o> <h> <midtbl> <L> <diffs> <drifts>
                                        -> the record `CouplingSDE.next_level` keeps (Model `sdeLevelAt`), the driver chain built on
                                           the grid of level l having diffusion coefficient / drift `diffs[l]`, `drifts[l]`:
                                           `<mc_drift_h, diffFine, epsilon's h at level 0> <rows, one per level 1..L:
                                            level, mc_drift_h, mc_drift_2h, diffFine, diffCoarse, epsilon's h, driver grid h,
                                            driver origin, drift and coefficient read by the coarse component (sdeUses 1)>`
-/

def parseTriples (s : String) : Option (List (Rat × Rat × Rat)) := do
  let rows ← parseListListWith? parseRat? s
  rows.mapM (fun r => match r with
    | [a, b, v] => some (a, b, v)
    | _ => none)

def midOf (tbl : List (Rat × Rat × Rat)) : Rat → Rat → Rat :=
  if tbl.isEmpty then amid else tableMid tbl

def showPairs (l : List (Rat × Rat)) : String := showListList showRat (l.map (fun p => [p.1, p.2]))

def oddIdx (n : Nat) : List Nat := (List.range n).filter (fun k => k % 2 == 1)

/-- all intervals of the 1-d check -/
def allQueries1d (mid : Rat → Rat → Rat) (fine : List Rat) (o : Nat) : List (Rat × Rat) :=
  let coarse := coarsen fine
  Coupling.queries1d mid fine o ++
    ((List.range coarse.length).filter (fun k => k != o / 2)).map (fun k => (cellLo mid coarse k, cellHi mid coarse k))

def table1d (mid : Rat → Rat → Rat) (fine : List Rat) (o : Nat) (vals : List Rat) : Option (Rat → Rat → Rat) :=
  let qs := allQueries1d mid fine o
  if qs.length != vals.length then none
  else some (tableMass ((qs.zip vals).map (fun p => (p.1.1, p.1.2, p.2))))

/-- (index set, box) queries of the n-d check -/
def allQueriesNd (axes : List (List Rat)) (o : Nat) : List (List Nat × Box) :=
  let d := axes.length
  let full := List.range d
  let fineStates := states axes
  let coarseAxes := axes.map coarsen
  let oc := o / 2
  ((fineStates.filter (fun cs => cs != axes.map (fun _ => o))).map (fun cs => (full, cellBox amid axes cs))) ++
    fineStates.flatMap (queriesState axes o) ++
    (((states coarseAxes).filter (fun cs => cs != axes.map (fun _ => oc))).map (fun cs => (full, cellBox amid coarseAxes cs)))

def showQuery (q : List Nat × Box) : List String :=
  [toString q.1.length] ++ q.1.map toString ++ q.2.flatMap (fun p => [showRat p.1, showRat p.2])

def tableNd (axes : List (List Rat)) (o : Nat) (vals : List Rat) : Option MarginMass :=
  let qs := allQueriesNd axes o
  if qs.length != vals.length then none else some (tableMargin (qs.zip vals))

def parseInts? (s : String) : Option (List Int) := parseIntList? s

def step (t : List String) : String :=
  match t with
  | ["q1d", ax, o, tbl] =>
    match parseRatList? ax, parseNat? o, parseTriples tbl with
    | some ax, some o, some tbl => showPairs (allQueries1d (midOf tbl) ax o)
    | _, _, _ => "bad-op"
  | ["c1d", ax, o, tbl, vals] =>
    match parseRatList? ax, parseNat? o, parseTriples tbl, parseRatList? vals with
    | some ax, some o, some tbl, some vals =>
      let mid := midOf tbl
      match table1d mid ax o vals with
      | none => "bad-op"
      | some m =>
        let coarse := coarsen ax
        let odd := oddIdx ax.length
        showRatList (odd.map (pRight mid ax m)) ++ " " ++
          showRatList ((List.range ax.length).map (rate mid ax o m)) ++ " " ++
          showRatList ((List.range coarse.length).map (fun j => coupledRate mid ax o m (2 * j))) ++ " " ++
          showRatList ((List.range coarse.length).map (rate mid coarse (o / 2) m)) ++ " " ++
          showRatList (odd.map (sentRight mid ax o m)) ++ " " ++
          showRatList (odd.map (sentLeft mid ax o m))
    | _, _, _, _ => "bad-op"
  | ["couple1d", ax, o, tbl, vals, inc, u] =>
    match parseRatList? ax, parseNat? o, parseTriples tbl, parseRatList? vals, parseInt? inc, parseRat? u with
    | some ax, some o, some tbl, some vals, some inc, some u =>
      let mid := midOf tbl
      match table1d mid ax o vals with
      | none => "bad-op"
      | some m => showRat (couple1d mid ax o m inc u)
    | _, _, _, _, _, _ => "bad-op"
  | ["couple1dm", ax, o, tbl, vals, incs, us] =>
    match parseRatList? ax, parseNat? o, parseTriples tbl, parseRatList? vals, parseInts? incs, parseRatList? us with
    | some ax, some o, some tbl, some vals, some incs, some us =>
      let mid := midOf tbl
      match table1d mid ax o vals with
      | none => "bad-op"
      | some m => showRatList ((incs.zip us).map (fun p => couple1d mid ax o m p.1 p.2))
    | _, _, _, _, _, _ => "bad-op"
  | ["slice1d", ax, o, tbl, vals, incs, us] =>
    match parseRatList? ax, parseNat? o, parseTriples tbl, parseRatList? vals, parseInts? incs, parseRatList? us with
    | some ax, some o, some tbl, some vals, some incs, some us =>
      let mid := midOf tbl
      match table1d mid ax o vals with
      | none => "bad-op"
      | some m => showRatList (coupleSlice mid ax o m incs us 0)
    | _, _, _, _, _, _ => "bad-op"
  | ["levels", ax, o, h, tbl, l, diffs, drifts, x0s, tt] =>
    match parseRatList? ax, parseNat? o, parseRat? h, parseTriples tbl, parseNat? l, parseRatList? diffs,
        parseRatList? drifts, parseRatList? x0s, parseRat? tt with
    | some ax, some o, some h, some tbl, some l, some diffs, some drifts, some x0s, some tt =>
      let mid := midOf tbl
      -- the chain built on the grid of level k (recognised by its origin index o * 2^k)
      let chain : Grid → ChainParams Rat := fun g =>
        let k := ((List.range (l + 1)).find? (fun k => o * 2 ^ k == g.origin)).getD 0
        { diff := diffs.getD k 0, drift := drifts.getD k 0, x0 := x0s.getD k 0 }
      let L := levelAt (0 : Rat) mid chain ⟨[ax], h, o⟩ l
      showRatList (L.grid.axes.headD []) ++ " " ++ toString L.grid.origin ++ " " ++ showRat L.grid.h ++ " " ++
        toString L.level ++ " " ++ showRat L.diffFine ++ " " ++ showRat L.diffCoarse ++ " " ++
        showOpt (fun f => showRat f.1 ++ " " ++ showRat f.2) L.frozen ++ " " ++
        showOpt showRat (coarsePath L tt) ++ " " ++ showRat (L.fine.detPath tt)
    | _, _, _, _, _, _, _, _, _ => "bad-op"
  | ["diffpaths", cf, cc, s, w] =>
    match parseRat? cf, parseRat? cc, parseRatList? s, parseRatList? w with
    | some cf, some cc, some s, some w =>
      let L : Level Rat := { level := 1, grid := ⟨[], 0, 0⟩, diffFine := cf, diffCoarse := cc, fine := ⟨cf, 0, 0⟩, frozen := none }
      let r := diffPaths L s w
      showRatList r.1 ++ " " ++ showRatList r.2
    | _, _, _, _ => "bad-op"
  | ["qnd", axes, o] =>
    match parseListListWith? parseRat? axes, parseNat? o with
    | some axes, some o => "[" ++ ";".intercalate ((allQueriesNd axes o).map (fun q => ",".intercalate (showQuery q))) ++ "]"
    | _, _ => "bad-op"
  | ["cnd", axes, o, vals] =>
    match parseListListWith? parseRat? axes, parseNat? o, parseRatList? vals with
    | some axes, some o, some vals =>
      match tableNd axes o vals with
      | none => "bad-op"
      | some m =>
        let d := axes.length
        let fineStates := states axes
        let coarseAxes := axes.map coarsen
        let coarseStates := states coarseAxes
        let incOf := fun (cs : List Nat) => cs.map (fun (c : Nat) => (c : Int) - (o : Int))
        showListList showRat (fineStates.map (fun cs =>
          if (oddAxes (incOf cs)).isEmpty then [] else cornerProbs axes o m (incOf cs))) ++ " " ++
        showRatList (fineStates.map (rateNd amid axes o (joint d m))) ++ " " ++
        showRatList (coarseStates.map (fun ys => coupledRateNd axes o m (ys.map (fun y => 2 * y)))) ++ " " ++
        showRatList (coarseStates.map (rateNd amid coarseAxes (o / 2) (joint d m)))
    | _, _, _ => "bad-op"
  | ["couplend", axes, o, vals, inc, u] =>
    match parseListListWith? parseRat? axes, parseNat? o, parseRatList? vals, parseInts? inc, parseRat? u with
    | some axes, some o, some vals, some inc, some u =>
      match tableNd axes o vals with
      | none => "bad-op"
      | some m => showOpt showRatList (coupleNd axes o m inc u) |>.replace "none" "raise"
    | _, _, _, _, _ => "bad-op"
  | ["couplendm", axes, o, vals, incs, us] =>
    match parseListListWith? parseRat? axes, parseNat? o, parseRatList? vals, parseListListWith? parseInt? incs, parseRatList? us with
    | some axes, some o, some vals, some incs, some us =>
      match tableNd axes o vals with
      | none => "bad-op"
      | some m => showListList showRat ((incs.zip us).map (fun p => (coupleNd axes o m p.1 p.2).getD []))
    | _, _, _, _, _ => "bad-op"
  | ["cex"] =>
    showRatList cexFine ++ " " ++ showRat (coupledRate2 [cexFine, cexFine] 2 lineMargin [2, 4]) ++ " " ++
      showRat (rateNd amid [cexCoarse, cexCoarse] 1 (joint 2 lineMargin) [1, 2]) ++ " " ++
      showRatList (cornerProbs [cexFine, cexFine] 2 lineMargin [0, 1]) ++ " " ++
      showListList showRat ((List.range 3).map (fun i => (List.range 3).map (fun j =>
        coupledRate2 [cexFine, cexFine] 2 lineMargin [2 * i, 2 * j]))) ++ " " ++
      showListList showRat ((List.range 3).map (fun i => (List.range 3).map (fun j =>
        rateNd amid [cexCoarse, cexCoarse] 1 (joint 2 lineMargin) [i, j])))
  | ["sde", ax, o, h, tbl, l, diffs, drifts] =>
    match parseRatList? ax, parseNat? o, parseRat? h, parseTriples tbl, parseNat? l, parseRatList? diffs, parseRatList? drifts with
    | some ax, some o, some h, some tbl, some l, some diffs, some drifts =>
      let mid := midOf tbl
      let chain : Grid → ChainParams Rat := fun g =>
        let k := ((List.range (l + 1)).find? (fun k => o * 2 ^ k == g.origin)).getD 0
        { diff := diffs.getD k 0, drift := drifts.getD k 0, x0 := 0 }
      let S0 := sdeLevelAt mid chain ⟨[ax], h, o⟩ 0
      showRatList [S0.mcDriftH, S0.drv.diffFine, S0.epsH] ++ " " ++
        showListList showRat ((List.range l).map (fun k =>
          let S := sdeLevelAt mid chain ⟨[ax], h, o⟩ (k + 1)
          let u := (sdeUses S 1).getD (0, 0)
          [(S.level : Rat), S.mcDriftH, S.mcDrift2H.getD 0, S.drv.diffFine, S.drv.diffCoarse, S.epsH, S.drv.grid.h,
            (S.drv.grid.origin : Rat), u.1, u.2]))
    | _, _, _, _, _, _, _ => "bad-op"
  | ["cexaxes"] =>
    showRatList cexCoarseA ++ " " ++ showRatList cexCoarseB ++ " " ++ showRatList cexFineA ++ " " ++ showRatList cexFineB ++ " " ++
      showRatList (cornerProbs [cexFineA, cexFineB] 4 lebMargin [0, 3]) ++ " " ++
      showOpt showRatList (coupleNd [cexFineA, cexFineB] 4 lebMargin [0, 3] (3 / 4)) ++ " " ++
      showRat (coupledRate2 [cexFineA, cexFineB] 4 indepMargin [4, 8]) ++ " " ++
      showRat (rateNd amid [cexCoarseA, cexCoarseB] 2 (joint 2 indepMargin) [2, 4]) ++ " " ++
      showRat (coupledRate2 [cexFineA, cexFineB] 4 indepMargin [8, 4]) ++ " " ++
      showRat (rateNd amid [cexCoarseA, cexCoarseB] 2 (joint 2 indepMargin) [4, 2])
  | _ => "bad-op"

def main : IO Unit := runStateless step
