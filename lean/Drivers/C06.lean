import RpylibModel.Basic.Proto
import RpylibModel.Model.Mlmc
import RpylibModel.Model.Alloc
open Rpylib Rpylib.Mlmc

/-- scripted process shared with harness/fake_engine.py (values already discounted with df = 1/2):
    F l k = (16 l + (k+1)/1024)/2, C l k = (16 l − 8 + (k+1)/2048)/2, cost per sample 2^l -/
def proc : Proc := ⟨fun l k => (16 * l + (k + 1) / 1024) / 2, fun l k => (16 * l - 8 + (k + 1) / 2048) / 2, fun l => 2 ^ l⟩

def parseOracle? (s : String) : Option Oracle :=
  match s.splitOn "|" with
  | [ns, c, ns2] => do
      let a ← parseNatList? ns
      let b ← parseNatList? ns2
      some ⟨a, c == "1", b⟩
  | _ => none

def levels (s : St) : List Nat := List.range (s.L + 1)

/-- one read point: what `set_mlmc_results` sees -/
def showRead (s : St) : String :=
  let ls := levels s
  let lv := fun l => s.lv l
  "R " ++ toString s.L ++ " " ++ showNatList (ls.map (fun l => (lv l).N)) ++ " " ++ showNatList (ls.map (fun l => (lv l).sim))
    ++ " " ++ showRatList (ls.map (fun l => (lv l).cost))
    ++ " " ++ showListList showRat (ls.map (fun l => (lv l).rows.map rowFine))
    ++ " " ++ showListList showRat (ls.map (fun l => (lv l).rows.map rowCoarse))
    ++ " " ++ showListList (fun (r : Row) => if r.isNone then "1" else "0") (ls.map (fun l => (lv l).rows))
    ++ " " ++ showRat (priceOf s)
    ++ " " ++ showRatList (ls.map (fun l => dpMean (lv l)))
    ++ " " ++ showRatList (ls.map (fun l => vlOf (lv l)))
    ++ " " ++ showRatList (ls.map (fun l => clOf (lv l)))
    ++ " " ++ showRatList (ls.map (fun l => fineMean (lv l)))

def showEnd (tag : String) (s : St) : String :=
  tag ++ " " ++ toString s.L ++ " " ++ showNatList ((levels s).map (fun l => (s.lv l).N)) ++ " " ++
    showNatList ((levels s).map (fun l => (s.lv l).dN)) ++ " " ++
    showNatList ((levels s).map (fun l => (s.lv l).rows.length))

/-- run with a trace of every read point -/
def trace : List Oracle → St → List String → List String
  | [], s, acc => (showEnd "cont" s :: acc).reverse
  | o :: os, s, acc =>
    let acc := showRead (afterPasses proc s) :: acc
    match iter proc o s with
    | .cont s' => trace os s' acc
    | .ret s' => (showEnd "ret" s' :: acc).reverse

def step (t : List String) : String :=
  match t with
  | ["price", l0, n0, lmax, ninit, hist] =>
    match parseNat? l0, parseNat? n0, parseNat? lmax, parseNat? ninit,
          (if hist == "-" then some [] else (hist.splitOn ";").mapM parseOracle?) with
    | some l0, some n0, some lmax, some ninit, some os =>
      match loopHead (init l0 n0 lmax ninit) with
      | .cont s => " # ".intercalate (trace os s [])
      | .ret s => showEnd "ret" s
    | _, _, _, _, _ => "bad-op"
  | ["fixed", lmax, mc] =>
    match parseNat? lmax, parseNat? mc with
    | some lmax, some mc => showRead (fixedRun proc lmax mc)
    | _, _ => "bad-op"
  | ["giles", theta, rmse, v, c] =>
    match parseRat? theta, parseRat? rmse, parseRatList? v, parseRatList? c with
    | some th, some e, some v, some c => showIntList (Rpylib.Alloc.giles th e v c)
    | _, _, _, _ => "bad-op"
  | ["criteria", st, q, m1, m2, m3, rmse] =>
    match parseRat? st, parseRat? q, parseRat? m1, parseRat? m2, parseRat? m3, parseRat? rmse with
    | some st, some q, some m1, some m2, some m3, some e => if Rpylib.Alloc.criteria st q m1 m2 m3 e then "1" else "0"
    | _, _, _, _, _, _ => "bad-op"
  | _ => "bad-op"

def main : IO Unit := runStateless step
