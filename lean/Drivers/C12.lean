import RpylibModel.Basic.Proto
import RpylibModel.Model.Copula
import RpylibModel.Model.CopulaMass
open Rpylib Rpylib.Copula Rpylib.CopulaMass

/-- requests (`<kind>` is `nd | 2d | 3d`; vectors may hold `inf`/`-inf`; values may be `nan`):
  massT <kind> <I> <a> <b> <keysI [i,j;…]> <keysX [x,y;…]> <vals [v,…]>
      -> mass with the tail-integral family given as a table  (I, x) ↦ v   (the implementation's own values)
  massC <kind> <cop> <eta> <d> <I> <a> <b> <ti [i,…]> <tx [x,…]> <tv [u,…]>
      -> mass with `margin_tail_integral` computed by the model from the marginal tail integrals (i, x) ↦ u and the
         copula `<cop>` (`clayton1 | indep | dep`) of dimension `d`
-/
def parseExtList? (s : String) : Option (List (Ext Rat)) :=
  (parseListWith? parseExtRat? s).map (·.map ofExtRat)

def parseEVal? (s : String) : Option EVal :=
  if s = "nan" then some .nan else if s = "inf" then some .posInf else if s = "-inf" then some .negInf
  else (parseRat? s).map .fin

def copula? (name : String) (eta : Rat) : Option (List (Ext Rat) → EVal) :=
  if name = "clayton1" then some (clayton1 eta)
  else if name = "indep" then some indep
  else if name = "dep" then some dep
  else none

def runMass (kind : String) (U : Tail (Ext Rat) EVal) (I : List Nat) (a b : List (Ext Rat)) : String :=
  let z : Ext Rat := .fin 0
  if I.length ≠ a.length || a.length ≠ b.length then "bad-op"
  else if kind = "nd" then (massNd U z .negInf .posInf I a b).toString
  else if kind = "2d" then (if I.length = 1 || I.length = 2 then (mass2d U z I a b).toString else "bad-op")
  else if kind = "3d" then (if 1 ≤ I.length && I.length ≤ 3 then (mass3d U z I a b).toString else "bad-op")
  else "bad-op"

def step (t : List String) : String :=
  match t with
  | ["massT", kind, I, a, b, kI, kX, vs] =>
    match parseNatList? I, parseExtList? a, parseExtList? b, parseListListWith? parseNat? kI,
          parseListListWith? parseExtRat? kX, parseListWith? parseEVal? vs with
    | some I, some a, some b, some kI, some kX, some vs =>
      if kI.length ≠ kX.length || kX.length ≠ vs.length then "bad-op" else
      let tab := (kI.zip (kX.map (·.map ofExtRat))).zip vs
      runMass kind (tailOfTable tab) I a b
    | _, _, _, _, _, _ => "bad-op"
  | ["massC", kind, c, eta, d, I, a, b, ti, tx, tv] =>
    match parseRat? eta, parseNat? d, parseNatList? I, parseExtList? a, parseExtList? b, parseNatList? ti,
          parseExtList? tx, parseExtList? tv with
    | some eta, some d, some I, some a, some b, some ti, some tx, some tv =>
      match copula? c eta with
      | some F =>
        if ti.length ≠ tx.length || tx.length ≠ tv.length then "bad-op" else
        let tab := (ti.zip tx).zip tv
        -- a missing entry makes the result visibly wrong (+inf margins) rather than silently 0
        let u : Nat → Ext Rat → Ext Rat := fun i x => lookup Ext.posInf tab (i, x)
        runMass kind (tailOfCopula F d u) I a b
      | none => "bad-op"
    | _, _, _, _, _, _, _, _ => "bad-op"
  | _ => "bad-op"

def main : IO Unit := runStateless step
