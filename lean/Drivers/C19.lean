import RpylibModel.Basic.Proto
import RpylibModel.Model.Grid
import RpylibModel.Model.Cells
import RpylibModel.Model.Credit
open Rpylib Rpylib.Grid Rpylib.Cells Rpylib.Credit

/-! Line-protocol driver of property C19: executes the definitions of RpylibModel/Model/Credit.lean.

requests (lists as in Proto: `[a,b,c]`, nested `[a,b;c,d]`):
  theta <dim> <levels> <lows> <pairs [i,j,u;…]> <triple>
        -> `CFLevyCopulaModel._theta` on the table family: a rational, or `err:notImplemented|levelCount|nonNegativeLevel`
  theta1 <l> <r> <a> <qa> <qb> <v>                      -> `<lo> <hi> <theta>`: the interval the truncated measure integrates
        over for `integrate(-inf, a)`, and θ with the measure given by the one-entry table [qa,qb] ↦ v (0 elsewhere)
  credit <l> <a> <h> <r> <0|1>                          -> `<axis> <cellLo of point 2> <threshold index list>`: credit axis, the cell
        boundary between its 2nd and 3rd point, the indices of the states below `a`
  region1d <axis> <o> <a> <cell masses, one per state> <hull>
        -> `<defaultRegionRate1d> <theta1 of the truncated measure> <states below a>`
        (mass table: cell k ↦ value k, then [axis[0], a] ↦ hull)
  regionNd <axes> <o> <levels> <cell masses, first coordinate slowest, origin included>
        -> `<defaultRegionRate> <number of default states> <half-space boxes of thetaClipped [lo,hi per axis;…]>`
  clipped <axes> <levels> <values of the 2^d−1 clipped half-space intersections, order of `halfBoxes`>
        -> thetaClipped on that table (or err:…)
  spreads <E> <theta> <r> <R> <s> <pv> <lo> <hi>
        -> `<parSpread> <defaultLeg> <fixedLeg> <presentValue at s> <impliedSpread of pv | none>`
  exparg <theta> <r> <T> <t>                            -> `<x> <y>`: the arguments at which `survival` (t) and `discount` (T) evaluate
        `exp` (the model run with `expf = id`)
  deftime <times> <path> <a>                            -> default time or `inf`
  ftd <times> <paths [p1;p2;…]> <levels>                -> `<default times (inf = none)> <first to default>`
  cds <R> <s> <r> <T> <dfT> <tau|inf> <dfTau> <dfMin>   -> `CDS.evaluate`
  legsF <E> <theta> <r> <R> <s> <dfT> <dfTau>           -> `<defaultLegF> <fixedLegF> <presentValueF> <cdsDefaultedF> <cdsSurvivedF>`:
        the carrier-generic formulas the ℝ theorem `cds_legs_are_expectations` speaks about, run at ℚ
-/

def parseTriplesN (s : String) : Option (List (Nat × Nat × Rat)) := do
  let rows ← parseListListWith? some s
  rows.mapM (fun r => match r with
    | [i, j, v] => do
      let i ← parseNat? i
      let j ← parseNat? j
      let v ← parseRat? v
      some (i, j, v)
    | _ => none)

def showExcept : Except ThetaErr Rat → String
  | .ok v => showRat v
  | .error .notImplemented => "err:notImplemented"
  | .error .levelCount => "err:levelCount"
  | .error .nonNegativeLevel => "err:nonNegativeLevel"

def showOptT : Option Rat → String
  | none => "inf"
  | some t => showRat t

def showBox (b : Box) : String := showRatList (b.flatMap (fun p => [p.1, p.2]))

/-- the boxes `thetaClipped` evaluates `m` at, in the order: singles (0,1,2), pairs (01,02,12), triple -/
def halfBoxes (axes : List (List Rat)) (as : List Rat) : List Box :=
  let box := truncBox axes
  let d := axes.length
  let a := fun i => as.getD i 0
  let singles := (List.range d).map (fun i => setHi box i (a i))
  let pairs := (List.range d).flatMap (fun i =>
    ((List.range d).filter (fun j => i < j)).map (fun j => setHi (setHi box i (a i)) j (a j)))
  let triple := if d = 3 then [setHi (setHi (setHi box 0 (a 0)) 1 (a 1)) 2 (a 2)] else []
  singles ++ pairs ++ triple

def step (t : List String) : String :=
  match t with
  | ["theta", dim, as, lows, pairs, triple] =>
    match parseNat? dim, parseRatList? as, parseRatList? lows, parseTriplesN pairs, parseRat? triple with
    | some dim, some as, some lows, some pairs, some triple =>
      showExcept (thetaCopula (tableFamily lows pairs triple) dim as)
    | _, _, _, _, _ => "bad-op"
  | ["theta1", l, r, a, qa, qb, v] =>
    match parseRat? l, parseRat? r, parseRat? a, parseRat? qa, parseRat? qb, parseRat? v with
    | some l, some r, some a, some qa, some qb, some v =>
      let m := tableMass [(qa, qb, v)]
      showRat l ++ " " ++ showRat (min (max a l) r) ++ " " ++ showRat (theta1 (truncLow l r m) a)
    | _, _, _, _, _, _ => "bad-op"
  | ["credit", l, a, h, r, s] =>
    match parseRat? l, parseRat? a, parseRat? h, parseRat? r with
    | some l, some a, some h, some r =>
      let ax := creditAxis l a h r (s == "1")
      showRatList ax ++ " " ++ showRat (cellLo amid ax 2) ++ " " ++
        showNatList ((List.range ax.length).filter (fun k => decide (pt ax k < a)))
    | _, _, _, _ => "bad-op"
  | ["region1d", ax, o, a, vals, hull] =>
    match parseRatList? ax, parseNat? o, parseRat? a, parseRatList? vals, parseRat? hull with
    | some ax, some o, some a, some vals, some hull =>
      if vals.length != ax.length then "bad-op" else
      let cells := (List.range ax.length).map (fun k => (cellLo amid ax k, cellHi amid ax k, vals.getD k 0))
      let m := tableMass (cells ++ [(pt ax 0, a, hull)])
      showRat (defaultRegionRate1d amid ax o (chainMass ax m) a) ++ " " ++
        showRat (theta1 (chainLow ax m) a) ++ " " ++
        showNatList ((List.range ax.length).filter (fun k => decide (pt ax k < a)))
    | _, _, _, _, _ => "bad-op"
  | ["regionNd", axes, o, as, vals] =>
    match parseListListWith? parseRat? axes, parseNat? o, parseRatList? as, parseRatList? vals with
    | some axes, some o, some as, some vals =>
      let sts := states axes
      if vals.length != sts.length then "bad-op" else
      let m := tableBoxMass ((sts.map (cellBox amid axes)).zip vals)
      showRat (defaultRegionRate amid axes o m as) ++ " " ++
        toString ((sts.filter (isDefault axes as)).length) ++ " " ++
        showList showBox (halfBoxes axes as)
    | _, _, _, _ => "bad-op"
  | ["clipped", axes, as, vals] =>
    match parseListListWith? parseRat? axes, parseRatList? as, parseRatList? vals with
    | some axes, some as, some vals =>
      let hb := halfBoxes axes as
      if vals.length != hb.length then "bad-op" else
      showExcept (thetaClipped (tableBoxMass (hb.zip vals)) axes as)
    | _, _, _ => "bad-op"
  | ["spreads", e, th, r, rr, s, pv, lo, hi] =>
    match parseRat? e, parseRat? th, parseRat? r, parseRat? rr, parseRat? s, parseRat? pv, parseRat? lo, parseRat? hi with
    | some e, some th, some r, some rr, some s, some pv, some lo, some hi =>
      if r + th = 0 then "bad-op" else
      showRat (parSpread th rr) ++ " " ++ showRat (defaultLeg e th r rr) ++ " " ++ showRat (fixedLeg e th r) ++ " " ++
        showRat (presentValue e th r rr s) ++ " " ++ showOpt showRat (impliedSpread e th r rr pv lo hi)
    | _, _, _, _, _, _, _, _ => "bad-op"
  | ["exparg", th, r, tt, t'] =>
    match parseRat? th, parseRat? r, parseRat? tt, parseRat? t' with
    | some th, some r, some tt, some t' =>
      showRat (survival (fun x => x) th t') ++ " " ++ showRat (discount (fun x => x) th r tt)
    | _, _, _, _ => "bad-op"
  | ["deftime", times, path, a] =>
    match parseRatList? times, parseRatList? path, parseRat? a with
    | some times, some path, some a => showOptT (defaultTime times path a)
    | _, _, _ => "bad-op"
  | ["ftd", times, paths, as] =>
    match parseRatList? times, parseListListWith? parseRat? paths, parseRatList? as with
    | some times, some paths, some as =>
      showList showOptT (defaultTimes times paths as) ++ " " ++ showOptT (firstToDefault times paths as)
    | _, _, _ => "bad-op"
  | ["cds", rr, s, r, tt, dfT, tau, dfTau, dfMin] =>
    match parseRat? rr, parseRat? s, parseRat? r, parseRat? tt, parseRat? dfT, parseExtRat? tau, parseRat? dfTau,
        parseRat? dfMin with
    | some rr, some s, some r, some tt, some dfT, some tau, some dfTau, some dfMin =>
      let tau' : Option Rat := match tau with
        | .fin x => some x
        | _ => none
      if r = 0 || dfT = 0 then "bad-op" else showRat (cdsPayoff rr s r tt dfT tau' dfTau dfMin)
    | _, _, _, _, _, _, _, _ => "bad-op"
  | ["legsF", e, th, r, rr, s, dfT, dfTau] =>
    match parseRat? e, parseRat? th, parseRat? r, parseRat? rr, parseRat? s, parseRat? dfT, parseRat? dfTau with
    | some e, some th, some r, some rr, some s, some dfT, some dfTau =>
      if r = 0 || dfT = 0 || r + th = 0 then "bad-op"
      else String.intercalate " " [showRat (defaultLegF e th r rr), showRat (fixedLegF e th r), showRat (presentValueF e th r rr s),
        showRat (cdsDefaultedF rr s r dfT dfTau), showRat (cdsSurvivedF s r dfT)]
    | _, _, _, _, _, _, _ => "bad-op"
  | _ => "bad-op"

def main : IO Unit := runStateless step
