import RpylibModel.Basic.Proto
import RpylibModel.Model.Triplet
open Rpylib Rpylib.Triplet

/-- requests (stateless); representations are the enum values of LevyRepresentation: 1 ZERO, 2 CENTER, 3 ONEONE, 4 TILDE
  walk <mid> <tails> <fv 0|1> <a> <rep> <[r1,…,rn]>   -> `<[a after step 1,…,a after step n]> <final rep>`
  omega <a> <sigma> <kappa1>                          -> omega
  expdrift <r> <d> <omega>                            -> r - d + omega
  direct bs <r> <d> <sigma> | direct merton <r> <d> <sigma> <lam> <e> | direct hem <r> <d> <sigma> <lam> <p> <eta1> <eta2>
       | direct hemprefix <r> <d> <lam> <p> <eta1> <eta2>   -> process_drift of the direct simulation
  hemkappa <lam> <p> <eta1> <eta2> <x>                -> levy_exponent_pure_jump(x) of HEM
  tripleta hem <lam> <p> <eta1> <eta2> | tripleta merton <lam> <mu_j>   -> triplet drift as constructed
  ctmc <modelDrift> <aTilde> <muTilde> <muH>          -> chain drift -/
def repOf : Nat → Option Rep
  | 1 => some .zero | 2 => some .center | 3 => some .oneone | 4 => some .tilde | _ => none

def repNum : Rep → Nat
  | .zero => 1 | .center => 2 | .oneone => 3 | .tilde => 4

def rats (l : List String) : Option (List Rat) := l.mapM parseRat?

def step (t : List String) : String :=
  match t with
  | ["walk", mid, tails, fv, a, rep, rs] =>
    match parseRat? mid, parseRat? tails, parseRat? a, (parseNat? rep).bind repOf, parseNatList? rs with
    | some mid, some tails, some a, some rep, some rs =>
      match rs.mapM repOf with
      | some rs =>
        let m : Meas := ⟨mid, tails, fv == "1"⟩
        let (tf, out) := rs.foldl (fun (acc : Trip × List Rat) r => let t' := setRep m acc.1 r; (t', acc.2 ++ [t'.a]))
          (⟨a, rep⟩, [])
        showRatList out ++ " " ++ toString (repNum tf.rep)
      | none => "bad-op"
    | _, _, _, _, _ => "bad-op"
  | ["omega", a, s, k] =>
    match rats [a, s, k] with
    | some [a, s, k] => showRat (omega a s k)
    | _ => "bad-op"
  | ["expdrift", r, d, om] =>
    match rats [r, d, om] with
    | some [r, d, om] => showRat (expDrift r d om)
    | _ => "bad-op"
  | "direct" :: "bs" :: rest =>
    match rats rest with
    | some [r, d, s] => showRat (processDriftDirectBS r d s)
    | _ => "bad-op"
  | "direct" :: "merton" :: rest =>
    match rats rest with
    | some [r, d, s, lam, e] => showRat (processDriftDirectMerton r d s lam e)
    | _ => "bad-op"
  | "direct" :: "hem" :: rest =>
    match rats rest with
    | some [r, d, s, lam, p, e1, e2] => if e1 - 1 = 0 ∨ e2 + 1 = 0 then "div0" else showRat (processDriftDirectHEM r d s lam p e1 e2)
    | _ => "bad-op"
  | "direct" :: "hemprefix" :: rest =>
    match rats rest with
    | some [r, d, lam, p, e1, e2] => if e1 - 1 = 0 ∨ e2 + 1 = 0 then "div0" else showRat (processDriftDirectHEMPrefix r d lam p e1 e2)
    | _ => "bad-op"
  | "hemkappa" :: rest =>
    match rats rest with
    | some [lam, p, e1, e2, x] => if e1 - x = 0 ∨ e2 + x = 0 then "div0" else showRat (hemKappa lam p e1 e2 x)
    | _ => "bad-op"
  | "tripleta" :: "hem" :: rest =>
    match rats rest with
    | some [lam, p, e1, e2] => if e1 = 0 ∨ e2 = 0 then "div0" else showRat (hemTripletA lam p e1 e2)
    | _ => "bad-op"
  | "tripleta" :: "merton" :: rest =>
    match rats rest with
    | some [lam, mu] => showRat (mertonTripletA lam mu)
    | _ => "bad-op"
  | "ctmc" :: rest =>
    match rats rest with
    | some [md, at', mt, mh] => showRat (ctmcDrift md at' mt mh)
    | _ => "bad-op"
  | _ => "bad-op"

def main : IO Unit := runStateless step
