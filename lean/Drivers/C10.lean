import RpylibModel.Basic.Proto
import RpylibModel.Model.Triplet
open Rpylib Rpylib.Triplet

/-- requests (stateless); representations are the enum values of LevyRepresentation: 1 ZERO, 2 CENTER, 3 ONEONE, 4 TILDE
  walk <mid> <tails> <fv 0|1> <a> <rep> <[r1,…,rn]>   -> `<[a after step 1,…,a after step n]> <final rep>`
  omega <a> <sigma> <kappa1>                          -> omega
  expdrift <r> <d> <omega>                            -> r - d + omega
  direct bs <r> <d> <sigma> | direct merton <r> <d> <sigma> <lam> <e> | direct hem <r> <d> <sigma> <lam> <p> <eta1> <eta2>
       | direct hemprefix <r> <d> <lam> <p> <eta1> <eta2>   -> process_drift of the direct simulation
  hemkappa <lam> <p> <eta1> <eta2> <x>                -> levy_exponent_pure_jump(x) of HEM
  tripleta hem <lam> <p> <eta1> <eta2> | tripleta merton <lam> <mu_j>   -> triplet drift as constructed
  ctmc <modelDrift> <aTilde> <muTilde> <muH>          -> chain drift
  hemcgf <a> <sigma> <lam> <p> <eta1> <eta2> <s>      -> levy_exponent(-i s) of HEM (a s + (s sigma)^2/2 + kappa(s))
  cgf <a> <sigma> <s> <kappa>                         -> levy_exponent(-i s) from the pure-jump value kappa
  mertonarg <mu_j> <sigma_j> <x>                      -> the argument of exp in Merton's levy_exponent_pure_jump(x)
  hemkappac <lam> <p> <eta1> <eta2> <x> <y>           -> `<re> <im>` of levy_exponent_pure_jump(x + i y) of HEM
  mertonargc <mu_j> <sigma_j> <x> <y>                 -> `<re> <im>` of the argument of exp at x + i y
  levyexp hem <a> <sigma> <lam> <p> <eta1> <eta2> <u> <v>  -> `<re> <im>` of levy_exponent(u + i v) of HEM
  levyexpof <a> <sigma> <u> <v> <kre> <kim>           -> `<re> <im>` of levy_exponent(u + i v) from kappa(i w) = kre + i kim
  cum hem <k> <drift> <sigma> <lam> <p> <eta1> <eta2> <t> | cum merton <k> <drift> <sigma> <lam> <mu_j> <sigma_j> <t>
       | cum bs <k> <drift> <sigma> <t>               -> cumulant<k>(t), k in 1, 2, 4, 6 (bs: 1..6) -/
def repOf : Nat → Option Rep
  | 1 => some .zero | 2 => some .center | 3 => some .oneone | 4 => some .tilde | _ => none

def repNum : Rep → Nat
  | .zero => 1 | .center => 2 | .oneone => 3 | .tilde => 4

def rats (l : List String) : Option (List Rat) := l.mapM parseRat?

def step (t : List String) : String :=
  match t with
  | ["walk", mid, tails, fv, a, rep, rs] =>
    match parseRat? mid, parseRat? tails, parseRat? a, (parseNat? rep).bind repOf, parseNatList? rs with
    | some mid, some tails, some a, some rep, some rs =>
      match rs.mapM repOf with
      | some rs =>
        let m : Meas := ⟨mid, tails, fv == "1"⟩
        let (tf, out) := rs.foldl (fun (acc : Trip × List Rat) r => let t' := setRep m acc.1 r; (t', acc.2 ++ [t'.a]))
          (⟨a, rep⟩, [])
        showRatList out ++ " " ++ toString (repNum tf.rep)
      | none => "bad-op"
    | _, _, _, _, _ => "bad-op"
  | ["omega", a, s, k] =>
    match rats [a, s, k] with
    | some [a, s, k] => showRat (omega a s k)
    | _ => "bad-op"
  | ["expdrift", r, d, om] =>
    match rats [r, d, om] with
    | some [r, d, om] => showRat (expDrift r d om)
    | _ => "bad-op"
  | "direct" :: "bs" :: rest =>
    match rats rest with
    | some [r, d, s] => showRat (processDriftDirectBS r d s)
    | _ => "bad-op"
  | "direct" :: "merton" :: rest =>
    match rats rest with
    | some [r, d, s, lam, e] => showRat (processDriftDirectMerton r d s lam e)
    | _ => "bad-op"
  | "direct" :: "hem" :: rest =>
    match rats rest with
    | some [r, d, s, lam, p, e1, e2] => if e1 - 1 = 0 ∨ e2 + 1 = 0 then "div0" else showRat (processDriftDirectHEM r d s lam p e1 e2)
    | _ => "bad-op"
  | "direct" :: "hemprefix" :: rest =>
    match rats rest with
    | some [r, d, lam, p, e1, e2] => if e1 - 1 = 0 ∨ e2 + 1 = 0 then "div0" else showRat (processDriftDirectHEMPrefix r d lam p e1 e2)
    | _ => "bad-op"
  | "hemkappa" :: rest =>
    match rats rest with
    | some [lam, p, e1, e2, x] => if e1 - x = 0 ∨ e2 + x = 0 then "div0" else showRat (hemKappa lam p e1 e2 x)
    | _ => "bad-op"
  | "tripleta" :: "hem" :: rest =>
    match rats rest with
    | some [lam, p, e1, e2] => if e1 = 0 ∨ e2 = 0 then "div0" else showRat (hemTripletA lam p e1 e2)
    | _ => "bad-op"
  | "tripleta" :: "merton" :: rest =>
    match rats rest with
    | some [lam, mu] => showRat (mertonTripletA lam mu)
    | _ => "bad-op"
  | "ctmc" :: rest =>
    match rats rest with
    | some [md, at', mt, mh] => showRat (ctmcDrift md at' mt mh)
    | _ => "bad-op"
  | "hemcgf" :: rest =>
    match rats rest with
    | some [a, sg, lam, p, e1, e2, x] => if e1 - x = 0 ∨ e2 + x = 0 then "div0" else showRat (hemCgf a sg lam p e1 e2 x)
    | _ => "bad-op"
  | "cgf" :: rest =>
    match rats rest with
    | some [a, sg, x, k] => showRat (cgfOf a sg x k)
    | _ => "bad-op"
  | "mertonarg" :: rest =>
    match rats rest with
    | some [mu, sj, x] => showRat (mertonKappaArg mu sj x)
    | _ => "bad-op"
  | "hemkappac" :: rest =>
    match rats rest with
    | some [lam, p, e1, e2, x, y] =>
      if (e1 - x) * (e1 - x) + y * y = 0 ∨ (e2 + x) * (e2 + x) + y * y = 0 then "div0"
      else showRat (hemKappaRe lam p e1 e2 x y) ++ " " ++ showRat (hemKappaIm lam p e1 e2 x y)
    | _ => "bad-op"
  | "mertonargc" :: rest =>
    match rats rest with
    | some [mu, sj, x, y] => showRat (mertonArgRe mu sj x y) ++ " " ++ showRat (mertonArgIm mu sj x y)
    | _ => "bad-op"
  | "levyexp" :: "hem" :: rest =>
    match rats rest with
    | some [a, sg, lam, p, e1, e2, u, v] =>
      if (e1 + v) * (e1 + v) + u * u = 0 ∨ (e2 - v) * (e2 - v) + u * u = 0 then "div0"
      else showRat (levyExpRe a sg u v (hemKappaRe lam p e1 e2 (-v) u)) ++ " "
        ++ showRat (levyExpIm a sg u v (hemKappaIm lam p e1 e2 (-v) u))
    | _ => "bad-op"
  | "levyexpof" :: rest =>
    match rats rest with
    | some [a, sg, u, v, kre, kim] => showRat (levyExpRe a sg u v kre) ++ " " ++ showRat (levyExpIm a sg u v kim)
    | _ => "bad-op"
  | "cum" :: "hem" :: k :: rest =>
    match parseNat? k, rats rest with
    | some k, some [dr, sg, lam, p, e1, e2, t] =>
      if e1 = 0 ∨ e2 = 0 then "div0" else
      match k with
      | 1 => showRat (hemCumulant1 dr lam p e1 e2 t)
      | 2 => showRat (hemCumulant2 sg lam p e1 e2 t)
      | 4 => showRat (hemCumulant4 lam p e1 e2 t)
      | 6 => showRat (hemCumulant6 lam p e1 e2 t)
      | _ => "bad-op"
    | _, _ => "bad-op"
  | "cum" :: "merton" :: k :: rest =>
    match parseNat? k, rats rest with
    | some k, some [dr, sg, lam, mu, sj, t] =>
      match k with
      | 1 => showRat (mertonCumulant1 dr lam mu t)
      | 2 => showRat (mertonCumulant2 sg lam mu sj t)
      | 4 => showRat (mertonCumulant4 lam mu sj t)
      | 6 => showRat (mertonCumulant6 lam mu sj t)
      | _ => "bad-op"
    | _, _ => "bad-op"
  | "cum" :: "bs" :: k :: rest =>
    match parseNat? k, rats rest with
    | some k, some [dr, sg, t] =>
      match k with
      | 1 => showRat (bsCumulant1 dr t)
      | 2 => showRat (bsCumulant2 sg t)
      | 3 => "0" | 4 => "0" | 5 => "0" | 6 => "0"
      | _ => "bad-op"
    | _, _ => "bad-op"
  | _ => "bad-op"

def main : IO Unit := runStateless step
