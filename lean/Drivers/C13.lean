import RpylibModel.Basic.Proto
import RpylibModel.Model.Grid
import RpylibModel.Model.GridCtor
open Rpylib Rpylib.Grid

/-- requests:
  refine <axis> <k>                      -> axis after k refinements with the arithmetic cell boundary
  grid <axes [a;b]> <h> <origin> <k>     -> `<axes> <h> <origin> <truncations lo> <truncations hi>` after k refinements
  fixed <h> <nb> <dim>                   -> `<axis> <origin>`
  credit <l> <a> <h> <r> <0|1>           -> `<axis>`
  linspace <a> <b> <n>                   -> `<list>`   (np.linspace(a, b, n))
  uniform <l> <r> <h> <dim>              -> `<axes> <origin> <int(|l|/h)> <int(r/h)>` or `raises <int(|l|/h)> <int(r/h)>`
                                            (CTMCUniformGrid.__init__ after compute_truncation returned (l, r))
-/
def step (t : List String) : String :=
  match t with
  | ["refine", ax, k] =>
    match parseRatList? ax, parseNat? k with
    | some xs, some k => showRatList (refineN amid k xs)
    | _, _ => "bad-op"
  | ["grid", axes, h, o, k] =>
    match parseListListWith? parseRat? axes, parseRat? h, parseNat? o, parseNat? k with
    | some axes, some h, some o, some k =>
      let g := Grid.refineN amid k ⟨axes, h, o⟩
      let tr := g.axes.map truncation
      showListList showRat g.axes ++ " " ++ showRat g.h ++ " " ++ toString g.origin ++ " " ++
        showList (showOpt (fun p => showRat p.1)) tr ++ " " ++ showList (showOpt (fun p => showRat p.2)) tr
    | _, _, _, _ => "bad-op"
  | ["fixed", h, nb, dim] =>
    match parseRat? h, parseNat? nb, parseNat? dim with
    | some h, some nb, some dim =>
      let g := uniformFixed h nb dim
      showListList showRat g.axes ++ " " ++ toString g.origin
    | _, _, _ => "bad-op"
  | ["credit", l, a, h, r, s] =>
    match parseRat? l, parseRat? a, parseRat? h, parseRat? r with
    | some l, some a, some h, some r => showRatList (creditAxis l a h r (s == "1"))
    | _, _, _, _ => "bad-op"
  | ["linspace", a, b, n] =>
    match parseRat? a, parseRat? b, parseNat? n with
    | some a, some b, some n => showRatList (linspace a b n)
    | _, _, _ => "bad-op"
  | ["uniform", l, r, h, dim] =>
    match parseRat? l, parseRat? r, parseRat? h, parseNat? dim with
    | some l, some r, some h, some dim =>
      let counts := toString (uniformCountL l h) ++ " " ++ toString (uniformCountR r h)
      match uniformCtor l r h dim with
      | some g => showListList showRat g.axes ++ " " ++ toString g.origin ++ " " ++ counts
      | none => "raises " ++ counts
    | _, _, _, _ => "bad-op"
  | _ => "bad-op"

def main : IO Unit := runStateless step
