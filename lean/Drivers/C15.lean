import RpylibModel.Basic.Proto
import RpylibModel.Model.Path
open Rpylib Rpylib.Path

/-- requests (lists `[a,b]`, lists of lists `[a,b;c]`; a list of lists is padded with empty rows up to the number of
    product intervals = number of dates - 1):
  finer <eps> <T> <jump_times> <values>                 -> `<times> <values>`            build_finer_grid of levyprocess.py
  finer2 <eps> <T> <jump_times> <fine> <coarse>         -> `<times> <fine> <coarse>`     build_finer_grid of coupling/helper.py
  remaining <eps> <jump_times>                          -> number of insertions the loop performs (its measure)
  fixed <code|ctmc|spec> <dates> <incs> <w>             -> `<times> <diffusion> <jumps>`
  jt <direct|ctmc> <dates> <offsets> <sizes> <w>        -> `<times> <diffusion> <jumps>`  (offsets: sorted uniforms per interval)
  maxstep <code|spec> <eps> <T> <jump_times> <values> <w>  -> `<times> <diffusion> <jumps>`
  maxpair <eps> <T> <jump_times> <fine> <coarse>        -> `<times> <fine> <coarse>`
 coupled copula simulator, d coordinates (a row of <incsF>/<incsC> = one product interval, its d-vectors flattened;
 a row of <wF>/<wC> = the d scaled Brownian increments of one step; answers: one row per time, d entries):
  cfixed <d> <dates> <incsF> <incsC> <wF> <wC>            -> `<times> <diffF> <diffC> <fine> <coarse>`
  cjt <d> <dates> <offsets> <incsF> <incsC> <wF> <wC>     -> the same
  cmax <d> <eps> <dates> <offsets> <incsF> <incsC> <wF> <wC>  -> the same
  iff fixed <incs>                 -> `1` iff every interval but the last has zero jump sum (fixedDates_code_eq_spec_iff)
  iff restart <sizes>              -> `1` iff RestartFree 0 sizes (jumpValsCtmc_eq_direct_iff)
-/
def showPath (p : PathOut) : String :=
  showRatList p.times ++ " " ++ showRatList p.diff ++ " " ++ showRatList p.jumps

def mkIntervals : List Rat → List (List Rat) → List (List Rat) → List Interval
  | a :: b :: r, us, ss => ⟨a, b, List.zip (us.headD []) (ss.headD [])⟩ :: mkIntervals (b :: r) us.tail ss.tail
  | _, _, _ => []

def padRows (n : Nat) (rows : List (List Rat)) : List (List Rat) := (List.range n).map (fun i => rows.getD i [])

/-- a flattened row of `n·d` numbers as `n` d-vectors -/
def chunkV (d : Nat) : Nat → List Rat → List V
  | 0, _ => []
  | fuel + 1, l => if l.isEmpty || d = 0 then [] else (fun c => (l.take d).getD c 0) :: chunkV d fuel (l.drop d)

def rowsV (d : Nat) (rows : List (List Rat)) : List (List V) := rows.map (fun r => chunkV d r.length r)
def colsV (rows : List (List Rat)) : List V := rows.map (fun r => fun c => r.getD c 0)
def showV (d : Nat) (l : List V) : String := showListList showRat (l.map (fun v => (List.range d).map v))

def showPairV (d : Nat) (p : PairOutV) : String :=
  showRatList p.times ++ " " ++ showV d p.diffF ++ " " ++ showV d p.diffC ++ " " ++ showV d p.fine ++ " " ++
    showV d p.coarse

def step (tk : List String) : String :=
  match tk with
  | ["cfixed", d, dates, iF, iC, wF, wC] =>
    match parseNat? d, parseRatList? dates, parseListListWith? parseRat? iF, parseListListWith? parseRat? iC,
          parseListListWith? parseRat? wF, parseListListWith? parseRat? wC with
    | some d, some dates, some iF, some iC, some wF, some wC =>
      let n := dates.length - 1
      showPairV d (fixedDatesCopulaPair dates (rowsV d (padRows n iF)) (rowsV d (padRows n iC)) (colsV wF) (colsV wC))
    | _, _, _, _, _, _ => "bad-op"
  | ["cjt", d, dates, us, iF, iC, wF, wC] =>
    match parseNat? d, parseRatList? dates, parseListListWith? parseRat? us, parseListListWith? parseRat? iF,
          parseListListWith? parseRat? iC, parseListListWith? parseRat? wF, parseListListWith? parseRat? wC with
    | some d, some dates, some us, some iF, some iC, some wF, some wC =>
      let n := dates.length - 1
      let Is := mkIntervals dates (padRows n us) (padRows n us)
      showPairV d (jumpTimesCopulaPair (lastD 0 dates) Is (rowsV d (padRows n iF)) (rowsV d (padRows n iC))
        (colsV wF) (colsV wC))
    | _, _, _, _, _, _, _ => "bad-op"
  | ["cmax", d, e, dates, us, iF, iC, wF, wC] =>
    match parseNat? d, parseRat? e, parseRatList? dates, parseListListWith? parseRat? us,
          parseListListWith? parseRat? iF, parseListListWith? parseRat? iC, parseListListWith? parseRat? wF,
          parseListListWith? parseRat? wC with
    | some d, some e, some dates, some us, some iF, some iC, some wF, some wC =>
      let n := dates.length - 1
      let Is := mkIntervals dates (padRows n us) (padRows n us)
      showPairV d (maxStepCopulaPair e (lastD 0 dates) (jumpTimes Is) (jumpValsCopula (rowsV d (padRows n iF)))
        (jumpValsCopula (rowsV d (padRows n iC))) (colsV wF) (colsV wC))
    | _, _, _, _, _, _, _, _ => "bad-op"
  | ["iff", "fixed", incs] =>
    match parseListListWith? parseRat? incs with
    | some incs => if allZeroButLast incs then "1" else "0"
    | none => "bad-op"
  | ["iff", "restart", ss] =>
    match parseListListWith? parseRat? ss with
    | some ss => if restartFreeB 0 ss then "1" else "0"
    | none => "bad-op"
  | ["finer", e, T, jt, jv] =>
    match parseRat? e, parseRat? T, parseRatList? jt, parseRatList? jv with
    | some e, some T, some jt, some jv =>
      let r := buildFiner e T (0 : Rat) jt jv
      showRatList r.1 ++ " " ++ showRatList r.2
    | _, _, _, _ => "bad-op"
  | ["finer2", e, T, jt, jf, jc] =>
    match parseRat? e, parseRat? T, parseRatList? jt, parseRatList? jf, parseRatList? jc with
    | some e, some T, some jt, some jf, some jc =>
      let r := buildFiner e T ((0 : Rat), (0 : Rat)) jt (List.zip jf jc)
      showRatList r.1 ++ " " ++ showRatList (r.2.map (fun p => p.1)) ++ " " ++ showRatList (r.2.map (fun p => p.2))
    | _, _, _, _, _ => "bad-op"
  | ["remaining", e, jt] =>
    match parseRat? e, parseRatList? jt with
    | some e, some jt => toString (remaining e (toGaps jt jt))
    | _, _ => "bad-op"
  | ["fixed", mode, dates, incs, w] =>
    match parseRatList? dates, parseListListWith? parseRat? incs, parseRatList? w with
    | some dates, some incs, some w =>
      let incs := padRows (dates.length - 1) incs
      if mode == "code" then showPath (fixedDatesCode dates incs w)
      else if mode == "ctmc" then showPath (fixedDatesCtmc dates incs w)
      else if mode == "spec" then showPath (fixedDatesSpec dates incs w)
      else "bad-op"
    | _, _, _ => "bad-op"
  | ["jt", mode, dates, us, ss, w] =>
    match parseRatList? dates, parseListListWith? parseRat? us, parseListListWith? parseRat? ss, parseRatList? w with
    | some dates, some us, some ss, some w =>
      let n := dates.length - 1
      let Is := mkIntervals dates (padRows n us) (padRows n ss)
      let T := lastD 0 dates
      if mode == "direct" then showPath (jumpTimesDirect T Is w)
      else if mode == "ctmc" then showPath (jumpTimesCtmc T Is w)
      else "bad-op"
    | _, _, _, _ => "bad-op"
  | ["maxstep", mode, e, T, jt, jv, w] =>
    match parseRat? e, parseRat? T, parseRatList? jt, parseRatList? jv, parseRatList? w with
    | some e, some T, some jt, some jv, some w =>
      if mode == "code" then showPath (maxStepCode e T jt jv w)
      else if mode == "spec" then showPath (maxStepSpec e T jt jv w)
      else "bad-op"
    | _, _, _, _, _ => "bad-op"
  | ["maxpair", e, T, jt, jf, jc] =>
    match parseRat? e, parseRat? T, parseRatList? jt, parseRatList? jf, parseRatList? jc with
    | some e, some T, some jt, some jf, some jc =>
      let r := maxStepPair e T jt jf jc
      showRatList r.times ++ " " ++ showRatList r.fine ++ " " ++ showRatList r.coarse
    | _, _, _, _, _ => "bad-op"
  | _ => "bad-op"

def main : IO Unit := runStateless step
