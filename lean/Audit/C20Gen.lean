import RpylibModel.ProofsGen.C20Table
open Rpylib.Params
#print axioms default_table_rows_ok
#print axioms default_table_covers
#print axioms default_interval_admissible
#print axioms derived_attrs_match
#print axioms derived_attrs_cover
#print axioms ctor_args_match
#print axioms acceptance_match
