import RpylibModel.ProofsGen.C20Table
open Rpylib.Params
#print axioms default_table_rows_ok
#print axioms default_table_covers
#print axioms default_interval_admissible
#print axioms derived_attrs_match
#print axioms derived_attrs_cover
#print axioms ctor_args_match
#print axioms acceptance_match
#print axioms objective_is_repricing_function
#print axioms objective_rows_cover
#print axioms objective_row_sound
#print axioms measured_calibration_reprices
