import RpylibModel.Proofs.C08
open Rpylib.Rng
#print axioms pre_mono
#print axioms passToks_range
#print axioms passToks_nodup
#print axioms tokens_disjoint_single_process
#print axioms engine_tokens_disjoint
#print axioms seeded_run_independent_of_ambient_state
#print axioms seeded_run_uses_only_the_seed
#print axioms old_standard_depends_on_ambient
#print axioms old_reseed_duplicates
#print axioms tokens_shared_multiprocess_counterexample
#print axioms tokens_disjoint_multiprocess_partial
