import RpylibModel.ProofsGen.SrcC07
open Rpylib.SrcTie.C07
#print axioms src_mean_length
#print axioms src_mean_component
#print axioms src_stddev_length
#print axioms src_stddev_component
#print axioms src_stddev_sq
#print axioms src_mc_stddev_length
#print axioms src_mc_stddev_component
#print axioms src_mc_stddev_sq
#print axioms src_add_row
#print axioms src_add_each_path_once
#print axioms src_discount
#print axioms src_product_call
#print axioms src_price_textbook
#print axioms src_statistics_selection
#print axioms src_helper_form
#print axioms src_helper_length
#print axioms src_cv_mean
#print axioms src_cv_mean_identity
#print axioms src_cv_var_le_raw
#print axioms src_cv_stderr_le_raw
#print axioms src_cv_one_control
#print axioms src_cv_regression_coefficient
#print axioms src_compute_coefficients_scalar_prices
#print axioms src_compute_coefficients_vector_prices
