import RpylibModel.Proofs.C06
open Rpylib.Alloc Rpylib.Mlmc
#print axioms alloc_budget_roots
#print axioms alloc_budget_partial
#print axioms allocFromRoots_ge
#print axioms zero_cost_counterexample
#print axioms criteria_monotone
#print axioms iter_bounded
#print axioms run_never_above_max
#print axioms iter_ret_only_if
#print axioms fallthrough_counterexample
#print axioms potential_le
#print axioms iter_progress
#print axioms run_terminates
