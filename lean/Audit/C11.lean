import RpylibModel.Proofs.C11
open Rpylib.Copula
#print axioms claytonOf_is_grounded
#print axioms clayton1_grounded
#print axioms dep_grounded
#print axioms indep_grounded_d2
#print axioms indep_grounded_d3
#print axioms claytonOf_margins_identity_d2
#print axioms claytonOf_margins_identity_d3
#print axioms clayton1_margins_identity
#print axioms clayton1_margin_at_inf
#print axioms clayton1_eta0_allinf_nan
#print axioms clayton1_eta1_allinf_nan
#print axioms indep_margins_identity
#print axioms indep_margin_at_inf_is_zero
#print axioms indep_allinf_corner_negative_volume
#print axioms dep_margins_identity
#print axioms claytonOf_two_increasing
#print axioms clayton_theta1_generator
#print axioms clayton1_two_increasing
#print axioms indep_two_increasing
#print axioms dep_two_increasing
#print axioms cond_dist_inverse
#print axioms psi_slope_of_convexOn
