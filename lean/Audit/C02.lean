import RpylibModel.Proofs.C02
#print axioms Rpylib.Inversion.history_independent
#print axioms Rpylib.Inversion.init_exists
#print axioms Rpylib.Inversion.draw_spec
#print axioms Rpylib.Inversion.cell_length
#print axioms Rpylib.Inversion.exhausted_iff
#print axioms Rpylib.Inversion.zero_never
