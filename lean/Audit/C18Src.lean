import RpylibModel.ProofsGen.SrcC18
open Rpylib.SrcTie.C18
#print axioms src_bs_parity
#print axioms src_bs_forward_is_parity_rhs
#print axioms src_bs_call_minus_put_eq_forward
#print axioms src_bs_butterfly_eq_calls
#print axioms src_bs_degenerate_call
