import RpylibModel.ProofsGen.SrcC06Model
open Rpylib.SrcTie.C06
#print axioms src_criteria_eq_model
#print axioms src_criteria_iff
#print axioms src_alloc_eq_model
