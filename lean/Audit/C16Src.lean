import RpylibModel.ProofsGen.SrcC16
open Rpylib.SrcTie.C16
#print axioms src_libor_df_eq_model
#print axioms src_libor_df_zero
#print axioms src_libor_df_pos
#print axioms src_libor_df_antitone
#print axioms src_libor_df_lipschitz
#print axioms src_libor_df_at_tenor
#print axioms src_libor_df_after_tenor
#print axioms src_forward_df_eq_model
#print axioms src_forward_df_zero
#print axioms src_forward_df_pos
#print axioms src_forward_df_antitone
#print axioms src_forward_df_lipschitz
#print axioms src_forward_df_at_tenor
#print axioms src_forward_df_after_tenor
#print axioms src_base_df_one
#print axioms src_base_drift_zero
#print axioms src_base_drift_eq_model
#print axioms src_constant_call_const
#print axioms src_constant_call_eq_model
#print axioms src_constant_euler
