import RpylibModel.ProofsGen.SrcC02
open Rpylib.SrcTie.C02
#print axioms src_alias_draw_spec
#print axioms src_alias_draw_in_range
#print axioms src_alias_draw_eq_model
#print axioms src_create_alias_law
#print axioms src_alias_realises
#print axioms src_bst_sample_spec
#print axioms src_bst_sample_eq_model
#print axioms src_bst_build_agrees
#print axioms src_bst_realises
#print axioms src_adapted1d_right
#print axioms src_adapted1d_left
#print axioms src_adapted1d_never_origin
#print axioms src_vec_jump_length
#print axioms src_vec_jump_origin
#print axioms src_vec_jump_other
#print axioms src_vec_jump_sum
#print axioms src_vec_jump_is_probability
#print axioms src_table_sample_spec
#print axioms src_create_table_slots_eq
#print axioms src_create_table_law
