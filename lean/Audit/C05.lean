import RpylibModel.Proofs.C05
open Rpylib.Mlmc
#print axioms passLvl_clean
#print axioms extend_inv
#print axioms newLevel_inv
#print axioms init_inv
#print axioms afterPasses_clean
#print axioms loopHead_inv
#print axioms iter_inv
#print axioms run_rows_are_samples
#print axioms price_rows_are_samples
#print axioms fixedRun_clean
#print axioms clean_counts
#print axioms clean_row
#print axioms clean_no_pad
#print axioms clean_mean
#print axioms level0_coarse_zero
#print axioms price_is_sum_of_level_means
#print axioms old_counter_counts_a_placeholder
