import RpylibModel.ProofsGen.SrcC10
open Rpylib.SrcTie.C10
#print axioms src_conv_formula
#print axioms src_conv_reversible
#print axioms src_conv_path_independent
#print axioms src_conv_same
