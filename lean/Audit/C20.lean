import RpylibModel.Proofs.C20
open Rpylib.Params
#print axioms assign_spec
#print axioms rejected_assignment_unchanged
#print axioms step_inv
#print axioms constraints_enforced
#print axioms construct_inv
#print axioms construct_hasPrims
#print axioms init_sync
#print axioms derived_in_sync
#print axioms rebuilt_eq_direct
#print axioms bs_prefix_stale
#print axioms calibrate_contract
#print axioms runDefault_spec
#print axioms calibrate_raises
#print axioms calibrate_input_untouched
#print axioms calibrate_alias_mutates
#print axioms containsInterval_sound
#print axioms rowOk_sound
#print axioms calibrate_reprices_target
#print axioms leftEndFinder_contract
#print axioms calibrate_cfg_mismatch_witness
