import RpylibModel.ProofsGen.SrcC13Model
open Rpylib.SrcTie.C13
#print axioms src_middle_float_eq_amid
#print axioms src_middle_tuple_eq_amid
#print axioms src_left_point_eq_model
#print axioms src_right_point_eq_model
#print axioms src_refine_eq_model
#print axioms src_fixed_eq_model_record
