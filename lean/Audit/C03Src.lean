import RpylibModel.ProofsGen.SrcC03
open Rpylib.SrcTie.C03
#print axioms src_pRight_eq_model
#print axioms src_pRight_splits_cell
#print axioms src_pRight_is_probability
