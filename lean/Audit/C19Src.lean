import RpylibModel.ProofsGen.SrcC19
open Rpylib.SrcTie.C19
#print axioms src_survival_is_exp_of_intensity
#print axioms src_spread_is_lgd_times_intensity
#print axioms src_spread_monotone
#print axioms src_intensity_from_spread
#print axioms src_survival_semigroup
#print axioms src_survival_at_zero
#print axioms src_survival_antitone
