import RpylibModel.ProofsGen.SrcC06
open Rpylib.SrcTie.C06
#print axioms src_theta_share
#print axioms budget_of_roots
#print axioms src_alloc_length
#print axioms src_alloc_ge
#print axioms src_alloc_budget
#print axioms src_criteria_terms
#print axioms src_criteria_sound
#print axioms src_criteria_bias_sq
#print axioms src_criteria_mono_rmse
#print axioms src_criteria_mono_ml
#print axioms src_budget_split
#print axioms src_run_to_max_never_converges
