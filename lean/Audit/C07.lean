import RpylibModel.Proofs.C07
open Rpylib.Stats
#print axioms each_path_once
#print axioms price_is_df_notional_mean
#print axioms stderr_per_component
#print axioms stderr_old_wrong
#print axioms adjust_mean
#print axioms cv_mean_identity
#print axioms cv_mean_identity_k
#print axioms adjust_var
#print axioms varB_nonneg
#print axioms cv_var_le_raw_one_control
#print axioms varU_eq
#print axioms cv_stderr_le_raw_one_control
#print axioms covB_combo_left
#print axioms cv_var_le_raw_normal_equations
#print axioms adjustK_mean
#print axioms cv_mean_identity_vec
#print axioms adjustVec_mean
#print axioms adjustVec_component_local
#print axioms cov_collinear
#print axioms kernel2_normal_equations
#print axioms cv_var_le_raw_two_controls
#print axioms cv_var_le_raw_vec
#print axioms adjustVecRow_eq
#print axioms adjustVecRow_length
