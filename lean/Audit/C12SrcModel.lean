import RpylibModel.ProofsGen.SrcC12Model
open Rpylib.SrcTie.C12
#print axioms src_mass2d_eq_model_all
#print axioms src_mass3d_eq_model_all
#print axioms src_mass2d_origin_box_defect
#print axioms src_sign_float
#print axioms src_interval_I
#print axioms src_mass1d_upper_end_zero_defect
