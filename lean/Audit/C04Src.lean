import RpylibModel.ProofsGen.SrcC04
open Rpylib.SrcTie.C04
#print axioms src_mu_h_eq_sum
#print axioms src_mu_h_explicit
#print axioms src_process_drift_compensates
#print axioms src_truncated_interval_spec
#print axioms src_truncated_integrate_spec
#print axioms src_truncated_integrate_x_spec
#print axioms src_truncated_integrate_xx_spec
#print axioms src_chain_mean_truncated
#print axioms src_vol_adjustment_spec
#print axioms src_eqdiff_sq
