import RpylibModel.ProofsGen.SrcC10Model
open Rpylib.SrcTie.C10
#print axioms src_canonical_eq_model
#print axioms src_zero_eq_model
#print axioms src_center_eq_model
#print axioms src_tilde_eq_model
