import RpylibModel.ProofsGen.SrcC04Model
open Rpylib.SrcTie.C04
#print axioms src_truncated_interval_eq_model
#print axioms src_integrate_eq_model
#print axioms src_integrate_x_eq_model
#print axioms src_integrate_xx_eq_model
#print axioms src_mu_h_eq_model
#print axioms src_vol_adjustment_sq_eq_model
#print axioms src_eqdiff_sq_eq_model
#print axioms src_process_drift_eq_model
