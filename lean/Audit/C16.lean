import RpylibModel.Proofs.C16
open Rpylib.Sde
#print axioms euler_step
#print axioms euler_value
#print axioms path_starts_at_zero
#print axioms euler_constant
#print axioms euler_constant_1d
#print axioms euler_diag
#print axioms coupled_component
#print axioms coupled_euler_step
#print axioms coupled_constant
#print axioms coupled_diag
#print axioms sortedT_of_pairwise
#print axioms aux_continuous_at_tenors
#print axioms aux_affine_on_piece
#print axioms aux_ge_one
#print axioms aux_mono
#print axioms df_zero
#print axioms df_pos
#print axioms df_continuous_at_tenors
#print axioms df_antitone
#print axioms dfCurve?_some
#print axioms df_jump_counterexample
#print axioms df_old_discontinuous_at_tenor
