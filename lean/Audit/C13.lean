import RpylibModel.Proofs.C13
open Rpylib.Grid
#print axioms amid_between
#print axioms refine_length
#print axioms refine_even_old
#print axioms refine_odd_is_mid
#print axioms refine_odd_strictly_between
#print axioms refine_strictInc
#print axioms refine_truncation
#print axioms refineN_length
#print axioms refineN_old
#print axioms refineN_strictInc
#print axioms refineN_truncation
#print axioms amid_atOrigin
#print axioms Grid.refine_wellFormed
#print axioms Grid.refineN_wellFormed
#print axioms Grid.refineN_h
#print axioms Grid.refineN_origin
#print axioms Grid.refineN_axes
#print axioms Grid.refine_shared
#print axioms creditAxis_wellFormed
#print axioms creditAxis_sym_wellFormed
