import RpylibModel.ProofsGen.C06Budget
open Rpylib.Alloc
#print axioms budget_le_one
