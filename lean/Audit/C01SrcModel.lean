import RpylibModel.ProofsGen.SrcC01Model
open Rpylib.SrcTie.C01
#print axioms src_intensity_nd_eq_model
#print axioms src_chain_intensity_nd_eq_model
#print axioms src_nd_intensity_eq_sum_rates
#print axioms src_prob_nd_sum_one
