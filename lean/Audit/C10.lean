import RpylibModel.Proofs.C10
open Rpylib.Triplet
#print axioms setRep_drift
#print axioms walk_invariant
#print axioms walk_drift
#print axioms setRep_path_independent
#print axioms setRep_reversible
#print axioms setRep_reversible_finite_variation
#print axioms setRep_reversible_infinite_variation
#print axioms exponent_rep_invariant
#print axioms center_flipped_not_reversible
#print axioms cf_route_martingale
#print axioms hem_kappa_one
#print axioms direct_route_martingale_BS
#print axioms direct_route_martingale_Merton
#print axioms direct_route_martingale_HEM
#print axioms direct_eq_cf_plus_zero_drift_HEM
#print axioms direct_eq_cf_plus_zero_drift_Merton
#print axioms direct_eq_cf_plus_zero_drift_BS
#print axioms hem_prefix_gap
#print axioms hem_prefix_not_martingale
#print axioms ctmc_bookkeeping
#print axioms ctmc_route_martingale
#print axioms exponent_walk_invariant
#print axioms exponent_current_drift_native_jump_shifts
#print axioms exponent_current_drift_native_jump_wrong
