import RpylibModel.ProofsGen.SrcC16Model
open Rpylib.SrcTie.C16
#print axioms src_libor_df_eq_dfCurve
#print axioms src_forward_df_eq_dfCurve
#print axioms src_libor_forward_same_curve
#print axioms src_base_df_eq_one
