import RpylibModel.ProofsGen.SrcC17
open Rpylib.SrcTie.C17
#print axioms src_call_put_parity
#print axioms src_vanilla_nonneg
#print axioms src_callspread_eq_calls
#print axioms src_callspread_nonneg
#print axioms src_digital_sum_one
#print axioms src_digital_zero_one
