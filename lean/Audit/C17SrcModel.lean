import RpylibModel.ProofsGen.SrcC17Model
open Rpylib.SrcTie.C17
#print axioms src_fixedcoupon_eq_model
#print axioms src_forward_eq_model
#print axioms src_vanilla_eq_model
#print axioms src_callspread_eq_model
#print axioms src_digital_eq_model
