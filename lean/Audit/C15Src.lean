import RpylibModel.ProofsGen.SrcC15
open Rpylib.SrcTie.C15
#print axioms src_diffusion_running_sums
#print axioms src_diffusion_length
#print axioms src_diffusion_increment
#print axioms src_jump_times_diffusion_running_sums
#print axioms src_coupled_diffusion_running_sums
#print axioms src_coupled_diffusion_aligned
#print axioms src_fixed_dates_path
#print axioms src_fixed_dates_starts_at_zero
#print axioms src_jump_times_path
#print axioms src_jump_times_path_facts
#print axioms src_jump_times_eq_blocks
#print axioms src_jump_times_running_sums
#print axioms src_jump_times_lengths
#print axioms src_jump_times_increasing
#print axioms src_jump_times_full_path
#print axioms src_fixed_jumps_eval
#print axioms src_fixed_jumps_first_date
#print axioms src_project_eval
#print axioms src_project_first_date
#print axioms src_coupled_slice_eval
#print axioms src_coupled_slice_running_sums
