import RpylibModel.ProofsGen.SrcC02Model
open Rpylib.SrcTie.C02
#print axioms src_adapted1d_eq_model
