import RpylibModel.Proofs.C04
open Rpylib.Drift
#print axioms muH_uses_cells
#print axioms muH_eq_sum
#print axioms chain_mean
#print axioms chain_mean_explicit
#print axioms muTilde_tails
#print axioms muTilde_inside
#print axioms chain_mean_margin
#print axioms chain_mean_margin_defect
#print axioms eqDiff
#print axioms centralIv_small
#print axioms variance_gap
#print axioms variance_gap_chain
#print axioms variance_infinite_variation
#print axioms variance_finite_variation
#print axioms mean_gap
#print axioms variance_matrix_counterexample
#print axioms variance_matrix_1x1
