import RpylibModel.ProofsGen.SrcC07Model
open Rpylib.SrcTie.C07
#print axioms src_mean_eq_model
#print axioms src_mc_stddev_eq_model
#print axioms src_path_loop_eq_model
#print axioms src_helper_eq_model_adjustK
#print axioms src_helper_eq_model_one_control
#print axioms src_loop_eq_model_adjustVecRow
