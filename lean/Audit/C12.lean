import RpylibModel.Proofs.C12
open Rpylib.CopulaMass
#print axioms fast2d_eq_general
#print axioms fast2d_origin_box_defect
#print axioms fast3d_eq_general
#print axioms general1d_eq
#print axioms mass3d_sub2
#print axioms mass3d_sub1
#print axioms mass2d_additive_split1
#print axioms mass2d_additive_split2
#print axioms mass2d_split_at_zero_defect
#print axioms mass2d_split_at_zero_iff
#print axioms mass3d_additive_split1
#print axioms mass3d_additive_split2
#print axioms mass3d_additive_split3
#print axioms mass2d_whole_line1
#print axioms mass2d_whole_line2
#print axioms mass3d_whole_line1
#print axioms mass3d_whole_line2
#print axioms mass3d_whole_line3
#print axioms mass3d_whole_plane
#print axioms mass2d_nonneg
#print axioms mass2d_upper_zero_defect
#print axioms extRatLinearOrder
