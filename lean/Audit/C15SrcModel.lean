import RpylibModel.ProofsGen.SrcC15Model
open Rpylib.SrcTie.C15
#print axioms src_diffusion_eq_model
#print axioms src_fixed_dates_eq_model
#print axioms src_project_eq_model
#print axioms src_jump_times_path_eq_model
#print axioms src_max_step_eq_model
#print axioms blocks_eq_model
#print axioms src_jump_times_eq_model
#print axioms src_jump_times_direct_eq_model
