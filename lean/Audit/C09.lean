import RpylibModel.Proofs.C09
open Rpylib.Integrals
#print axioms trunc_is_intersection
#print axioms trunc_empty_degenerate
#print axioms truncIntegrate_is_intersection
#print axioms truncIntegrate_a_gt_b
#print axioms density_zero_outside
#print axioms density_inside
#print axioms truncE_line
#print axioms truncE_fin
#print axioms additive_adjacent
#print axioms additive_split_at_zero
#print axioms a_gt_b_is_error
#print axioms sign_even_nonneg
#print axioms sign_odd_neg_halfline
#print axioms sign_odd_pos_halfline
#print axioms xn_exp_antiderivative
#print axioms xn_exp_integral_pos
#print axioms xn_exp_integral_neg
#print axioms xn_exp_correct
#print axioms xn_exp_alpha_nonpos_is_error
#print axioms xn_exp_old_wrong
#print axioms hem_correct
#print axioms hem_a_gt_b_is_error
#print axioms hem_even_nonneg
