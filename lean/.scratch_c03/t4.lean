import RpylibModel.Proofs.Lemmas.C03Nd
set_option linter.unusedVariables false
namespace Rpylib.Coupling
open Rpylib.Grid Rpylib.Cells Finset

def ov (k0 k1 a b : Rat) : Rat := max 0 (min k1 b - max k0 a)

def lineMargin : MarginMass := fun S box =>
  match S, box with
  | [0], [(a, b)] => ov 0 (1/2) a b
  | [1], [(c, d)] => ov 0 1 c d / 2
  | [0, 1], [(a, b), (c, d)] => ov 0 (1/2) (max a (c / 2)) (min b (d / 2))
  | _, _ => 0

theorem ov_eq (k0 k1 a b : ℚ) : ov k0 k1 a b = overlap k0 k1 a b := rfl

theorem line_margin0 : IsMass (fun a b => lineMargin [0] [(a, b)]) := by
  constructor
  · intro a b c hab hbc _
    show ov 0 (1/2) a c = ov 0 (1/2) a b + ov 0 (1/2) b c
    rw [ov_eq, ov_eq, ov_eq]; exact overlap_add _ _ a b c hab hbc
  · intro a b _ _
    show 0 ≤ ov 0 (1/2) a b
    unfold ov; exact le_max_left _ _

theorem line_margin1 : IsMass (fun a b => lineMargin [1] [(a, b)]) := by
  constructor
  · intro a b c hab hbc _
    show ov 0 1 a c / 2 = ov 0 1 a b / 2 + ov 0 1 b c / 2
    rw [ov_eq, ov_eq, ov_eq, overlap_add _ _ a b c hab hbc]; ring
  · intro a b _ _
    show 0 ≤ ov 0 1 a b / 2
    unfold ov; exact div_nonneg (le_max_left _ _) (by norm_num)

theorem line_joint_x (a b y z : ℚ) :
    lineMargin [0, 1] [(a, b), (y, z)] = overlap (max 0 (y / 2)) (min (1/2) (z / 2)) a b := by
  show ov 0 (1/2) (max a (y / 2)) (min b (z / 2)) = _
  unfold ov overlap
  rw [← min_assoc, min_comm (1/2 : ℚ) b, min_assoc, min_comm b, ← max_assoc, max_comm (0:ℚ) a, max_assoc, max_comm a]

theorem min_half (k z : ℚ) : min k (z / 2) = min (2 * k) z / 2 := by
  simp only [min_def]; split_ifs <;> linarith

theorem max_half (k y : ℚ) : max k (y / 2) = max (2 * k) y / 2 := by
  simp only [max_def]; split_ifs <;> linarith

theorem max0_half (x : ℚ) : max 0 (x / 2) = max 0 x / 2 := by
  simp only [max_def]; split_ifs <;> linarith

theorem line_joint_y (a b y z : ℚ) :
    lineMargin [0, 1] [(a, b), (y, z)] = overlap (2 * max 0 a) (2 * min (1/2) b) y z / 2 := by
  show ov 0 (1/2) (max a (y / 2)) (min b (z / 2)) = _
  unfold ov overlap
  rw [← min_assoc, ← max_assoc, min_half, max_half, ← max0_half]
  congr 1; ring

theorem line_joint : IsBoxMass2 (fun a b c d => lineMargin [0, 1] [(a, b), (c, d)]) := by
  constructor
  · intro a b c y z hab hbc _ _ _
    simp only [line_joint_x]; exact overlap_add _ _ a b c hab hbc
  · intro a c x y z _ hxy hyz _ _
    simp only [line_joint_y]; rw [overlap_add _ _ x y z hxy hyz]; ring
  · intro a c y z _ _ _
    simp only [line_joint_x]; unfold overlap; exact le_max_left _ _

end Rpylib.Coupling
