import RpylibModel.Proofs.Lemmas.C03Basic
set_option linter.unusedVariables false
namespace Rpylib.Coupling
open Rpylib.Grid Rpylib.Cells Finset

theorem oddAxes_two (i1 i2 : ℤ) :
    oddAxes [i1, i2] = (if i1 % 2 ≠ 0 then [0] else []) ++ (if i2 % 2 ≠ 0 then [1] else []) := by
  unfold oddAxes
  simp [List.range_succ, List.filter_cons]
  split_ifs <;> simp_all

theorem cornerProbs_10 (ax : List ℚ) (o : ℕ) (m : MarginMass) (i1 i2 : ℤ) (h1 : i1 % 2 ≠ 0) (h2 : i2 % 2 = 0) :
    cornerProbs [ax, ax] o m [i1, i2] =
      let c := posOf o i1
      let v := pt ax c
      let T := m [0] [(amid (leftPoint ax c) v, amid v (rightPointN ax.length ax c))]
      [m [0] [(min v (amid (pt ax (posOf c (-1))) v), max v (amid (pt ax (posOf c (-1))) v))] / T,
       m [0] [(min v (amid (pt ax (posOf c 1)) v), max v (amid (pt ax (posOf c 1)) v))] / T] := by
  unfold cornerProbs
  rw [oddAxes_two]
  simp [h1, h2, signs, cartesian, cornerProb, cornerBox, totalBox, projVal, projPos, posNd, cornerVal, midT, projLeftPt, projRightPt, len0, List.range_succ]

theorem cornerProbs_01 (ax : List ℚ) (o : ℕ) (m : MarginMass) (i1 i2 : ℤ) (h1 : i1 % 2 = 0) (h2 : i2 % 2 ≠ 0) :
    cornerProbs [ax, ax] o m [i1, i2] =
      let c := posOf o i2
      let v := pt ax c
      let T := m [1] [(amid (leftPoint ax c) v, amid v (rightPointN ax.length ax c))]
      [m [1] [(min v (amid (pt ax (posOf c (-1))) v), max v (amid (pt ax (posOf c (-1))) v))] / T,
       m [1] [(min v (amid (pt ax (posOf c 1)) v), max v (amid (pt ax (posOf c 1)) v))] / T] := by
  unfold cornerProbs
  rw [oddAxes_two]
  simp [h1, h2, signs, cartesian, cornerProb, cornerBox, totalBox, projVal, projPos, posNd, cornerVal, midT, projLeftPt, projRightPt, len0, List.range_succ]

theorem cornerProbs_11 (ax : List ℚ) (o : ℕ) (m : MarginMass) (i1 i2 : ℤ) (h1 : i1 % 2 ≠ 0) (h2 : i2 % 2 ≠ 0) :
    cornerProbs [ax, ax] o m [i1, i2] =
      let c := posOf o i1
      let d := posOf o i2
      let v := pt ax c
      let w := pt ax d
      let T := m [0, 1] [(amid (leftPoint ax c) v, amid v (rightPointN ax.length ax c)),
                         (amid (leftPoint ax d) w, amid w (rightPointN ax.length ax d))]
      let I (s : ℤ) := (min v (amid (pt ax (posOf c s)) v), max v (amid (pt ax (posOf c s)) v))
      let J (s : ℤ) := (min w (amid (pt ax (posOf d s)) w), max w (amid (pt ax (posOf d s)) w))
      [m [0, 1] [I (-1), J (-1)] / T, m [0, 1] [I (-1), J 1] / T, m [0, 1] [I 1, J (-1)] / T, m [0, 1] [I 1, J 1] / T] := by
  unfold cornerProbs
  rw [oddAxes_two]
  simp [h1, h2, signs, cartesian, cornerProb, cornerBox, totalBox, projVal, projPos, posNd, cornerVal, midT, projLeftPt, projRightPt, len0, List.range_succ]
end Rpylib.Coupling

namespace Rpylib.Coupling
open Rpylib.Grid Rpylib.Cells Finset

theorem sendProb_10 (ax : List ℚ) (o : ℕ) (m : MarginMass) (i j : ℕ) (y : List ℕ)
    (h1 : ((i : ℤ) - o) % 2 ≠ 0) (h2 : ((j : ℤ) - o) % 2 = 0) :
    sendProbNd [ax, ax] o m [i, j] y =
      (if [posOf i (-1), j] = y then cornerProb [ax, ax] m [0] [i, j] [-1] else 0) +
      (if [posOf i 1, j] = y then cornerProb [ax, ax] m [0] [i, j] [1] else 0) := by
  unfold sendProbNd
  simp only [List.map_cons, List.map_nil]
  rw [oddAxes_two]
  simp [h1, h2, signs, cartesian, cornerIdx, List.range_succ, List.filter_cons]
  split_ifs <;> simp_all

theorem sendProb_00 (ax : List ℚ) (o : ℕ) (m : MarginMass) (i j : ℕ) (y : List ℕ)
    (h1 : ((i : ℤ) - o) % 2 = 0) (h2 : ((j : ℤ) - o) % 2 = 0) :
    sendProbNd [ax, ax] o m [i, j] y = if [i, j] = y then 1 else 0 := by
  unfold sendProbNd
  simp only [List.map_cons, List.map_nil]
  rw [oddAxes_two]
  simp [h1, h2]

end Rpylib.Coupling
