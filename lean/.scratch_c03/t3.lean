import RpylibModel.Proofs.Lemmas.C03Nd
set_option linter.unusedVariables false
set_option linter.unusedSectionVars false
namespace Rpylib.Coupling
open Rpylib.Grid Rpylib.Cells Finset

theorem joint_two (m : MarginMass) : joint 2 m = m [0, 1] := by
  unfold joint; simp [List.range_succ]

theorem rateNd_joint_two (ax : List ℚ) (o : ℕ) (m : MarginMass) (i j : ℕ) :
    rateNd amid [ax, ax] o (joint 2 m) [i, j] =
      if i = o ∧ j = o then 0
      else m [0, 1] [(cellLo amid ax i, cellHi amid ax i), (cellLo amid ax j, cellHi amid ax j)] := by
  rw [joint_two]
  unfold rateNd cellBox len0 cellHi
  simp

theorem totalBox_10 (ax : List ℚ) (o : ℕ) (i1 i2 : ℤ) :
    totalBox [ax, ax] [0] (posNd o [i1, i2]) = [wholeCell ax (posOf o i1)] := by
  unfold wholeCell
  simp [totalBox, projVal, projPos, posNd, midT, projLeftPt, projRightPt, len0]

theorem totalBox_01 (ax : List ℚ) (o : ℕ) (i1 i2 : ℤ) :
    totalBox [ax, ax] [1] (posNd o [i1, i2]) = [wholeCell ax (posOf o i2)] := by
  unfold wholeCell
  simp [totalBox, projVal, projPos, posNd, midT, projLeftPt, projRightPt, len0]

theorem totalBox_11 (ax : List ℚ) (o : ℕ) (i1 i2 : ℤ) :
    totalBox [ax, ax] [0, 1] (posNd o [i1, i2]) = [wholeCell ax (posOf o i1), wholeCell ax (posOf o i2)] := by
  unfold wholeCell
  simp [totalBox, projVal, projPos, posNd, midT, projLeftPt, projRightPt, len0, List.range_succ]

end Rpylib.Coupling
