import RpylibModel.Model.Coupling
namespace Rpylib.Coupling
open Rpylib.Grid Rpylib.Cells

def ov (k0 k1 a b : Rat) : Rat := max 0 (min k1 b - max k0 a)

def lineMargin : MarginMass := fun S box =>
  match S, box with
  | [0], [(a, b)] => ov 0 (1/2) a b
  | [1], [(c, d)] => ov 0 1 c d / 2
  | [0, 1], [(a, b), (c, d)] => ov 0 (1/2) (max a (c / 2)) (min b (d / 2))
  | _, _ => 0

def axc : List Rat := [-1, 0, 1]
def axf : List Rat := refine amid axc
#eval axf
#eval (List.range 5).map (fun i => (List.range 5).map (fun j => coupledRate2 [axf, axf] 2 lineMargin [i, j]))
#eval (List.range 3).map (fun i => (List.range 3).map (fun j => rateNd amid [axc, axc] 1 (joint 2 lineMargin) [i, j]))
#eval (List.range 5).map (fun i => (List.range 5).map (fun j => rateNd amid [axf, axf] 2 (joint 2 lineMargin) [i, j]))
#eval cornerProbs [axf, axf] 2 lineMargin [1, 2]
#eval cornerProbs [axf, axf] 2 lineMargin [1, 1]
example : ov 0 1 (1/2) 1 = 1/2 := by decide +kernel
example : axf = [-1, -1/2, 0, 1/2, 1] := by decide +kernel
example : lineMargin [0] [(0,1)] = 1/2 := by decide +kernel
example : cornerProbs [axf, axf] 2 lineMargin [1, 2] = [1, 0] := by decide +kernel
example : rateNd amid [axc, axc] 1 (joint 2 lineMargin) [2, 2] = 0 := by decide +kernel
example : rateNd amid [axf, axf] 2 (joint 2 lineMargin) [3, 4] = 1/8 := by decide +kernel
example : sendProbNd [axf, axf] 2 lineMargin [3, 4] [2, 4] = 1 := by decide +kernel
example : flowNd [axf, axf] 2 lineMargin [3, 4] [2, 4] = 1/8 := by decide +kernel
example : coupledRate2 [axf, axf] 2 lineMargin [2, 4] = 5/16 := by decide +kernel
end Rpylib.Coupling
