-- Root of the `RpylibModel` library: every model and proof module is imported here so that
-- `lake build` (MANIFEST.setup_cmd) checks all of them.
import RpylibModel.Basic.Proto
import RpylibModel.Proofs.C01
import RpylibModel.Proofs.C02
import RpylibModel.Proofs.C03
import RpylibModel.Proofs.C04
import RpylibModel.Proofs.C05
import RpylibModel.Proofs.C06
import RpylibModel.ProofsGen.C06Budget
import RpylibModel.Proofs.C07
import RpylibModel.Proofs.C08
import RpylibModel.Proofs.C09
import RpylibModel.Proofs.C10
import RpylibModel.Proofs.C11
import RpylibModel.Proofs.C12
import RpylibModel.Proofs.C13
import RpylibModel.Proofs.C14
import RpylibModel.Proofs.C15
import RpylibModel.Proofs.C16
import RpylibModel.Proofs.C17
import RpylibModel.Proofs.C18
import RpylibModel.Proofs.C19
import RpylibModel.Proofs.C20
import RpylibModel.ProofsGen.C20Table
-- source-derived tie (definitions regenerated from /repo's source on every run by harness/srctie.py)
import RpylibModel.ProofsGen.SrcC14
import RpylibModel.ProofsGen.SrcC17
import RpylibModel.ProofsGen.SrcC17Model
import RpylibModel.ProofsGen.SrcC10
import RpylibModel.ProofsGen.SrcC10Model
import RpylibModel.ProofsGen.SrcC18
import RpylibModel.ProofsGen.SrcC19
import RpylibModel.ProofsGen.SrcC09
import RpylibModel.ProofsGen.SrcC03
