#!/bin/bash
# usage: tools/seed_done.sh <Cxx> <letter>  — remove the scratch worktree and demo dir of a seeding round
name=$1-$2
git -C /repo worktree remove --force /tmp/seed_$name; rm -rf /tmp/seed_${name}_demo; git -C /repo worktree prune
