#!/venv/bin/python
"""Records the syntactic fingerprint (sha1 of the AST dump, so comments and formatting do not count) of every source file of
/repo's rpylib package at the commit the models were last validated against -> /verif/anchors.json.
Run (with /venv/bin/python, the interpreter of the checks: ast.dump differs between Python versions) after every commit to /repo.  The checks compare the working tree they are pointed at with this record: a tree
that differs gets a larger exploration budget in the quick tier and the changed files are listed in the evidence; the verdict never
depends on the fingerprint (a harmless rewrite changes it as well)."""
import ast, hashlib, json, subprocess, sys
from pathlib import Path

ROOT = Path(__file__).resolve().parent.parent


def fingerprints(repo: Path):
    out = {}
    for f in sorted((repo / "rpylib").rglob("*.py")):
        rel = f.relative_to(repo).as_posix()
        if "/tests/" in rel or rel.startswith("rpylib/tests/"):
            continue
        try:
            out[rel] = hashlib.sha1(ast.dump(ast.parse(f.read_text())).encode()).hexdigest()
        except SyntaxError:
            out[rel] = "syntax-error"
    return out


if __name__ == "__main__":
    repo = Path(sys.argv[1]) if len(sys.argv) > 1 else Path("/repo")
    commit = subprocess.run(["git", "-C", str(repo), "rev-parse", "--short", "HEAD"], capture_output=True, text=True).stdout.strip()
    dirty = subprocess.run(["git", "-C", str(repo), "status", "--porcelain", "--untracked-files=no"], capture_output=True, text=True).stdout.strip()
    if dirty:
        sys.exit("refusing: /repo has uncommitted changes")
    (ROOT / "anchors.json").write_text(json.dumps({"validated_repo_commit": commit, "files": fingerprints(repo)}, indent=1))
    print("anchors.json written for", commit)
