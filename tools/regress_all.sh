#!/bin/bash
# usage: tools/regress_all.sh [parallelism]  — every stored seeded change must still be caught, every stored property-preserving
# refactor must stay quiet.  Parallel across properties only: two experiments on the same property would race on that
# property's generated Lean files.
P=${1:-5}
cd /verif
one_prop() {
  prop=$1
  for d in /verif/seeded/$prop-*; do
    [ -d "$d" ] || continue
    /verif/tools/retest_seed.sh $(basename $d) 2>&1 | grep -v "^WARNING" | tail -1
  done
  for d in /verif/seeded/harmless/$prop-*; do
    [ -d "$d" ] || continue
    name=$(basename $d); wt=/tmp/reharm_$name
    if [ -f $d/EXPECT ]; then echo "harmless $name: skipped (a violation is expected: see $d/EXPECT)"; continue; fi
    git -C /repo worktree add -q --detach $wt HEAD || continue
    if git -C $wt apply $d/patch.diff 2>/dev/null || git -C $wt apply -3 $d/patch.diff 2>/dev/null; then
      out=$(VERIF_REPO=$wt /verif/check $prop quick 2>&1 | grep -v "^WARNING" | grep -v "^KNOWN")
      echo "harmless $name: $(echo "$out" | grep -c '^VIOLATION') violation lines; $(echo "$out" | tail -1)"
    else
      echo "harmless $name: PATCH-DOES-NOT-APPLY"
    fi
    git -C /repo worktree remove --force $wt
  done
}
export -f one_prop
for p in ${PROPS:-C01 C02 C03 C04 C05 C06 C07 C08 C09 C10 C11 C12 C13 C14 C15 C16 C17 C18 C19 C20}; do echo $p; done | xargs -P $P -I{} bash -c 'one_prop {}'
