#!/bin/bash
# usage: tools/regress_all.sh [parallelism]  — every stored seeded change must still be caught, every stored property-preserving refactor must stay quiet
cd /verif
P=${1:-5}
ls seeded | grep -v harmless | xargs -P $P -I{} sh -c 'tools/retest_seed.sh {} 2>&1 | grep -v "^WARNING" | tail -1'
for d in seeded/harmless/*; do
  name=$(basename $d); prop=${name%%-*}
  wt=/tmp/reharm_$name
  git -C /repo worktree add -q --detach $wt HEAD || continue
  if git -C $wt apply $d/patch.diff 2>/dev/null || git -C $wt apply -3 $d/patch.diff 2>/dev/null; then
    out=$(VERIF_REPO=$wt /verif/check $prop quick 2>&1 | grep -v "^WARNING" | grep -v "^KNOWN")
    echo "harmless $name: $(echo "$out" | grep -c '^VIOLATION') violation lines; $(echo "$out" | tail -1)"
  else
    echo "harmless $name: PATCH-DOES-NOT-APPLY"
  fi
  git -C /repo worktree remove --force $wt
done
