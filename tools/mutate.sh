#!/bin/bash
# usage: tools/mutate.sh <Cxx> <file-relative-to-repo> <python-regex-old> <new>   — developer helper: runs the quick check
# of Cxx against a scratch worktree of /repo's HEAD with one textual mutation applied; removes the worktree afterwards.
set -e
prop=$1; file=$2; old=$3; new=$4
wt=/tmp/wt_mut_$$
git -C /repo worktree add -q --detach $wt HEAD
python3 - "$wt/$file" "$old" "$new" <<'PY'
import sys,re
p,old,new=sys.argv[1:4]
s=open(p).read()
assert old in s, "pattern not found"
open(p,'w').write(s.replace(old,new,1))
PY
VERIF_REPO=$wt /verif/check $prop quick 2>&1 | grep -v "^WARNING" | grep -v KNOWN | tail -4
git -C /repo worktree remove --force $wt
