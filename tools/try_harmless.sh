#!/bin/bash
# usage: tools/try_harmless.sh <Cxx> <letter> [tier] — run our check on a property-preserving refactor made by an independent agent in /tmp/harm_<Cxx>-h<letter>
prop=$1; let=${2:-a}; tier=${3:-quick}; name=$prop-h$let
wt=/tmp/harm_$name; demo=/tmp/harm_${name}_demo
echo "== diff stat"; git -C $wt diff --stat | tail -2
echo "== test-suite with the change"; (cd $wt && env -u PYTHONPATH /venv/bin/python -m pytest -q -p no:cacheprovider --timeout=900 --continue-on-collection-errors 2>&1 | tail -1)
echo "== demo on changed code (must be 0)"; SYMPY_GROUND_TYPES=python PYTHONPATH=$demo/shims timeout 600 /venv/bin/python $demo/demo.py $wt > /dev/null 2>&1; echo "exit=$?"
echo "== our check ($tier) on the refactored checkout (must be quiet)"; VERIF_REPO=$wt /verif/check $prop $tier 2>&1 | grep -v "^WARNING" | grep -v "^KNOWN" | tail -5
mkdir -p /verif/seeded/harmless/$name; git -C $wt diff > /verif/seeded/harmless/$name/patch.diff; cp $demo/demo.py /verif/seeded/harmless/$name/demo.py
