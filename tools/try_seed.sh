#!/bin/bash
# usage: tools/try_seed.sh <Cxx> [name]  — confirm a seeded change made by an independent agent in /tmp/seed_<Cxx> and run our check on it
prop=$1; name=${2:-$1-a}
wt=/tmp/seed_$prop; demo=/tmp/seed_${prop}_demo
echo "== diff stat"; git -C $wt diff --stat | tail -3
echo "== test-suite with the change"; (cd $wt && env -u PYTHONPATH /venv/bin/python -m pytest -q -p no:cacheprovider --timeout=900 --continue-on-collection-errors 2>&1 | tail -1)
echo "== demo on changed code"; SYMPY_GROUND_TYPES=python PYTHONPATH=$demo/shims timeout 600 /venv/bin/python $demo/demo.py $wt > /tmp/seed_out_changed.txt 2>&1; echo "exit=$?"; tail -3 /tmp/seed_out_changed.txt
echo "== demo on /repo (unchanged)"; SYMPY_GROUND_TYPES=python PYTHONPATH=$demo/shims timeout 600 /venv/bin/python $demo/demo.py /repo > /tmp/seed_out_orig.txt 2>&1; echo "exit=$?"; tail -2 /tmp/seed_out_orig.txt
echo "== our check (quick) on the changed checkout"; VERIF_REPO=$wt /verif/check $prop quick 2>&1 | grep -v "^WARNING" | grep -v "^KNOWN" | tail -5
mkdir -p /verif/seeded/$name; git -C $wt diff > /verif/seeded/$name/patch.diff; cp $demo/demo.py /verif/seeded/$name/demo.py
