#!/bin/bash
# usage: tools/try_seed.sh <Cxx> <letter> [tier] — confirm a seeded change made by an independent agent in /tmp/seed_<Cxx>-<letter> and run our check on it
prop=$1; let=${2:-a}; tier=${3:-quick}; name=$prop-$let
wt=/tmp/seed_$name; demo=/tmp/seed_${name}_demo
echo "== diff stat"; git -C $wt diff --stat | tail -3
echo "== test-suite with the change"; (cd $wt && env -u PYTHONPATH /venv/bin/python -m pytest -q -p no:cacheprovider --timeout=900 --continue-on-collection-errors 2>&1 | tail -1)
echo "== demo on changed code"; SYMPY_GROUND_TYPES=python PYTHONPATH=$demo/shims timeout 600 /venv/bin/python $demo/demo.py $wt > /tmp/seed_out_${name}_changed.txt 2>&1; echo "exit=$?"; tail -3 /tmp/seed_out_${name}_changed.txt
echo "== demo on /repo (unchanged)"; SYMPY_GROUND_TYPES=python PYTHONPATH=$demo/shims timeout 600 /venv/bin/python $demo/demo.py /repo > /tmp/seed_out_${name}_orig.txt 2>&1; echo "exit=$?"; tail -2 /tmp/seed_out_${name}_orig.txt
echo "== our check ($tier) on the changed checkout"; VERIF_REPO=$wt /verif/check $prop $tier 2>&1 | grep -v "^WARNING" | grep -v "^KNOWN" | tail -6
mkdir -p /verif/seeded/$name; git -C $wt diff > /verif/seeded/$name/patch.diff; cp $demo/demo.py /verif/seeded/$name/demo.py
rm -f /tmp/seed_out_${name}_changed.txt /tmp/seed_out_${name}_orig.txt
