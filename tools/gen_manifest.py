#!/usr/bin/env python3
"""Regenerates MANIFEST.json from the table below (run after adding a property's check)."""
import json
from pathlib import Path

ROOT = Path(__file__).resolve().parent.parent

# id -> (level text, level note, technique, design_ref)
CLAIMED = {
    "C03": ("Lean 4 model of CouplingMarkovChain / CouplingLevyCopula / CouplingSDE: refine, the probability of an odd fine state "
            "moving right, coupling_state in 1-d and the n-d corner recursion, and the level records carried by next_level (grid, "
            "fine/coarse diffusion coefficient, frozen drift, shared Brownian increments; for the SDE coupling the driver drift, "
            "diffusion coefficient and maximum step each component reads). Theorems for every strictly increasing axis, every "
            "cell-boundary function strictly inside its gap, every mass additive and non-negative on one-sided intervals, every "
            "level: even increments are copied, odd ones go to an adjacent coarse state; fine cells nest in coarse cells; the "
            "rate-weighted coupled jumps reproduce exactly the level-(l-1) rates per state at every level of refine^k and the "
            "coarse intensity is the fine one minus the mass sent to the origin; zero-mass cells contribute nothing; after l "
            "next_level calls the coarse drift/diffusion (and, for the SDE coupling, driver quantities and step) are those of level "
            "l-1 and both components consume the same Brownian increments. n-d (d = 2 and d = 3, equal axes): corner probabilities "
            "sum to 1 for every parity of the increment (the 'numerical error' raise is unreachable), telescoping holds for mass "
            "carried by the coordinate axes (independent components); d = 2 on two different axes: what holds is proved, the rest "
            "refuted by a kernel-decided witness; a kernel-decided rational counter-example shows telescoping FAILS for dependent "
            "copulas as coded (recorded findings). Correspondence: real couplings (1-d, copula 2-d/3-d, credit grids with two "
            "thresholds, SDE) through 1..4 real next_level calls vs the model fed the implementation's own masses, coupling_state "
            "at the model's breakpoints with the uniform patched, the SDE record at every level; oracle: the telescoping identity "
            "on the implementation for all six 1-d sampling methods and both n-d methods.",
            "Partial: d >= 4 and d = 3 on unequal axes not stated; dependent-copula telescoping and the projected-coordinate "
            "reading on unequal axes are false of the code (witnesses, findings); additivity of the concrete measures is "
            "C09/C11/C12's subject; payoff expectations not modelled; six recorded findings, one fixed.",
            "Lean 4 proof (telescoping over nested cells, induction over levels, kernel-decided counter-examples) + differential "
            "correspondence",
            "DESIGN.md §4 C03"),
    "C04": ("Lean 4 model of compute_mu_h (with its own running cell boundary), mu_tilde, process_drift, the equivalent diffusion "
            "coefficient and the copula variance matrix combination. Theorems for every axis, cell-boundary function, origin and mass: "
            "compute_mu_h integrates over exactly the cells the rates use and equals sum x_k q_k, hence deterministic drift + "
            "rate-weighted states = model drift + a_tilde + first moment of the truncated measure outside the compensation region (no "
            "hypothesis); per-margin version for copula chains with the exact defect when rates and compensator use different "
            "measures; equivalent diffusion^2 - sigma^2 = second moment of the central cell iff infinite variation; the chain's second "
            "moment differs from the target by at most the rate-weighted oscillation of x^2 (sandwich hypothesis on the second-moment "
            "function); kernel-decided witness that adj*adj^T + sigma^2 is not adj + sigma^2. Correspondence: _process_drift, "
            "equivalent_diffusion_coefficient and every interval compute_mu_h hands to the measure on real chains (four families x "
            "representations x six grids x refinements, copula margins) vs the model fed the model's own integrals; oracle: mean from "
            "independent quadrature of the density.",
            "Partial: the families' closed-form moments (C09) and representation conversion (C10) are inputs; sandwich hypotheses on "
            "m1/m2 assumed; vol_adjustment_ij quadrature not modelled; four recorded findings (copula margin mean, neighbours from "
            "first axis, squared variance matrix).",
            "Lean 4 proof (loop invariant of the running boundary, finite-sum algebra, sandwich bounds) + differential correspondence + quadrature oracle",
            "DESIGN.md §4 C04"),
    "C09": ("Lean 4 + Mathlib real analysis. For all inputs: the truncated wrapper integrates over the intersection and its density "
            "vanishes outside; the coded split-at-zero / one-sided pattern is additive over adjacent intervals and obeys the sign "
            "rules under monotone tails; integral_xn_exp_minus_x, the HEM mass / x / x^2 closed forms and the variance-gamma x^n (n "
            ">= 1) equal the integrals of the models' own densities on EVERY proper extended interval (finite or infinite ends, "
            "straddling zero or not; HasDerivAt + fundamental theorem of calculus + improper integrals; the pre-fix polynomial is "
            "refuted); Merton mass / x / x^2 (incl. infinite ends and the whole line: lambda, lambda mu, lambda(mu^2+sigma^2)), VG "
            "mass, CGMY mass (every y < 2) and first moment on one side of zero incl. infinite ends, and the CGMY straddling second "
            "moment in its gammainc form (incl. the un-tempered g = 0 / m = 0 branches) are theorems for every erf / E1 / upper and "
            "lower incomplete gamma function satisfying explicit derivative and limit hypotheses (theorem parameters, proved "
            "jointly satisfiable from Mathlib's Gaussian integral and Gamma, never axioms). Correspondence: every closed form is "
            "returned by the model as a list of rational coefficients times atoms and compared term by term with the code (atoms by "
            "mpmath, 2^-40 of a cancellation-aware scale); 30-digit quadrature oracle of every family, route, n <= 6 and interval "
            "shape, on drawn, edge-of-constraint (CGMY g = 0 / m = 0, HEM p = 1, zero intensities ...) and re-initialised models.",
            "Partial: scipy's special functions are only probed to satisfy the hypotheses; CGMY mass / first moment on intervals "
            "touching 0, CGMY at g = 0 / m = 0 beyond the straddling second moment, and the scipy quad fallbacks are compared only; "
            "recorded CGMY findings (negative y at zero, un-tempered side).",
            "Lean 4 proof (HasDerivAt + FTC, improper integrals, Gaussian integrals) + term-by-term differential correspondence + "
            "high-precision quadrature oracle",
            "DESIGN.md §4 C09"),
    "C10": ("Lean 4 theorems: the drift after any walk of representation changes is a0 - cRep(r0) + cRep(r_last), hence conversions are "
            "path-independent and reversible (finite and infinite variation); the canonical drift plus the jump part of the exponent at -i "
            "is conserved by conversions; the three pricing routes are martingale routes by algebra: (r-d+omega) + psi(-i) = r-d, the "
            "direct-simulation drifts of Black-Scholes, Merton (abstract exponential) and HEM (kappa(1) = lambda*xi proved rational) "
            "satisfy drift + sigma^2/2 + kappa(1) = r-d, and the Markov-chain drift bookkeeping reproduces r-d+omega+aTilde+muTilde; "
            "negation witnesses for the pre-fix HEM drift and for a flipped CENTER sign. Correspondence/oracles: set_representation walks vs "
            "the model fed the model's own first-moment integrals, levy_exponent vs the Levy-Khintchine integral (25-digit quadrature of "
            "the model's own density), cumulants vs Cauchy-integral derivatives of the exponent, forward from each route.",
            "Partial: exponent = Levy-Khintchine integral, cumulants = derivatives and kappa(1) as an integral are compared numerically, "
            "not proved; five recorded CGMY findings (y<0, y=0, y=1 exponent/cumulant vs declared triplet).",
            "Lean 4 proof (conserved canonical drift over walks, field algebra) + differential correspondence + quadrature oracles",
            "DESIGN.md §4 C10"),
    "C11": ("Lean 4 theorems: the Clayton formula over an abstract generator pair and over Real.rpow for every theta > 0, eta in "
            "[0,1] is grounded (any d), has identity margins (d = 2, 3) and is d-increasing in d = 2 and d = 3 on every box of the "
            "extended space without an all-infinite corner (convexity and third-order differences of the negative power proved); "
            "the completely dependent copula is d-increasing in d = 2 and 3 on every box incl. infinite end points; the independent "
            "copula likewise outside the recorded deviation corners (negation witness there); the executable theta = 1 / "
            "independent / dependent models (with IEEE inf/NaN semantics) likewise; the conditional distribution of Clayton is a "
            "distribution function (values in [0,1], non-decreasing, limits 0 and 1) and the stated inverse inverts it. "
            "Correspondence: exact (theta = 1, independent, dependent: F, volume, margin, conditional distribution, mixed "
            "derivative) plus property oracles for general theta against mpmath, d = 2 and 3.",
            "The mixed derivative, the conditional distribution as a derivative of F, and Clayton boxes with an all-infinite corner "
            "in d = 3 are oracle-checked only; four recorded findings (eta in {0,1} NaN, independent copula at all-infinite "
            "corners).",
            "Lean 4 proof (quadrant splitting, reflection, convexity / higher-order differences) + differential correspondence + "
            "oracle",
            "DESIGN.md §4 C11"),
    "C12": ("Lean 4 theorems over an abstract tail-integral family and any ordered coordinate type: the general recursion _mass_nd "
            "is additive under an axis split away from 0 and a whole-line coordinate can be erased (margins) in EVERY dimension "
            "(induction on the coordinate list; exact defect formula for a split at 0); the fast 2-d / 3-d formulas equal the "
            "general recursion for every sign pattern not containing the origin (8 / 26 patterns); sub-families agree with the "
            "I-margins; non-negativity in d = 2 and d = 3 from an explicit 2-/3-increasing hypothesis, discharged for the Clayton "
            "copula by C11 (so only finiteness and monotonicity of the marginal tails remain assumed). Correspondence: the model "
            "fed with the implementation's own tail integrals, and exactly with TableMeasure margins plus theta = 1 Clayton / "
            "independent / dependent copulas, in d = 2, 3 and 4; oracles for additivity (every index subset), margins, "
            "non-negativity, density quadrature, inverse tail integral.",
            "d >= 4 non-negativity, the density integral and the inverse-tail root search are oracle-checked; five recorded "
            "findings (zero end points, origin box, CGMY tail at 0, independent all-infinite corner).",
            "Lean 4 proof (induction on coordinates, case analysis over sign patterns + ring) + differential correspondence + "
            "oracle",
            "DESIGN.md §4 C12"),
    "C13": ("Lean 4 theorems about a hand-written model of CTMCGrid.refine and the closed-form constructors "
            "(refine^k: old states at 2^k*i, inserted point = the grid's own cell boundary strictly inside the gap, strict "
            "monotonicity, length, h/2^k, origin*2^k, truncation bounds unchanged, -h/0/+h around the origin, shared-axis "
            "storage; credit axes well formed with the threshold exactly on a cell boundary), for every axis, every k and "
            "every cell-boundary function lying strictly inside its gap. Tied to /repo on every run by a correspondence check "
            "(implementation vs the model's executable definitions through a Lean driver) plus a property oracle on every "
            "constructor x model family x refinement depth.",
            "Root-searched bounds (brentq), np.linspace/geomspace and the probability-step axes are oracle-checked, not proved; "
            "float midpoints compared to the exact rational midpoint at 2^-40.",
            "Lean 4 proof (induction on the axis and on the number of refinements) + differential correspondence check",
            "DESIGN.md §4 C13"),
    "C05": ("Lean 4 theorems about a model of the bookkeeping of Engine.price / price_with_constant_mc_paths_and_level and of the "
            "zero-padded per-level sample arrays, with and without control variates: for every scripted process, every oracle "
            "history (optimal sizes, convergence verdicts, level additions) and every initial configuration, at EVERY read point "
            "(every iteration, not only the end) each level's payoff, control and adjusted array is exactly the samples simulated "
            "at that level in simulation order (no placeholder counted, nothing dropped, duplicated, moved or overwritten), N_l is "
            "their number, sum_cost is cost x N_l, the ml / vl / cl handed to the criteria are functions of exactly those samples, "
            "the price is the sum of per-level (adjusted) means, the level-0 coarse payoff and coarse coefficients are 0, adjusted "
            "row i is Y_i - sum_j b_j (X_ji - price_j) with one b per level and column, and the mean identity holds at the "
            "multilevel level (any number of controls, any regression kernel); negation witness for the pre-fix counter. Tied to "
            "/repo by running the real engine with a scripted coupling process and a scripted public ConvergenceCriteria on the "
            "same histories (rows compared exactly at every read point, every callback argument, statistics at 2^-40, k <= 2 "
            "controls, engine reuse: one Engine priced several times) plus an oracle that compares the arrays with the process's "
            "own simulation log.",
            "numpy/scipy moment kernels compared, not proved; single process (multi-process order is C08); multilevel control "
            "variates modelled for payoff dimension 1 and k <= 2 controls in the driver.",
            "Lean 4 proof (loop invariant by induction over the oracle history) + differential correspondence on scripted engine "
            "runs",
            "DESIGN.md §4 C05"),
    "C06": ("Lean 4 theorems: (i) over the reals, for non-negative variances and strictly positive costs (no lower bound) the Giles "
            "allocation as coded gives sum V_l/N_l <= (1-theta) rmse^2 and N_l >= 1 where V_l > 0, and the allocation is invariant "
            "under any positive rescaling of the costs (plus a field-generic version with root certificates and a witness that an "
            "exactly-zero-cost level breaks the budget); (ii) the budget split bias share + variance share <= 1 as a proof "
            "obligation over constants measured on the running code and regenerated before every build; (iii) on the loop model of "
            "C05: never a level above the maximum, every return is either the stated one (1% rule met and (bias test passed or "
            "maximum level)) or the fall-through exit (witness that the latter is reachable), L, N_l and the arrays never decrease "
            "and no sample is ever discarded (all histories), termination within (level_max+1)B+1 iterations for sizes bounded by "
            "B. Correspondence: compute_mc_paths_giles / criteria_giles vs the model's executable definitions (exact integers on "
            "dyadic roots, cost rescalings by powers of four exact), real engine runs vs the loop model; oracles evaluate the "
            "budget (also on costs rescaled down to 1e-20), the level bound, the return reason and - for all 8 given/None patterns "
            "of the public ConvergenceRates - that the rate used at every iteration is the prescribed one.",
            "Float sqrt/ceil not modelled (ceil boundaries excluded); the lstsq regression of the rates is an oracle input (which "
            "rate is used where is oracle-checked); boundedness of the real allocation along a run not proved; two recorded "
            "findings (zero-cost level, fall-through exit).",
            "Lean 4 proof (real analysis with Real.sqrt + loop invariants) + behaviour-derived generated obligation + differential "
            "correspondence",
            "DESIGN.md §4 C06"),
    "C01": ("Lean 4 model of cells (clamped neighbours + the grid's own cell-boundary function), truncation, rates, intensity and the 3^d-1 "
            "block decomposition; 51 theorems at full strength for every strictly increasing axis with 0 inside, every cell-boundary "
            "function strictly inside its gap, every mass that is additive and non-negative on one-sided intervals (boxes away from the "
            "origin), d = 1, 2, 3: cells tile the truncated support with no gap or overlap, each state lies in its own cell and in no other, "
            "truncation changes neither a rate nor the intensity, rates are non-negative, the sum of the rates is exactly the reported "
            "intensity (telescoping in 1-d, grid-sum lemma per coordinate and the 8 / 26 blocks in 2-d / 3-d), all closed under refine^k. "
            "Correspondence: the model is fed mass tables measured on the real nu.integrate / model.mass at the boundaries it asks for "
            "and compared with create_q_vector, intensity_of_jumps, the inversion sampler's per-state probability and the adapted "
            "sampler's bucket masses; independent quadrature / copula-density oracle per cell.",
            "Additivity of the concrete families' integrals and of the copula mass is a hypothesis here (C09, C11, C12); d > 3 and the "
            "probability-step median are oracle-checked only.",
            "Lean 4 proof (telescoping over an index function, grid-sum lemma per coordinate) + behaviour-fed differential correspondence",
            "DESIGN.md §4 C01"),
    "C02": ("Lean 4 model of the samplers as functions of the uniform u over Q with explicit u-cells. Proved for all inputs, in "
            "exact arithmetic: draw specifications (state k is returned exactly on its listed cells, cells disjoint and covering) "
            "AND construction laws for alias (Walker/Vose as coded), binary search tree (in-order construction as coded: every leaf "
            "visited once, cell length p_k), Huffman (any heap insertion position), the table method (exactly 256 slots, floor(256 "
            "p_k) per state, residual theta/sum theta is a probability vector realised by the residual alias; create_table raises "
            "exactly when every 256 p_i is an integer), inversion as a state machine (memo, storage cap, skip pointer: after any "
            "history the draw equals a fresh instance's, for grids without skipped indices under any cap and for arbitrary skip "
            "patterns while the cap is not reached), the adapted 1-d bisection, and the n-dimensional adapted binary search (bucket "
            "search then axis-cycling bisection / precomputed axis vectors): draw_spec for arbitrary tables, and for the tables "
            "_pre_computation builds under a non-negative box mass additive under midpoint cuts every non-origin grid state gets "
            "cells of total length its mass, origin / outside / zero-mass states are never returned. Correspondence: exact dyadic "
            "vectors through both sides (tables and draws), the implementation's extracted tables fed to the model for "
            "factory-built 1-d, 2-d and 3-d chains, Riemann-exact law of the implementation on the model's cells, history streams "
            "(interleaved draws, lowered storage cap, public cost-reset calls), cross-instance histories (several samplers on "
            "identical grids in one process, references taken from the pure enumeration model) and batch entry points.",
            "Partial: float effects (alias clean-up loops, BST threshold accumulation, int(256 p)) and the 2^32-point lattice of "
            "the table method are compared, not modelled; inversion with skipped indices once the cap is reached is false of the "
            "code (witness + recorded finding); additivity of the real joint mass is C01/C09/C12's subject; four recorded findings.",
            "Lean 4 proof (cell decompositions in continuation style, structural induction on tree/heap constructions, "
            "state-machine invariants) + differential correspondence",
            "DESIGN.md §4 C02"),
    "C07": ("Lean 4 theorems over Q for every number of paths and every sample: the path loop stores df*notional*payoff(path i) at "
            "row i for exactly n rows (each path once); price = df*notional*mean; squared error = unbiased variance / n per "
            "component (the pre-fix /(n*d) as witness); control variates, scalar and vector payoffs (one coefficient vector per "
            "component): mean of Y - b(X - price_X) equals the raw mean when the controls' sample means equal their prices, for any "
            "number of controls and any coefficients; with one or two controls the kernel as coded (guard, inverse and "
            "pseudo-inverse branches) solves the normal equations, so the adjusted sample variance and reported error never exceed "
            "the raw ones; for any number of controls the adjusted variance is var Y - var(sum b_j X_j) <= var Y whenever the "
            "coefficients solve the normal equations (Cauchy-Schwarz equality case for collinear controls). Correspondence: the "
            "real standard engine driven by a scripted process with prescribed dyadic paths vs the model's exact rational "
            "statistics (k <= 2, d <= 3, vector controls and prices, collinear controls), engine-reuse histories (one Engine priced "
            "2-3 times with paths down/equal/up, dimension and controls changing); oracles on the implementation's own fitted "
            "adjustment (it lies in the span of the controls and satisfies the normal equations).",
            "k >= 3 controls: that numpy.linalg.pinv yields coefficients solving the normal equations is oracle-checked on the "
            "engine's output, not proved; numpy kernels compared.",
            "Lean 4 proof (finite-sum algebra, 2x2 pseudo-inverse case analysis) + differential correspondence on scripted engine "
            "runs",
            "DESIGN.md §4 C07"),
    "C08": ("Lean 4 theorems about a token model of the generators (seeding re-enters the stream of that seed at position 0): for every "
            "list of passes/levels, path counts and on-the-fly draw counts, a single-process run of the (fixed) engines consumes every "
            "variate - pre-drawn row or drawn on the fly - at most once, a seeded run consumes only the seeded stream and is the same "
            "function of the seed whatever the generators did before; negation witnesses for the pre-fix engines (pre-draw before seeding, "
            "re-seeding every pass) and for the multi-process copied deques. Tie: every numpy.random/random draw, seed call, pre-drawn row "
            "pop and path boundary of real pricing runs (both engines, direct/CTMC/coupled processes, both simulation modes, 1-4 processes) "
            "is traced from the harness; consumption tokens are compared with the model and the oracles (no shared variate, no re-seed "
            "after a draw, bit-equal seeded repeats) run on the trace.",
            "OS scheduling, pid*time collisions and generator quality not modelled; multi-process only by witness + trace oracle; one "
            "recorded finding (copied deques).",
            "Lean 4 proof (interval/prefix-sum injectivity of token positions) + traced differential correspondence",
            "DESIGN.md §4 C08"),
    "C14": ("Lean 4 theorems over N/Z with exact roots: Cantor, Rosenberg-Strong (every dimension), Szudzik, Pepis-Kalmar pairing and "
            "projection mutually inverse for all naturals; N<->Z folding; Z^d without the origin and [-L,R] enumerate every non-zero state "
            "exactly once with pair inverting project; the coded PairingToZ1d object equals the pure function in increasing call order; the "
            "mixed-radix lazy product yields every tuple exactly once for every size list; the states-manager skip-pointer enumeration "
            "returns each in-grid non-origin state exactly once and then signals exhaustion (1-d unconditionally; boxes for monotone "
            "pairings with the code's own bound). Correspondence: exact differential check through a Lean driver on all indices below a "
            "bound plus directed indices around large perfect powers, unequal sizes, all interval shapes, real grids.",
            "Hyperbolic pairing oracle-only; arbitrary call orders of PairingToZ1d and the Rosenberg-Strong frontier bound are proved false "
            "by witnesses and recorded as findings; non-default domain boundaries not modelled.",
            "Lean 4 proof (induction on dimension, shell arithmetic, state-machine invariants) + differential correspondence",
            "DESIGN.md §4 C14"),
    "C15": ("Lean 4 model of the path assembly (fixed dates, jump times, the epsilon-insertion while-loop with its termination measure, "
            "fine/coarse stacking). Theorems for every time grid, count/jump sequence and epsilon: paths start at 0, times strictly increase "
            "and end at the maturity, arrays have equal length; the specification (and the direct jump-time simulator, and the diffusion "
            "component of every simulator) carries running sums with disjoint variates on disjoint intervals; the insertion loop equals "
            "the gap-by-gap specification, terminates (measure = sum of ceil(d/eps)-1), keeps every original point, inserts points that repeat "
            "the preceding value, yields steps in (0, eps] and keeps fine and coarse aligned. For the code as it is the running-sum and "
            "step-cap statements are proved where they hold (one product date; last gap <= eps) and refuted by concrete witnesses otherwise "
            "(recorded findings, not fixed: six sites in four files). Correspondence: both build_finer_grid closures on dyadic arrays "
            "(exact); direct, CTMC, coupled and copula simulators with all variates prescribed from the harness, 1-6 product dates.",
            "Partial for the code (findings #17/#18 and three crash findings for several product dates); numpy sort/insert/cumsum trusted.",
            "Lean 4 proof (loop = specification, termination measure, list induction) + differential correspondence",
            "DESIGN.md §4 C15"),
    "C16": ("Lean 4 model of the Euler recursion over driver increments (single process and the stacked fine/coarse pair) and of the "
            "piecewise simple compounding of the initial curve. Theorems for every driver path, initial value and step count: the scheme "
            "satisfies X_{i+1} = X_i + (b + a*mu) dt_i + a (dW_i + dL_i); with constant a it equals x0 + a*Y_T, with a = diag(x) it equals "
            "x0 * prod(1 + dY_i); each component of the coupled scheme is the single-process scheme on its own part of the coupled path; "
            "df(0) = 1, 0 < df <= 1, df is non-increasing for non-negative rates, adjacent branches agree at every tenor and are affine in "
            "between; witness for the pre-fix curve. Correspondence: real MarkovChainSDE / CouplingSDE (1-d and copula drivers, all "
            "offered coefficient functions) vs recomputation from the captured driver path and vs the Lean driver; df on a mesh through "
            "every tenor for both rate models.",
            "The coupled driver path is an input (its law is C03); numpy broadcasting of the coefficient compared; three recorded findings "
            "(DiagX on stacked / multi-dimensional state, forward sigma(t) past the first tenor).",
            "Lean 4 proof (induction on the path, piecewise-affine curve) + differential correspondence",
            "DESIGN.md §4 C16"),
    "C17": ("Lean 4 model of payoff.py, underlying.py and Product.update / underlying_value / __call__ as a state machine (barrier flag, "
            "representation binding) over Q with an abstract exp/log pair. Theorems for all strikes, barriers, paths, grids and histories: "
            "call - put = forward (per component), call spread and butterfly equal their call combinations, call spread >= 0, digital "
            "call + put = 1, knock-in + knock-out = vanilla, the Asian average is a convex combination of the path values, default time = "
            "first time a jump falls below the threshold (infinite iff none), n-th defaults are order statistics and non-decreasing in n, "
            "notional linear, identity and log representations agree, and pure_in_path: after any operation history the value for a path "
            "is the pure function of (path, terms, representation of the last update); decide-witnesses for the three pre-fix machines. "
            "Correspondence: random operation sequences on every underlying x payoff pair through a stateful Lean driver (exact on "
            "dyadic inputs, 2^-40 with exp/log tables); identities and used-vs-fresh object oracles on the implementation.",
            "Partial: butterfly non-negativity only for K1+K3 <= 2*K2 (false of the code otherwise: recorded finding), identity/log "
            "agreement of the performance classes under a homomorphism hypothesis proved for the reals; numpy exp/log compared; three "
            "recorded findings.",
            "Lean 4 proof (invariant over List.foldl histories, order statistics, finite sums) + differential correspondence",
            "DESIGN.md §4 C17"),
    "C18": ("Lean 4 theorems about a model of the composition logic of COSPricer / FFTPricer / CFBlackScholes (transform values abstract): "
            "put-call parity by construction for COS and FFT over any field, Black-Scholes parity from Phi(x)+Phi(-x)=1 incl. the "
            "degenerate branch, digital = df*probability, the COS coefficients chi_k / psi_k / u_put as their defining integrals (FTC); "
            "spec-level no-arbitrage shape (antitone, convex, intrinsic <= call <= df*F, call-spread slope in [-df,0], butterfly >= 0, "
            "digital antitone in [0,df]) for every finitely supported terminal law. Correspondence: driver at 2^-40 on the pricers' own "
            "put/forward/df values; property oracles with independently computed forward and df on five families inside a measured "
            "convergence box (parity, bounds, monotonicity, convexity, density, COS vs FFT vs closed form, VG vs CGMY(y=0), vector vs scalar).",
            "Partial: truncation / series / FFT discretisation errors and the link series = expectation are not proved; cross-pricer "
            "agreement uses measured tolerances; observations outside the statement (cdf discounting, degenerate sigma) are not judged.",
            "Lean 4 proof (field algebra, Finset sums over the reals, HasDerivAt + FTC) + differential correspondence + property oracle",
            "DESIGN.md §4 C18"),
    "C19": ("Lean 4 theorems over Q for every finitely additive mass, every axis and an abstract strictly monotone multiplicative exp: the coded "
            "default intensity (diagonal minus pair tail integrals plus/minus the signed triple term) equals the mass of the union of the "
            "default half-spaces (d = 1, 2, 3) and is increasing in each threshold; with thresholds on cell boundaries the summed rate of "
            "the chain states having a coordinate below its threshold equals the coded intensity of the measure clipped to the truncation "
            "box (d = 1, 2, 3, via C01's telescoping and block sums), instantiated on the credit chains as built (the credit grid puts "
            "the threshold exactly on a cell boundary); survival, par spread, implied spread and implied threshold are the stated maps "
            "and invert each other (eight-part statement, incl. the brentq bracket contract); default time = first jump below the threshold; "
            "negation witnesses (wrong triple sign, off-boundary threshold). Correspondence/oracles on CTMCCredit chains (sym./asym., d "
            "= 1..3): region rate vs box-clipped inclusion-exclusion at 1e-12*lambda, closed forms on truncated/untruncated models, "
            "monotonicity, spread round trips, CDS payoff expectation.",
            "Additivity of the concrete measures is a hypothesis (C09/C11/C12); the legs as expectations and brentq convergence are "
            "oracle-checked; one recorded edge finding (threshold within h of the origin).",
            "Lean 4 proof (finite additivity algebra, C01 block sums, field algebra over an abstract exp) + differential correspondence",
            "DESIGN.md §4 C19"),
    "C20": ("Lean 4 theorems about the parameter objects as a state machine (constraint-checked setters, derived attributes, initialisation) "
            "for every family, abstract Gamma/power/sqrt, start object and operation list: no history stores a value violating a declared "
            "constraint and a rejected assignment leaves the object unchanged; after any history followed by initialisation the cached "
            "attributes equal the family's function of the final primaries and the object equals the constructor on them; calibration "
            "contract (returned value inside the interval, accepted by the setter, reprices within tolerance given the root-finder "
            "contract) and input-untouched under deepcopy; pre-fix Black-Scholes witness. Generated obligations re-checked on every run "
            "against measurements: the default_calibration table, the derived attributes found by diffing __dict__ across "
            "initialisation(), constructor signatures and the accept/reject pattern of every setter. Oracles: calibrate_* and "
            "run_default_calibration on all families (interval, repricing 1e-6, type, input untouched, unreachable targets raise), "
            "rebuilt-vs-direct model equality.",
            "Partial: brentq and the COS price are outside the model (contract hypothesis; repricing oracle-checked).",
            "Lean 4 proof (state-machine invariants over op lists) + behaviour-derived generated obligations + oracle",
            "DESIGN.md §4 C20"),
}

# additions of later sessions, appended to the entries above (text, note, technique)
ADDENDA = {
    "C04": (" The statement is judged on what every simulation scheme actually applies (fixed dates, jump times, maximum step): the diffusion "
            "coefficient and drift recovered from paths simulated with prescribed variates. The copula chain's variance matrix is judged whatever "
            "factorisation the code uses.",
            " One defect repaired in /repo during the work (9752af5: square root of a singular variance matrix).", ""),
    "C07": (" Histories in which product, control products, ControlVariates, configuration and engine objects are shared across pricings with "
            "changing process representation, with payoff and control underlyings from every underlying class.",
            " Two further recorded findings (control on the same underlying class with other parameters; NthSpot control next to a Spot product).", ""),
    "C10": (" Source-derived tie: LevyTriplet.canonical/zero/center/tilde_drift are translated from /repo's source on every run and the 16 "
            "conversions are proved, on the translated source, to add off(r') - off(r) (reversible, path-independent), and to equal the model. "
            "Construction plans: every public construction route of an exponential model x every order of convert / wrap / evaluate.",
            " One further recorded finding (generic ExponentialOfLevyModel wrapper's process_drift).",
            " + source-derived definitions (PyLite translator) re-proved on every run"),
    "C11": (" About half of the objects of every probe come from a construction history (built elsewhere, parameters assigned on the live object, "
            "copies, factories) and a history oracle compares every evaluation with a fresh object.", "", ""),
    "C12": (" Operation histories on one live model object (evaluations interleaved with re-assignment of model.copula and in-place parameter "
            "edits) feed every probe and a history oracle.", "", ""),
    "C13": (" np.linspace's closed form and the root-searched uniform constructor are proved for all accepted (l, r, h, dim) in exact arithmetic, "
            "with an iff-characterisation of the one-point-side region and witnesses reproduced on the real constructor; fixed-size constructor "
            "proved for h > 0, nb >= 2. Constructor histories (several grids on one model object whose parameters are edited in between).",
            " Float rounding, geomspace and brentq bounds compared only; two further recorded findings.", ""),
    "C14": (" HyperbolicPairing is proved a bijection N<->N^2 (and N^d, Z^d) for the model with a_n as coded (Dirichlet hyperbola identity proved), "
            "the exact inverse of a_n and trial-division factorisation; StatesManager proved for all histories without reset and for never-skipping "
            "histories, with witnesses for skipping / reset histories. Source-derived tie: pairing2d / projection2d of Cantor, Rosenberg-Strong, "
            "Szudzik, Pepis-Kalmar, the N<->Z folding and PairingToZ1d.pair are translated from /repo's source on every run (Python int -> Int with "
            "floor division) and proved equal to the Nat model on the naturals, hence mutually inverse bijections with non-negative projections.",
            " upper_bound_a_n's float bracket, float sqrt / division and sympy factorisation compared only; the Rosenberg-Strong frontier bound "
            "was repaired in /repo (94bedf1).",
            " + source-derived definitions (PyLite translator) re-proved on every run"),
    "C15": (" The coupled Levy-copula simulator's (2,d,n) stacking is modelled and proved row-wise equal to the 1-d simulators on shared times; the "
            "recorded faults are delimited by equivalences (fixedDates_code_eq_spec_iff, jumpValsCtmc_eq_direct_iff, maxStepCode_steps_le_eps_iff, "
            "maxStepCode_eq_spec_iff) and the implementation is checked against both sides.",
            " Two further crash / restart findings for CouplingProcessLevyCopula.", ""),
    "C16": (" A NumPy-shape model proves that Constant and sigma(t)*x commute with stacking and DiagX does not; df is Lipschitz (epsilon-delta over Q "
            "and R) and at tenors equals the product of simple compounding factors with unequal periods.",
            " Broadcasting is proved from modelled NumPy rules (the rules themselves compared).", ""),
    "C17": (" Plus parity, sign and strike-monotonicity theorems for Rainbow, Bond, Cap, Swaption, Ratchet and CDS (rate payoffs under CurveOK), all "
            "replayed on the code; sibling products of the same classes working in the other representation between the steps. Source-derived tie: "
            "FixedCoupon / Forward / Vanilla / CallSpread / Digital.evaluate are translated from /repo's source on every run and the static identities "
            "(call - put = forward, call spread = call combination >= 0, digital call + put = 1) are proved directly on the translated source; "
            "alignment with the hand-written model is a separate, weaker-status obligation.",
            "", " + source-derived definitions (PyLite translator) re-proved on every run"),
    "C18": (" Exactness of COS: for a log-moneyness density vanishing outside [a,b] and equal to an N-term cosine expansion there, the model's "
            "cosPut / cosCall / cosDigital applied to the series the code evaluates equal the discounted expectations; for any density the series is "
            "the integral against the N-term partial sum, so series and truncation error are the only error terms; no-arbitrage shape for a general "
            "terminal law (Bochner integrals) and its transfer to any price within epsilon; Black-Scholes call as a function of the strike: digital = "
            "-dC/dK (dividend yield included), antitone, convex, slope in [-df,0], a dropped dividend is a contradiction. Source-derived tie: "
            "CFBlackScholes.forward / _call_put / call / put / butterfly are translated from /repo's source on every run (exp, log, sqrt, norm.cdf as "
            "function parameters) and parity is proved on the translated source in both branches for every cdf with cdf(x) + cdf(-x) = 1.",
            " Bounds on the two COS error terms, FFT errors and norm.cdf are not proved; intrinsic <= BS call is oracle-only.",
            " + source-derived definitions (PyLite translator) re-proved on every run"),
    "C19": (" The legs of the CDS are proved to be the expectations of the pathwise payoff under an Exp(theta) default time (FTC over R), tied to the "
            "code by leg-wise quadrature and the driver. Source-derived tie: CFLevyModel.survival_probability / cds_spread are translated from /repo's "
            "source on every run and proved to be the stated monotone, invertible functions of the default intensity.",
            " r = 0 is an excluded point of the real-analysis theorem (recorded finding: CDS.evaluate returns nan).",
            " + source-derived definitions (PyLite translator) re-proved on every run"),
    "C20": (" The pricer / target configuration used inside the calibration objective (n, l, spot, r, d, strike, maturity, payoff; Black-Scholes target "
            "arguments) is measured on the running code and generated obligations re-check that it is the user's default pricer configuration and "
            "the requested target (calibrate_reprices_target, with a negation witness for mismatching configurations).", "", ""),
    "C02": (" n-d INVERSION chains in d = 3, 4 with the factory's Rosenberg-Strong pairing, judged against an enumeration that does not depend on "
            "the sampler's own bound; lattice oracle.", " One further recorded finding (cap reset with skipped indices in d >= 3).", ""),
    "C09": (" Nested truncations, a second construction history of every model (parameter object constructed elsewhere, then edited to the target) "
            "and parameter regimes at extreme ratios with end points at the features of the density. Source-derived tie: the HEM closed forms "
            "(integrate, integrate_against_x, integrate_against_xx) are translated from /repo's source on every run (np.exp as a function "
            "parameter) and proved, for every exp, to be the linear combination of exponentials that the model returns as a term list - the "
            "list whose real instance is proved equal to the integral of x^k times the density.",
            " One further recorded finding (the quad fallback misses a narrow Merton peak for n >= 3).",
            " + source-derived definitions (PyLite translator) re-proved on every run"),
    "C01": (" Chains built on models that were truncated before, judged against the input model's own measure.", "", ""),
    "C03": (" Source-derived tie: CouplingSimulation.probability_to_right_jump is translated from /repo's source on every run (the grid seen "
            "through its public operations, the mass as a function parameter) and proved equal to the model's pRight, to split the mass of the "
            "fine cell exactly between the two adjacent coarse cells and to be a probability.", "",
            " + source-derived definitions (PyLite translator) re-proved on every run"),
    "C05": (" Oracle independent of the model: every reported statistic of the results object (N_l, ml, vl, mean / variance per level, kurtosis, "
            "cl, cost, price), read once and read again later, equals the exact statistic of the stored samples; fast-decay regime where the "
            "engine's floor for levels >= 3 bites.", "", ""),
    "C06": (" Sequences of pricings in one interpreter (default-argument objects, configurations / engines reused or new), each sequence in a "
            "forked child that priced nothing before.", "", ""),
    "C08": (" The tracer finds the stores of pre-drawn variates by value (independent of the container the library uses), with a degraded mode "
            "listed in the evidence; multi-date products, a container-independent counting oracle and an exact dependence test across dates.",
            " One further recorded finding (multilevel x jump-time x several dates raises).", ""),
}

# second table, appended after ADDENDA: the source ties and generator patterns added in the last session
ADDENDA2 = {
    "C01": (" Source-derived tie: create_q_vector, compute_intensity_of_jumps (1-d and n-d), the jump-probability closure, the grid's "
            "left_point / right_point / middle (1-d and n-d, own axis length) and TruncatedLevyMeasure are translated from /repo's source on every "
            "run (loops as folds); proved on the translation: every rate is the measure of the state's cell, 0 at the origin, rates >= 0 and "
            "their sum = intensity = mass of the truncated support minus the origin cell for every additive non-negative measure and every "
            "increasing axis; probabilities sum to 1; in n dimensions the cell is the product of the 1-d cells of each state's own axis.",
            "", " + source-derived definitions (PyLite translator) re-proved on every run"),
    "C02": (" Hand-built grids with axes of different lengths (a geometry no shipped constructor produces) for both copula samplers. "
            "Source-derived tie: construction and lookup of the alias method, the binary search tree (explicit-stack loop), the adapted 1-d "
            "tree, the 256-slot table and the jump vector are translated from /repo's source on every run (while loops with fuel); proved on the "
            "translation: for every probability vector the loops terminate and the uniforms sent to state k have total length p_k, a state of "
            "probability 0 is never returned.", "", " + source-derived definitions (PyLite translator) re-proved on every run"),
    "C04": (" Source-derived tie: compute_mu_h (the fold), the process drift of MarkovChainProcess.initialisation, vol_adjustment, the equivalent "
            "diffusion coefficient and the truncated measure's integrals are translated from /repo's source on every run; proved on the translation: "
            "mu_h = sum of x_k times the mass of the C01 cell of x_k for every axis and origin, drift + sum x_k q_k = the mean rate of the truncated "
            "process in the declared representation, squared equivalent coefficient = sigma^2 (+ central-cell variance for infinite variation). "
            "User-defined models on the public abstract classes (Brownian part together with infinite-variation jumps, sums of measures); "
            "one-sided hand-built grids.",
            " One further defect repaired in /repo (7f10060: origin at the last point of a one-sided grid); two recorded findings on one-sided grids.", " + source-derived definitions (PyLite translator) re-proved on every run"),
    "C06": (" Source-derived tie: compute_mc_paths_giles and criteria_giles are translated from /repo's source on every run (vectors as lists, sqrt "
            "and 2**x as function parameters with stated laws); proved on the translation: sum V_l / N_l <= (1 - theta) rmse^2 and N_l >= 1 for "
            "all positive variances and costs of any length, a True verdict implies squared extrapolated bias <= theta rmse^2, both read the same "
            "theta. Every numeric argument in every carrier that holds its value exactly (ints, numpy scalars, 0-d arrays, lists).",
            " One defect repaired in /repo (a6d6f48: integer cost array).", " + source-derived definitions (PyLite translator) re-proved on every run"),
    "C09": (" High moment orders (strata up to 175) with a 50-digit reference. Second source-derived tie: the x^n e^(-ax) primitive (every n, "
            "integration by parts proved by induction on the translated helper), the variance-gamma, Merton and CGMY closed forms with the "
            "special functions as parameters: equal to the model's term lists, additive wherever the intervals lie.",
            " Recorded findings: float overflow of the closed form's intermediates from order ~144.", ""),
    "C13": (" Source-derived tie: CTMCGrid.refine (whole method, attribute stores as results), middle, left_point / right_point, the uniform and "
            "fixed-size constructors after the root search, the credit axes and Coordinate.__imul__ are translated from /repo's source on every "
            "run; proved on the translation for any number of refinements: 2^k (n-1) + 1 points, old states at 2^k i, h / 2^k, origin 2^k o, bounds "
            "unchanged, strictly increasing, exactly one new state strictly inside each old gap; constructors well formed under the stated "
            "hypotheses (the two recorded findings appear as explicit hypotheses).", "", " + source-derived definitions (PyLite translator) re-proved on every run"),
    "C15": (" Source-derived tie: eleven path builders (diffusion running sums, fixed-date and jump-time assembly, CTMC projection, coupled slice) "
            "are translated from /repo's source on every run with every random draw as a tagged variate stream; proved on the translation: "
            "running sums, lengths, strictly increasing times, fine and coarse diffusion from the same normals.",
            " The two epsilon-insertion closures are outside the translatable subset (tied by the correspondence only).", " + source-derived definitions (PyLite translator) re-proved on every run"),
    "C16": (" Source-derived tie: LevyLiborModel.df, LevyForwardModel.df, the base model's df / drift and Constant.__call__ are translated from "
            "/repo's source on every run; proved on the translation: df(0) = 1, 0 < df <= 1, non-increasing, Lipschitz through every tenor, the "
            "value at T_p is the product of simple compounding factors and on (T_p, T_p+1] one further factor (the repaired compounding stays "
            "proved); Euler with the translated coefficients gives x0 + M (Y_t - Y_0).", "", " + source-derived definitions (PyLite translator) re-proved on every run"),
    "C18": (" Size regimes of the vector arguments (long strike vectors at several n, prime lengths) judged element by element.", "", ""),
    "C19": (" Second source-derived tie: the copula model's theta (whole function, d = 1..3, guards), survival probability, first-to-default "
            "spread, the CDS legs / residual of both pricers, CDS.evaluate and interval_I; proved on the translation: theta is the measure of the "
            "union of the default half-spaces (inclusion-exclusion) for every finitely additive non-negative measure, non-negative and monotone "
            "in each threshold; the fair spread equates the legs. User-defined copulas that are not symmetric functions.", "", ""),
    "C07": (" Source-derived tie: the statistics (mean, stddev, mc_stddev on the paths x components array), Statistic.add, discounting, "
            "Product.__call__ and the control-variate regression kernel with its component loop are translated from /repo's source on every run "
            "(numpy's ddof / bias keywords read from the call, sqrt and pinv as function parameters); proved on the translation: textbook price "
            "and standard error for every sample size and payoff dimension, adjusted sample = Y - b (X - prices), variance not above the raw one "
            "under the normal equations, the one-control coefficient minimises the variance.", "", " + source-derived definitions (PyLite translator) re-proved on every run"),
    "C10": (" Second source-derived tie: the cumulant classes of all five families, the constructors' triplet drift, derived parameters and the "
            "exponential models' drift / omega (43 functions); proved on the translation: cumulants are the derivatives of the Levy-Khintchine "
            "exponent and equal the translated whole-line moments of the measure classes; drift() + psi(-i) = r - d.", "", ""),
    "C12": (" Source-derived tie: volume, _mass_1d / _mass_2d / _mass_3d, the recursive _mass_nd, tail_integrals, sign and interval_I are "
            "translated from /repo's source on every run; proved on the translation: volume is the inclusion-exclusion sum for every dimension "
            "and additive under a split of any coordinate, the fast paths equal the general recursion on every rectangle not containing the "
            "origin, _mass_nd is additive for every dimension, whole-line margins, non-negativity for Clayton.", "", " + source-derived definitions (PyLite translator) re-proved on every run"),
    "C14": (" Second source-derived tie: _integer_root, the n-dimensional Pairing.pairing / projection, RosenbergStrong in n dimensions, PairingToZd, the switch "
            "methods of PairingToZ1d, the enumeration bound of StatesManager / Domain, a_n and upper_bound_a_n: round trips for every dimension on top "
            "of the 2-d bijections of the first tie, exact integer root for every float estimate, the repaired enumeration bound stays proved.", "", ""),
    "C17": (" Second source-derived tie: barrier scans and knock-in / knock-out, Asian, default-time underlyings, performances, notional "
            "(lists, loops with break): knock-in + knock-out = vanilla for every path and history, Asian between the extremes, first-passage "
            "characterisation of the default time, n-th-to-default monotone for every valid argpartition.", "", ""),
    "C20": (" User-defined subclasses of the shipped exponential models (same constructor, overriding discounting / drift) in every stream.", "", ""),
}

NOT_YET = "check not built yet in this session (planned: DESIGN.md §4); not claimed until its Lean model, theorems and correspondence exist"


def main():
    props = [json.loads(l) for l in (ROOT / "properties.jsonl").read_text().splitlines() if l.strip()]
    checks, na = [], []
    for p in props:
        pid = p["id"]
        if pid in CLAIMED:
            text, note, tech, ref = CLAIMED[pid]
            if pid in ADDENDA:
                t2, n2, k2 = ADDENDA[pid]
                text, note, tech = text + t2, note + n2, tech + k2
            if pid in ADDENDA2:
                t2, n2, k2 = ADDENDA2[pid]
                text, note = text + t2, note + n2
                if k2 and k2 not in tech:
                    tech = tech + k2
            checks.append({
                "property_id": pid,
                "quick_cmd": f"./check {pid} quick",
                "thorough_cmd": f"./check {pid} thorough",
                "evidence_file": f"/verif/evidence/{pid}.json",
                "replay_cmd_template": f"./check {pid} --replay {{path}}",
                "engine": "lean4-model+correspondence",
                "level_claimed": {"category": "proof", "text": text, "design_ref": ref},
                "level_note": note,
                "technique": tech,
            })
        else:
            na.append({"property_id": pid, "reason": NOT_YET})
    man = {
        "version": 1,
        "setup_cmd": "cd /verif/lean && lake build",
        "hooks": {"guard": "RPYLIB_VERIF", "enable": "no hooks in /repo: all instrumentation wraps the library from the harness (RPYLIB_VERIF=1 is exported by ./check and unused by /repo)",
                  "baseline_off_cmd": "cd /repo && /venv/bin/python -m pytest -ra -q -p no:cacheprovider --timeout=900 --continue-on-collection-errors",
                  "source_commits": [], "add_only": True},
        "engines": [{"name": "lean4-model+correspondence", "path": "/verif/check",
                     "serves_properties": sorted(CLAIMED),
                     "kind_free_text": "Lean 4 model + theorems (lean/), Python harness driving the real rpylib and the Lean drivers over a line protocol (harness/)"}],
        "checks": checks,
        "notes": "exit 0 = held (KNOWN-FINDING lines allowed), 1 = VIOLATION, 2 = infrastructure problem. known_findings.json lists recorded defects of the unchanged tree.",
        "not_applicable": na,
    }
    (ROOT / "MANIFEST.json").write_text(json.dumps(man, indent=1) + "\n")
    print(f"claimed {len(checks)}, not claimed {len(na)}")


if __name__ == "__main__":
    main()
