#!/usr/bin/env python3
"""Regenerates MANIFEST.json from the table below (run after adding a property's check)."""
import json
from pathlib import Path

ROOT = Path(__file__).resolve().parent.parent

# id -> (level text, level note, technique, design_ref)
CLAIMED = {
    "C13": ("Lean 4 theorems about a hand-written model of CTMCGrid.refine and the closed-form constructors "
            "(refine^k: old states at 2^k*i, inserted point = the grid's own cell boundary strictly inside the gap, strict "
            "monotonicity, length, h/2^k, origin*2^k, truncation bounds unchanged, -h/0/+h around the origin, shared-axis "
            "storage; credit axes well formed with the threshold exactly on a cell boundary), for every axis, every k and "
            "every cell-boundary function lying strictly inside its gap. Tied to /repo on every run by a correspondence check "
            "(implementation vs the model's executable definitions through a Lean driver) plus a property oracle on every "
            "constructor x model family x refinement depth.",
            "Root-searched bounds (brentq), np.linspace/geomspace and the probability-step axes are oracle-checked, not proved; "
            "float midpoints compared to the exact rational midpoint at 2^-40.",
            "Lean 4 proof (induction on the axis and on the number of refinements) + differential correspondence check",
            "DESIGN.md §4 C13"),
    "C05": ("Lean 4 theorems about a model of the bookkeeping of Engine.price / price_with_constant_mc_paths_and_level and of the "
            "zero-padded per-level sample arrays: for every scripted process, every oracle history (optimal sizes, convergence "
            "verdicts, level additions) and every initial configuration, whenever results are read each level's array is exactly the "
            "samples simulated at that level in simulation order (no placeholder counted, nothing dropped, duplicated or overwritten), "
            "N_l is their number, the price is the sum of per-level means over them and the level-0 coarse payoff is 0; negation "
            "witness for the pre-fix counter. Tied to /repo by running the real engine with a scripted coupling process and a scripted "
            "public ConvergenceCriteria on the same histories (rows compared exactly, statistics at 2^-40) plus an oracle that compares "
            "the arrays with the process's own simulation log.",
            "numpy/scipy moment kernels compared, not proved; single process (multi-process order is C08); control-variate arrays not modelled.",
            "Lean 4 proof (loop invariant by induction over the oracle history) + differential correspondence on scripted engine runs",
            "DESIGN.md §4 C05"),
    "C06": ("Lean 4 theorems: (i) over the reals, for non-negative variances and strictly positive costs the Giles allocation as coded "
            "gives sum V_l/N_l <= (1-theta) rmse^2 and N_l >= 1 where V_l > 0 (plus a field-generic version with root certificates and a "
            "witness that a zero-cost level breaks it); (ii) the budget split bias share + variance share <= 1 as a proof obligation over "
            "constants measured on the running code and regenerated before every build; (iii) on the loop model of C05: never a level "
            "above the maximum, and every return is either the stated one (1% rule met and (bias test passed or maximum level)) or the "
            "fall-through exit, with a witness that the latter is reachable. Correspondence: compute_mc_paths_giles / criteria_giles vs "
            "the model's executable definitions (exact integers on dyadic roots), real engine runs vs the loop model; oracles evaluate "
            "the budget, the level bound and the return reason on the implementation.",
            "Float sqrt/ceil not modelled (ceil boundaries excluded); regression of the rates is an oracle input; the iteration bound under bounded "
            "sizes is not proved; two recorded findings (zero-cost level, fall-through exit).",
            "Lean 4 proof (real analysis with Real.sqrt + loop invariants) + behaviour-derived generated obligation + differential correspondence",
            "DESIGN.md §4 C06"),
}

NOT_YET = "check not built yet in this session (planned: DESIGN.md §4); not claimed until its Lean model, theorems and correspondence exist"


def main():
    props = [json.loads(l) for l in (ROOT / "properties.jsonl").read_text().splitlines() if l.strip()]
    checks, na = [], []
    for p in props:
        pid = p["id"]
        if pid in CLAIMED:
            text, note, tech, ref = CLAIMED[pid]
            checks.append({
                "property_id": pid,
                "quick_cmd": f"./check {pid} quick",
                "thorough_cmd": f"./check {pid} thorough",
                "evidence_file": f"/verif/evidence/{pid}.json",
                "replay_cmd_template": f"./check {pid} --replay {{path}}",
                "engine": "lean4-model+correspondence",
                "level_claimed": {"category": "proof", "text": text, "design_ref": ref},
                "level_note": note,
                "technique": tech,
            })
        else:
            na.append({"property_id": pid, "reason": NOT_YET})
    man = {
        "version": 1,
        "setup_cmd": "cd /verif/lean && lake build",
        "hooks": {"guard": "RPYLIB_VERIF", "enable": "no hooks in /repo: all instrumentation wraps the library from the harness (RPYLIB_VERIF=1 is exported by ./check and unused by /repo)",
                  "baseline_off_cmd": "cd /repo && /venv/bin/python -m pytest -ra -q -p no:cacheprovider --timeout=900 --continue-on-collection-errors",
                  "source_commits": [], "add_only": True},
        "engines": [{"name": "lean4-model+correspondence", "path": "/verif/check",
                     "serves_properties": sorted(CLAIMED),
                     "kind_free_text": "Lean 4 model + theorems (lean/), Python harness driving the real rpylib and the Lean drivers over a line protocol (harness/)"}],
        "checks": checks,
        "notes": "exit 0 = held (KNOWN-FINDING lines allowed), 1 = VIOLATION, 2 = infrastructure problem. known_findings.json lists recorded defects of the unchanged tree.",
        "not_applicable": na,
    }
    (ROOT / "MANIFEST.json").write_text(json.dumps(man, indent=1) + "\n")
    print(f"claimed {len(checks)}, not claimed {len(na)}")


if __name__ == "__main__":
    main()
