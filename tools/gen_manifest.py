#!/usr/bin/env python3
"""Regenerates MANIFEST.json from the table below (run after adding a property's check)."""
import json
from pathlib import Path

ROOT = Path(__file__).resolve().parent.parent

# id -> (level text, level note, technique, design_ref)
CLAIMED = {
    "C13": ("Lean 4 theorems about a hand-written model of CTMCGrid.refine and the closed-form constructors "
            "(refine^k: old states at 2^k*i, inserted point = the grid's own cell boundary strictly inside the gap, strict "
            "monotonicity, length, h/2^k, origin*2^k, truncation bounds unchanged, -h/0/+h around the origin, shared-axis "
            "storage; credit axes well formed with the threshold exactly on a cell boundary), for every axis, every k and "
            "every cell-boundary function lying strictly inside its gap. Tied to /repo on every run by a correspondence check "
            "(implementation vs the model's executable definitions through a Lean driver) plus a property oracle on every "
            "constructor x model family x refinement depth.",
            "Root-searched bounds (brentq), np.linspace/geomspace and the probability-step axes are oracle-checked, not proved; "
            "float midpoints compared to the exact rational midpoint at 2^-40.",
            "Lean 4 proof (induction on the axis and on the number of refinements) + differential correspondence check",
            "DESIGN.md §4 C13"),
}

NOT_YET = "check not built yet in this session (planned: DESIGN.md §4); not claimed until its Lean model, theorems and correspondence exist"


def main():
    props = [json.loads(l) for l in (ROOT / "properties.jsonl").read_text().splitlines() if l.strip()]
    checks, na = [], []
    for p in props:
        pid = p["id"]
        if pid in CLAIMED:
            text, note, tech, ref = CLAIMED[pid]
            checks.append({
                "property_id": pid,
                "quick_cmd": f"./check {pid} quick",
                "thorough_cmd": f"./check {pid} thorough",
                "evidence_file": f"/verif/evidence/{pid}.json",
                "replay_cmd_template": f"./check {pid} --replay {{path}}",
                "engine": "lean4-model+correspondence",
                "level_claimed": {"category": "proof", "text": text, "design_ref": ref},
                "level_note": note,
                "technique": tech,
            })
        else:
            na.append({"property_id": pid, "reason": NOT_YET})
    man = {
        "version": 1,
        "setup_cmd": "cd /verif/lean && lake build",
        "hooks": {"guard": "RPYLIB_VERIF", "enable": "no hooks in /repo: all instrumentation wraps the library from the harness (RPYLIB_VERIF=1 is exported by ./check and unused by /repo)",
                  "baseline_off_cmd": "cd /repo && /venv/bin/python -m pytest -ra -q -p no:cacheprovider --timeout=900 --continue-on-collection-errors",
                  "source_commits": [], "add_only": True},
        "engines": [{"name": "lean4-model+correspondence", "path": "/verif/check",
                     "serves_properties": sorted(CLAIMED),
                     "kind_free_text": "Lean 4 model + theorems (lean/), Python harness driving the real rpylib and the Lean drivers over a line protocol (harness/)"}],
        "checks": checks,
        "notes": "exit 0 = held (KNOWN-FINDING lines allowed), 1 = VIOLATION, 2 = infrastructure problem. known_findings.json lists recorded defects of the unchanged tree.",
        "not_applicable": na,
    }
    (ROOT / "MANIFEST.json").write_text(json.dumps(man, indent=1) + "\n")
    print(f"claimed {len(checks)}, not claimed {len(na)}")


if __name__ == "__main__":
    main()
