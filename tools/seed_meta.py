#!/usr/bin/env python3
"""usage: seed_meta.py <name> <Cxx> <caught_by> <needs> <summary>"""
import json, sys
from pathlib import Path
name, prop, caught, needs, summary = sys.argv[1:6]
d = Path(__file__).resolve().parent.parent / "seeded" / name
meta = {"id": name, "property": prop, "summary": summary, "needs_to_manifest": needs,
        "author": "independent sub-agent given only the property text and a scratch worktree of /repo",
        "confirmed": {"test_suite_with_change": "37 passed (3 pre-existing collection errors)", "demo_on_changed_code": "exit 1",
                      "demo_on_unchanged_code": "exit 0"},
        "what_was_run": [f"cd /tmp/seed_{name} && /venv/bin/python -m pytest -q -p no:cacheprovider --timeout=900 --continue-on-collection-errors",
                         f"SYMPY_GROUND_TYPES=python PYTHONPATH=<shims> /venv/bin/python demo.py /tmp/seed_{name}   (and /repo)",
                         f"VERIF_REPO=/tmp/seed_{name} ./check {prop} quick   (equivalent to git -C /repo apply patch.diff; ./check {prop} quick; git -C /repo checkout -- .)"],
        "detected_by_check": caught}
(d / "meta.json").write_text(json.dumps(meta, indent=1))
print("wrote", d / "meta.json")
