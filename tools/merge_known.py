#!/usr/bin/env python3
"""merge known_findings.d/<Cxx>.json (written while a check was developed) into the single committed known_findings.json"""
import json, sys
from pathlib import Path
ROOT = Path(__file__).resolve().parent.parent
main = ROOT / "known_findings.json"
d = json.loads(main.read_text())
ids = {f["id"] for f in d["findings"]}
for prop in sys.argv[1:]:
    f = ROOT / "known_findings.d" / f"{prop}.json"
    if not f.exists():
        print("no file for", prop); continue
    for e in json.loads(f.read_text()).get("findings", []):
        if e["id"] not in ids:
            d["findings"].append(e); ids.add(e["id"]); print("merged", e["id"])
    f.unlink()
main.write_text(json.dumps(d, indent=1))
