#!/bin/bash
# usage: tools/retest_seed.sh <name e.g. C06-c> [tier] [property-override]
# applies seeded/<name>/patch.diff to a scratch worktree of /repo's HEAD, runs the check of its property against it, removes the worktree.
name=$1; tier=${2:-quick}; prop=${3:-${name%%-*}}
wt=/tmp/reseed_$name
git -C /repo worktree add -q --detach $wt HEAD || exit 2
if ! git -C $wt apply /verif/seeded/$name/patch.diff 2>/dev/null; then
  if ! git -C $wt apply -3 /verif/seeded/$name/patch.diff 2>/dev/null; then echo "$name: PATCH-DOES-NOT-APPLY"; git -C /repo worktree remove --force $wt; exit 3; fi
fi
out=$(VERIF_REPO=$wt /verif/check $prop $tier 2>&1 | grep -v "^WARNING" | grep -v "^KNOWN")
nviol=$(echo "$out" | grep -c "^VIOLATION")
probes=$(echo "$out" | grep "^VIOLATION" | sed -E 's/.*replay\/[A-Z0-9]+-(.*)-[0-9]+\.json.*/\1/' | sort -u | tr '\n' ' ')
nofail=$(echo "$out" | grep -c "no-failing-input-found")
echo "$name [$prop $tier]: $(echo "$out" | tail -1 | sed 's/.*violations/violations/') | probes: $probes$( [ $nofail -gt 0 ] && echo ' (tie only)')"
git -C /repo worktree remove --force $wt
