#!/bin/bash
# usage: tools/seed_setup.sh <Cxx> <letter>  — scratch worktree + demo dir for an independent seeding agent; prints the prompt to give it
prop=$1; let=$2; name=$prop-$let
wt=/tmp/seed_$name; demo=/tmp/seed_${name}_demo
git -C /repo worktree add -q --detach $wt HEAD || exit 1
mkdir -p $demo; cp -r /verif/shims $demo/shims
python3 - "$prop" "$wt" "$demo" <<'PY'
import json, sys
prop, wt, demo = sys.argv[1:4]
p = next(json.loads(l) for l in open('/verif/properties.jsonl') if json.loads(l)['id'] == prop)
print(f"""You are helping test a verification harness for the Python library rpylib (multilevel Monte-Carlo pricing of Levy-driven SDEs via continuous-time Markov chain approximation, Levy copulas, COS pricing). Your job: write ONE realistic regression (a source change a developer could plausibly make: a refactor gone subtly wrong, an 'optimisation', a caching change, an off-by-one, a swapped argument, a sign, a wrong branch for an edge case, two cooperating sites that each look fine alone) that BREAKS the property below while the library still imports and its existing test-suite still passes.

PROPERTY {p['id']} — {p['title']}
Statement: {p['statement']}
Quantifier: {json.dumps(p['quantifier'])}
Anchors (where the behaviour lives): {json.dumps(p['anchors'])}

Your working copy: {wt}  (a scratch git worktree of the repository at its current HEAD; edit files ONLY there; never touch /repo or /verif, do not read anything under /verif).
Your scratch dir for the demonstration: {demo}  (contains shims/ with stand-ins for the two third-party packages missing offline, gmpy2 and tqdm).

Environment facts: interpreter /venv/bin/python (3.12, numpy 2.5, scipy 1.18). To import most of rpylib you must run with  SYMPY_GROUND_TYPES=python PYTHONPATH={demo}/shims  (and put the checkout first on sys.path, see below). No network. Existing test-suite: cd {wt} && env -u PYTHONPATH /venv/bin/python -m pytest -q -p no:cacheprovider --timeout=900 --continue-on-collection-errors   → must still report 37 passed (3 collection errors are pre-existing and expected).

Requirements for the change:
 * It must need something SPECIFIC to manifest — a particular multi-step sequence of operations, an unusual-but-legal input or configuration (edge of a parameter range, unequal sizes, second call on the same object, a specific level/refinement depth, a specific sampler or grid constructor, several product dates, a vector payoff, ...), or two cooperating edits — NOT something any ordinary use would expose at once. Prefer subtle semantic changes (few lines) over crashes. It must be a real violation of the property statement as written, not merely a different-but-still-correct behaviour.
 * Do not modify or add tests in the checkout; do not change anything unrelated. Never use `git stash` (the stash is shared by all worktrees of the repository and other people work in sibling worktrees); to compare with the baseline run things against /repo instead.
 * Keep the diff small (typically 1-15 lines).

Deliverables:
 1. The edit applied in {wt} (leave it uncommitted so that `git -C {wt} diff` shows it).
 2. {demo}/demo.py — a self-contained program `demo.py <path-to-rpylib-checkout>` that does sys.path.insert(0, sys.argv[1]) first, then imports rpylib, exercises the PUBLIC behaviour the property speaks about, and exits 0 if the property holds, 1 if it is broken (print what it saw). It must exit 1 on {wt} and exit 0 on /repo:  
      SYMPY_GROUND_TYPES=python PYTHONPATH={demo}/shims /venv/bin/python {demo}/demo.py {wt}   → exit 1  
      SYMPY_GROUND_TYPES=python PYTHONPATH={demo}/shims /venv/bin/python {demo}/demo.py /repo   → exit 0  
    The demo must run in under 2 minutes and be deterministic (seed anything random).
 3. Run the test-suite in {wt} and both demo commands yourself and confirm the three outcomes.
 4. Final answer: a short report — the diff, what exactly is needed for the change to manifest, why ordinary use would not notice, and the three outcomes you observed.
""")
PY
