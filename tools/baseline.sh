#!/bin/bash
# runs the repository's pinned baseline (guard off: no RPYLIB_VERIF, no shims) and prints the pass count (expected: 37 passed)
cd /repo && env -u RPYLIB_VERIF -u PYTHONPATH /venv/bin/python -m pytest -ra -q -p no:cacheprovider --timeout=900 --continue-on-collection-errors 2>&1 | tail -3
