#!/bin/bash
# usage: tools/harmless_setup.sh <Cxx> <letter>  — scratch worktree for an independent agent asked for a PROPERTY-PRESERVING refactor
prop=$1; let=$2; name=$prop-h$let
wt=/tmp/harm_$name; demo=/tmp/harm_${name}_demo
git -C /repo worktree add -q --detach $wt HEAD || exit 1
mkdir -p $demo; cp -r /verif/shims $demo/shims
python3 - "$prop" "$wt" "$demo" <<'PY'
import json, sys
prop, wt, demo = sys.argv[1:4]
p = next(json.loads(l) for l in open('/verif/properties.jsonl') if json.loads(l)['id'] == prop)
print(f"""You are helping test a verification harness for the Python library rpylib (multilevel Monte-Carlo pricing of Levy-driven SDEs via continuous-time Markov chain approximation, Levy copulas, COS pricing). The harness must NOT raise an alarm on code that still satisfies a property. Your job: make ONE realistic, NON-TRIVIAL refactoring of the code the property below is anchored in that PRESERVES the property (and the public behaviour a user relies on) — the kind of change a maintainer would merge: restructuring a function, vectorising a loop correctly, replacing an algorithm or a data structure by an equivalent one, correct caching with correct invalidation, reordering independent statements, renaming internals, splitting or merging helpers, changing an internal representation (e.g. another but equally valid table layout, another enumeration order where the order is not part of the contract, another but equivalent factorisation or root finder), simplifying arithmetic to an algebraically equal form. It should touch the mechanism the property talks about (not only comments or formatting), be 10-60 changed lines, and must not change any public signature.

PROPERTY {p['id']} — {p['title']}
Statement: {p['statement']}
Quantifier: {json.dumps(p['quantifier'])}
Anchors (where the behaviour lives): {json.dumps(p['anchors'])}

Your working copy: {wt}  (a scratch git worktree of the repository at its current HEAD; edit files ONLY there; never touch /repo or /verif, do not read anything under /verif).
Your scratch dir: {demo}  (contains shims/ with stand-ins for the two third-party packages missing offline, gmpy2 and tqdm).

Environment facts: interpreter /venv/bin/python (3.12, numpy 2.5, scipy 1.18). To import most of rpylib you must run with  SYMPY_GROUND_TYPES=python PYTHONPATH={demo}/shims  (and put the checkout first on sys.path). No network. Existing test-suite: cd {wt} && env -u PYTHONPATH /venv/bin/python -m pytest -q -p no:cacheprovider --timeout=900 --continue-on-collection-errors   → must still report 37 passed (3 collection errors are pre-existing and expected). Never use `git stash`.

Deliverables:
 1. The edit applied in {wt} (leave it uncommitted so that `git -C {wt} diff` shows it).
 2. {demo}/demo.py — a self-contained program `demo.py <path-to-rpylib-checkout>` (sys.path.insert(0, sys.argv[1]) first) that exercises the PUBLIC behaviour the property speaks about on a good variety of inputs / configurations / operation sequences and exits 0 if the property holds, 1 if not. It must exit 0 on BOTH {wt} and /repo (run: SYMPY_GROUND_TYPES=python PYTHONPATH={demo}/shims /venv/bin/python {demo}/demo.py <checkout>). Under 2 minutes, deterministic.
 3. Run the test-suite in {wt} and both demo commands yourself and confirm.
 4. Final answer: a short report — the diff, why the property is preserved (be rigorous: argue it, do not only test it), and which observable-but-unconstrained details changed (e.g. internal table contents, order of internal calls, number or order of random draws, floating-point rounding in the last bits, exception types for invalid inputs), if any.
""")
PY
