#!/usr/bin/env python3
"""usage: tools/stage_src.py Cxx [Cyy ...] — stage the source-tie files of the finished properties and a version of
lean/RpylibModel.lean that imports only modules which are tracked or staged (other builders' modules stay out)."""
import subprocess, sys, re, pathlib
root = pathlib.Path(__file__).resolve().parent.parent
def git(*a, **k):
    return subprocess.run(["git", *a], cwd=root, capture_output=True, text=True, **k)
for p in sys.argv[1:]:
    pats = [f"harness/srcspec/{p}.py", f"lean/Audit/{p}Src.lean", f"lean/Audit/{p}SrcModel.lean",
            f"lean/RpylibModel/Generated/Src{p}.lean", f"lean/RpylibModel/Generated/baseline/Src{p}.lean",
            f"lean/RpylibModel/ProofsGen/Src{p}.lean", f"lean/RpylibModel/ProofsGen/Src{p}Model.lean",
            f"lean/Audit/{p}Srcb.lean", f"lean/RpylibModel/Generated/Src{p}b.lean", f"lean/RpylibModel/Generated/baseline/Src{p}b.lean",
            f"lean/RpylibModel/ProofsGen/Src{p}b.lean"]
    pats += [str(f.relative_to(root)) for f in (root / "lean/RpylibModel/Lemmas").glob(f"Src{p}*.lean")]
    for f in pats:
        if (root / f).exists():
            git("add", f)
tracked = set(git("ls-files", "lean/RpylibModel").stdout.split())
cur = (root / "lean/RpylibModel.lean").read_text().split("\n")
keep = []
for l in cur:
    m = re.match(r"import (RpylibModel\.[\w.]+)", l)
    if m and ("lean/" + m.group(1).replace(".", "/") + ".lean") not in tracked:
        continue
    keep.append(l)
blob = subprocess.run(["git", "hash-object", "-w", "--stdin"], cwd=root, input="\n".join(keep), capture_output=True, text=True).stdout.strip()
git("update-index", "--cacheinfo", f"100644,{blob},lean/RpylibModel.lean")
print("staged; imports left out:", [l for l in cur if l not in keep])
