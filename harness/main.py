"""./check <Cxx> <quick|thorough> | ./check <Cxx> --replay <file>      (see DESIGN.md §1.6, §5)"""
from __future__ import annotations

import importlib
import json
import os
import shutil
import sys
import time
import traceback

from . import common as cm

if hasattr(sys, "set_int_max_str_digits"):
    # indices of the Pepis-Kalmar pairing and the exact rationals of high moment orders have thousands of digits: the
    # interpreter's limit on int <-> str conversion would turn a probe's message into a ValueError inside the harness
    sys.set_int_max_str_digits(0)
from . import srctie
from .common import Ctx, Infra

TRUSTED_BASE = [
    "Lean 4.33.0 kernel; Mathlib v4.33.0 as compiled under /opt/veriftools; axioms propext, Classical.choice, Quot.sound only",
    "hand-written Lean model tied to /repo by the correspondence check of this run (differential testing; reach bounded by its generators)",
    "shims gmpy2.qdiv := fractions.Fraction and tqdm := identity (needed to import rpylib offline)",
    "float rounding, NumPy/SciPy kernels, special functions, the random generators and OS scheduling are modelled, not verified",
]


def emit_violation(ctx, f, idx, suffix=""):
    rp = cm.WORK / "replay"
    rp.mkdir(parents=True, exist_ok=True)
    path = rp / f"{ctx.prop}-{f['probe'].replace('/', '_')}-{idx}.json"
    rec = {"property": ctx.prop, "probe": f["probe"], "kind": f["kind"], "input": f["input"], "detail": f["detail"],
           "cls": f["cls"], "seed": ctx.seed, "tier": ctx.tier,
           "how_to_replay": f"./check {ctx.prop} --replay {path}"}
    if f["kind"] != "oracle":
        rec["no_longer_checks"] = f["detail"].get("name", f["probe"]) if isinstance(f["detail"], dict) else f["probe"]
    path.write_text(json.dumps(rec, indent=1, default=str))
    print(f"VIOLATION property={ctx.prop} replay={path}{suffix}", flush=True)


TieUnavailable = cm.TieUnavailable


def make_resilient(mod, ctx):
    """A correspondence probe may look at private tables of the implementation (alias tables, memo deques, name-mangled
    methods) in order to compare them with the model.  When a refactoring renames or removes such a private name the probe
    cannot run: that is `tie unavailable` for this probe (noted in the evidence, boosted budget for the rest), never an
    infrastructure error and never a verdict about the property.  Only an AttributeError / ImportError raised BY A HARNESS
    FRAME about a name starting with one underscore is treated this way; anything raised inside rpylib is left alone."""
    import functools
    import inspect
    import re
    import types
    depth = {"n": 0}
    here = os.path.dirname(os.path.abspath(__file__))

    is_private_miss = cm.private_miss

    def wrap(name, fn):
        @functools.wraps(fn)
        def inner(*a, **k):
            depth["n"] += 1
            try:
                return fn(*a, **k)
            except TieUnavailable:
                if depth["n"] > 1:
                    raise
                return None
            except (AttributeError, ImportError) as e:
                priv = is_private_miss(e)
                if priv is None:
                    raise
                msg = f"tie unavailable: probe {mod.__name__.split('.')[-1]}.{name} needs the private name {priv}, which this tree does not have"
                if msg not in ctx.notes:
                    ctx.notes.append(msg)
                ctx.branches[f"tie_unavailable:{name}"] += 1
                if not ctx.thorough and os.environ.get("VERIF_NO_BOOST") != "1":
                    ctx.boost = True
                if depth["n"] > 1:
                    raise TieUnavailable(msg) from None
                return None
            except (Infra, MemoryError, AssertionError):
                raise
            except Exception as e:  # noqa
                # safety net: an exception raised INSIDE the implementation (innermost frame outside the harness) on an input a
                # probe did not guard.  Probes only feed legal inputs and handle the rejections the library documents, so this
                # is recorded like `Ctx.guard` does — an oracle failure `<probe>.escaped_exception`, replayed by re-running the
                # run with the recorded seed — instead of ending the whole check as an infrastructure error (exit 2), which
                # would hide the violation that caused it (found with a sign flip in CTMCGrid.middle: RecursionError in CGMY).
                tb = e.__traceback__
                last = None
                while tb is not None:
                    last = tb
                    tb = tb.tb_next
                fname = os.path.abspath(last.tb_frame.f_code.co_filename) if last is not None else here
                if depth["n"] > 1:
                    raise
                if fname.startswith(here):
                    # raised by a harness frame.  On the validated tree that is a defect of the harness (exit 2).  On a tree that
                    # differs from the validated one it almost always means that the implementation handed the probe something of
                    # another shape / type than the validated code does and the probe could not evaluate it: the correspondence of
                    # this probe is broken - reported as such (a tie failure, so the run goes on to search for a failing input)
                    # instead of ending the whole check as an infrastructure error.
                    if not getattr(ctx, "changed_files", None) or not isinstance(
                            e, (IndexError, KeyError, ValueError, TypeError, ZeroDivisionError, AttributeError, OverflowError)):
                        raise
                    import traceback as _tb
                    ctx.fail("corr", f"{mod.__name__.split('.')[-1]}.{name}.harness_exception",
                             {"probe": name, "seed": ctx.seed, "tier": "thorough" if ctx.thorough else "quick"},
                             {"name": f"probe {name} could not be evaluated on this tree", "exception": f"{type(e).__name__}: {e}"[:400],
                              "where": f"{fname}:{last.tb_lineno}", "traceback_tail": _tb.format_exception(type(e), e, e.__traceback__)[-4:]})
                    return None
                import traceback as _tb
                ctx.fail("oracle", f"{mod.__name__.split('.')[-1]}.{name}.escaped_exception",
                         {"probe": name, "seed": ctx.seed, "tier": "thorough" if ctx.thorough else "quick"},
                         {"what": "the implementation raised on an input of this probe", "exception": f"{type(e).__name__}: {e}"[:400],
                          "where": f"{fname}:{last.tb_lineno}", "traceback_tail": _tb.format_exception(type(e), e, e.__traceback__)[-6:]},
                         cls={"exception": type(e).__name__})
                return None
            finally:
                depth["n"] -= 1
        return inner

    for name, fn in list(vars(mod).items()):
        if isinstance(fn, types.FunctionType) and fn.__module__ == mod.__name__ \
                and name not in ("run", "replay", "search", "generate_lean", "measure"):
            try:
                params = list(inspect.signature(fn).parameters)
            except (TypeError, ValueError):
                continue
            if params and params[0] == "ctx":
                setattr(mod, name, wrap(name, fn))


def main(argv):
    if len(argv) < 2:
        print(__doc__)
        return 2
    prop = argv[0].upper()
    replay = None
    if argv[1] == "--replay":
        replay = argv[2]
        tier = os.environ.get("VERIF_TIER", "quick")
    else:
        tier = argv[1]
    if tier not in ("quick", "thorough"):
        print(__doc__)
        return 2
    seed = int(os.environ.get("VERIF_SEED", "0"))
    t0 = time.time()
    shutil.rmtree(cm.WORK / prop, ignore_errors=True)
    if argv[1] != "--replay":
        for old in (cm.WORK / "replay").glob(f"{prop}-*.json"):
            old.unlink()
    ctx = Ctx(prop, tier, seed)
    # wall-clock limit: a change that makes the implementation recurse or loop without end must not hang the check (seen with a
    # mutant of LevyCopulaModel._mass_nd: every call ran into RecursionError after exponentially many frames).  Exceeding the limit
    # is an infrastructure outcome (exit 2), never a verdict.  Quick runs take 10-150 s, thorough runs up to ~40 min.
    import signal
    limit = int(os.environ.get("VERIF_WALL_LIMIT", "14400" if tier == "thorough" else "2400"))

    def _too_long(signum, frame):
        signal.alarm(20)          # a probe may swallow the exception with a broad `except`: keep firing until it gets out
        raise Infra(f"wall-clock limit of {limit} s exceeded (VERIF_WALL_LIMIT)")
    if hasattr(signal, "SIGALRM") and limit > 0:
        signal.signal(signal.SIGALRM, _too_long)
        signal.alarm(limit)
    try:
        mod = importlib.import_module(f"harness.props.{prop.lower()}")
    except ModuleNotFoundError as e:
        print(f"no harness for {prop}: {e}")
        return 2
    make_resilient(mod, ctx)
    evidence_path = cm.EVIDENCE / f"{prop}.json"
    cm.EVIDENCE.mkdir(parents=True, exist_ok=True)

    # ---- 1. build model + proofs (+ generated obligations) ------------------------------------------------------
    gen_info = None
    src_info, src_state = None, "none"
    try:
        if prop in srctie.SPEC:
            # source-derived definitions: translated from the text of /repo's current working tree (DESIGN.md §9)
            src_info = srctie.generate(prop, cm.repo_root())
        if hasattr(mod, "generate_lean"):
            # behaviour-derived constants are measured on the running implementation and written before the build
            gen_info = mod.generate_lean(ctx)
        targets = getattr(mod, "LEAN_TARGETS", [f"RpylibModel.Proofs.{prop}"])
        ok, out, bt = cm.lean_build(targets)
        gen_targets = getattr(mod, "LEAN_GEN_TARGETS", [])
        gen_ok, gen_out = True, ""
        if ok and gen_targets:
            gen_ok, gen_out, bt2 = cm.lean_build(gen_targets)
            bt += bt2
        if not ok:
            print(out[-4000:])
            raise Infra("lake build of the hand-written model/proofs failed (independent of /repo)")
        if not gen_ok:
            ctx.fail("proof", f"{prop.lower()}.generated_obligation", gen_info,
                     {"name": ",".join(gen_targets), "lake_output": gen_out[-3000:]})
        if src_info:
            s_ok, s_out, bt3 = cm.lean_build([src_info["lean_target"]] + list(src_info.get("extra_targets", [])))
            bt += bt3
            if src_info["unavailable"]:
                # some listed function is outside the translatable subset (or moved): that part of the source tie is not
                # available for this tree; the behavioural correspondence still ties the model to the code -> boosted budget
                src_state = "unavailable"
                ctx.notes.append("source tie unavailable for: " + "; ".join(f"{q}: {r}" for q, r in src_info["unavailable"].items()))
            elif s_ok:
                src_state = "holds"
            else:
                # the source translates but an obligation about the translated definitions no longer checks: a broken proof
                src_state = "broken"
                bad = sorted(set(__import__("re").findall(r"error: [^\n]*?(RpylibModel/ProofsGen/[^:]+:\d+)", s_out)))
                ctx.fail("proof", f"{prop.lower()}.source_tie", {"functions": src_info["functions"], "file": src_info["file"]},
                         {"name": src_info["lean_target"] + " (" + ", ".join(bad[:6]) + ")", "lake_output": s_out[-3000:]})
            src_align = None
            if src_info.get("align_target") and src_state == "holds":
                a_ok, a_out, bt4 = cm.lean_build([src_info["align_target"]])
                bt += bt4
                src_align = "holds" if a_ok else "lost"
                if not a_ok:
                    ctx.notes.append("alignment lost: the translated source no longer equals the hand-written model syntactically-"
                                     "provably (" + src_info["align_target"] + "); the correspondence decides")
            src_info["alignment"] = src_align
            if (src_state != "holds" or src_align == "lost") and not ctx.thorough and os.environ.get("VERIF_NO_BOOST") != "1":
                ctx.boost = True

        # ---- 2. audit -----------------------------------------------------------------------------------------------
        wanted, thms, raw, rc = cm.lean_audit(prop)
        if gen_targets and gen_ok and (cm.LEAN_DIR / "Audit" / f"{prop}Gen.lean").exists():
            w2, t2, raw2, rc2 = cm.lean_audit(prop, suffix="Gen")
            wanted, raw, rc = wanted + w2, raw + raw2, rc or rc2
            thms.update(t2)
        src_wanted = []
        if src_info and (cm.LEAN_DIR / "Audit" / f"{prop}Src.lean").exists():
            if src_state == "holds":
                w3, t3, raw3, rc3 = cm.lean_audit(prop, suffix="Src")
                wanted, raw, rc = wanted + w3, raw + raw3, rc or rc3
                thms.update(t3)
                for suf in src_info.get("extra_audits", []):
                    if (cm.LEAN_DIR / "Audit" / f"{prop}{suf}.lean").exists():
                        w5, t5, raw5, rc5 = cm.lean_audit(prop, suffix=suf)
                        wanted, raw, rc = wanted + w5, raw + raw5, rc or rc5
                        thms.update(t5)
                if src_info.get("alignment") == "holds" and (cm.LEAN_DIR / "Audit" / f"{prop}SrcModel.lean").exists():
                    w4, t4, raw4, rc4 = cm.lean_audit(prop, suffix="SrcModel")
                    wanted, raw, rc = wanted + w4, raw + raw4, rc or rc4
                    thms.update(t4)
            else:
                src_wanted = __import__("re").findall(r"^#print axioms\s+(\S+)", (cm.LEAN_DIR / "Audit" / f"{prop}Src.lean").read_text(),
                                                       flags=__import__("re").M)
                for suf in src_info.get("extra_audits", []):
                    fa = cm.LEAN_DIR / "Audit" / f"{prop}{suf}.lean"
                    if fa.exists():
                        src_wanted += __import__("re").findall(r"^#print axioms\s+(\S+)", fa.read_text(), flags=__import__("re").M)
        bad_axioms = {t: a for t, a in thms.items() if not set(a) <= cm.STD_AXIOMS}
        missing = [t for t in wanted if t not in thms]
        hits = cm.forbidden_hits()
        if missing or bad_axioms or hits or rc != 0:
            print(raw[-3000:])
            raise Infra(f"audit failed: missing={missing} bad_axioms={bad_axioms} forbidden={hits[:5]} rc={rc}")
        obligations = len(wanted) + (0 if gen_ok else len(gen_targets)) + len(src_wanted)
        discharged = len([t for t in wanted if t in thms])
        if tier == "thorough" and getattr(mod, "LEANCHECKER", True):
            chk = list(targets)
            if src_info and src_state == "holds":
                # the obligations about the translated source (and the alignment) are re-checked too
                chk += [src_info["lean_target"]] + list(src_info.get("extra_targets", []))
                if src_info.get("alignment") == "holds" and src_info.get("align_target"):
                    chk.append(src_info["align_target"])
            r = cm._run(["lake", "env", "leanchecker", *chk], cm.LEAN_DIR, 3000)
            if r.returncode != 0:
                print(r.stdout[-3000:])
                raise Infra("leanchecker rejected the compiled proofs")
            ctx.notes.append("leanchecker re-checked: " + " ".join(chk))

        # ---- 3. corpus, then generated inputs ----------------------------------------------------------------------
        if replay:
            rec = json.loads(open(replay).read())
            if ".src.search" in rec.get("probe", "") or rec.get("probe", "").endswith(".source_tie"):
                srctie.search(prop, ctx)      # the directed search of the source tie is deterministic: re-run it
            elif rec.get("probe", "").endswith(".escaped_exception"):
                import random as _random      # no single input was isolated: the run with the recorded seed is the replay
                ctx.seed = int(rec.get("input", {}).get("seed", ctx.seed))
                ctx.rng = _random.Random(f"{prop}:{ctx.seed}")
                mod.run(ctx)
            else:
                mod.replay(ctx, rec)
        else:
            cdir = cm.CORPUS / prop
            if cdir.exists() and hasattr(mod, "replay"):
                for f in sorted(cdir.glob("*.json")):
                    mod.replay(ctx, json.loads(f.read_text()))
                    ctx.branches["corpus"] += 1
            mod.run(ctx)
            if src_state == "broken":
                # an obligation about the translated source no longer checks: directed search on the implementation
                srctie.search(prop, ctx)
            # broken tie but no failing input yet: extended search on the implementation
            if any(f["kind"] != "oracle" for f in ctx.failures) and not any(
                    f["kind"] == "oracle" and not any(cm.match_known(k, f) for k in ctx.known) for f in ctx.failures):
                if hasattr(mod, "search"):
                    mod.search(ctx)
    except Infra as e:
        print(f"INFRA: {e}")
        ctx.close()
        return 2
    except Exception:
        traceback.print_exc()
        print("INFRA: unexpected exception in the harness")
        ctx.close()
        return 2
    ctx.close()
    if os.environ.get("VERIF_REPO") and src_info:
        # a mutation experiment on a scratch checkout has rewritten the tracked Generated/Src<prop>.lean: put back /repo's own
        try:
            srctie.generate(prop, "/repo")
        except Exception:
            pass
    if os.environ.get("VERIF_REPO") and hasattr(mod, "generate_lean"):
        # ... and the behaviour-derived file measured on the scratch checkout: back to the committed measurement of /repo
        try:
            import subprocess as _sp
            _sp.run(["git", "checkout", "--", f"lean/RpylibModel/Generated/{prop}.lean"], cwd=str(cm.ROOT), capture_output=True, timeout=60)
        except Exception:
            pass

    # ---- 4. classification ------------------------------------------------------------------------------------------
    unknown_oracle, tie = [], []
    for f in ctx.failures:
        if f["kind"] == "oracle":
            ks = [k for k in ctx.known if cm.match_known(k, f)]
            if ks:
                ctx.known_hits[ks[0]["id"]] = ctx.known_hits.get(ks[0]["id"], 0) + 1
            else:
                unknown_oracle.append(f)
        else:
            tie.append(f)
    for k in ctx.known:
        if k["id"] in ctx.known_hits:
            print(f"KNOWN-FINDING: property={prop} {k['id']}: {k['what']} (hit {ctx.known_hits[k['id']]}x)")
    nviol = 0
    seen = {}
    for f in unknown_oracle:
        seen[f["probe"]] = seen.get(f["probe"], 0) + 1
        if seen[f["probe"]] <= 3:
            emit_violation(ctx, f, seen[f["probe"]])
        nviol += 1
    if not unknown_oracle:
        for f in tie:
            seen[f["probe"]] = seen.get(f["probe"], 0) + 1
            if seen[f["probe"]] <= 3:
                emit_violation(ctx, f, seen[f["probe"]], suffix=" no-failing-input-found")
            nviol += 1
    else:
        nviol += len(tie)

    # ---- 5. evidence ------------------------------------------------------------------------------------------------
    ev = {
        "property_id": prop, "tier": tier, "seed": seed, "level": "proof",
        "coverage": {
            "obligations": obligations, "discharged": discharged,
            "checker_cmd": f"cd lean && lake build {' '.join(targets + gen_targets)} && lake env lean Audit/{prop}.lean"
                           + (" && lake env leanchecker " + " ".join(targets) if tier == "thorough" else ""),
            "trusted_base": TRUSTED_BASE + list(getattr(mod, "TRUSTED", [])),
            "theorems": wanted,
            "axioms_used": sorted({a for t in wanted for a in thms.get(t, [])}),
            "not_proved": list(getattr(mod, "NOT_PROVED", [])),
            "evaluations": ctx.evaluations,
            "distinct_nontrivial": len(ctx._distinct),
            "rule": getattr(mod, "RULE", ""),
            "samples": ctx.samples or [{"note": "no generated inputs"}],
            "input_distribution": dict(ctx.branches),
            "tolerance": "2^-40 relative to the cancellation-aware scale unless the probe says exact",
            "excluded_small_decision_margin": ctx.excluded_small_margin,
            "known_findings_hit": ctx.known_hits,
            "generated_constants": gen_info,
            "source_derived": None if not src_info else {
                "state": src_state, "translator": "harness/py2lean.py (PyLite subset) driven by harness/srctie.py",
                "generated_file": src_info["file"], "obligations_target": src_info["lean_target"],
                "alignment_with_hand_model": src_info.get("alignment"), "alignment_target": src_info.get("align_target"),
                "functions": src_info["functions"]},
            "source_tie": {"models_validated_against_repo_commit": ctx.validated_commit,
                           "files_differing_from_that_record": ctx.changed_files,
                           "budget": f"quick x{cm.BOOST} (tree differs from the validated record)" if ctx.boost else tier},
            "correspondence_failures": len(tie), "oracle_failures": len(unknown_oracle),
            "notes": ctx.notes,
        },
        "assumptions": list(getattr(mod, "ASSUMPTIONS", [])),
        "wall_s": round(time.time() - t0, 2),
        "violations": nviol,
    }
    if not replay:
        evidence_path.write_text(json.dumps(ev, indent=1, default=str))
    print(f"{prop} {tier} seed={seed}: theorems {discharged}/{obligations}, evaluations {ctx.evaluations}, "
          f"distinct {len(ctx._distinct)}, known {sum(ctx.known_hits.values())}, violations {nviol}, "
          f"{ev['wall_s']}s")
    return 1 if nviol else 0


if __name__ == "__main__":
    sys.exit(main(sys.argv[1:]))
