"""C07 — Standard Monte-Carlo price, error and control-variate adjustment are textbook (DESIGN.md §4 C07)."""
from __future__ import annotations

import math
import numpy as np

from .. import fake_engine as fe
from ..common import w, wl, rd, rdl, rdll, close, fr
from ..common import wll as cm_wll

RULE = ("the real standard Engine.price driven by a scripted process with prescribed dyadic terminal values: 2..200 paths, scalar and "
        "vector strikes (payoff dimension 1..3), call/put/forward payoffs, notionals, discount factors, 0..3 control variates "
        "(forwards/calls with their own notionals; scalar-valued controls broadcast to all components or vector-valued controls with one "
        "strike per component; scalar or per-component prices, exact or perturbed), spot statistics on/off; directed: constant control, "
        "constant payoff, two paths, collinear controls (singular covariance matrix: pseudo-inverse path) for scalar and vector payoffs, "
        "vector identity. non-trivial = at least 3 paths with non-constant payoff; distinct = distinct (paths, product, controls)")
NOT_PROVED = ["k >= 3 controls: the variance inequality is proved for coefficients solving the normal equations "
              "(cv_var_le_raw_normal_equations); that numpy.linalg.pinv returns such coefficients is oracle-checked (residual), not proved. "
              "For k <= 2 the kernel as coded (guard on every entry of Sigma_X, inverse, pseudo-inverse when singular) is modelled exactly and "
              "proved to solve the normal equations in every branch (kernel2_normal_equations, cv_var_le_raw_vec)",
              "np.cov / np.linalg.pinv kernels are compared with the model's exact rational formulas, not proved"]
ASSUMPTIONS = ["standard errors are compared as squares",
               "two controls: inputs whose covariance matrix is nearly but not exactly singular (cond > 1e10 with non-zero exact determinant) or "
               "has an entry within a factor 10 of the 1e-12 guard are don't-care points of the float pseudo-inverse / guard (excluded, counted); "
               "tolerance 2^-40 relative to a scale that grows with cond(Sigma_X)/1e3 in the regular branch"]
TRUSTED = ["numpy mean/std/cov/linalg.pinv"]


def make_product(rng, kind, strikes, notional):
    from rpylib.product.payoff import Vanilla, Forward, PayoffType
    from rpylib.product.product import Product
    from rpylib.product.underlying import Spot
    if kind == "forward":
        payoff = Forward(strike=strikes[0])
    else:
        k = strikes[0] if len(strikes) == 1 else np.array(strikes)
        payoff = Vanilla(strike=k, payoff_type=PayoffType.CALL if kind == "call" else PayoffType.PUT)
    return Product(payoff_underlying=Spot(), payoff=payoff, maturity=fe.T, notional=notional)


def payoff_value(kind, strike, s):
    if kind == "forward":
        return s - strike
    return max(s - strike, 0.0) if kind == "call" else max(strike - s, 0.0)


def _comp(v, c):
    """component c of a scalar-or-list specification"""
    return v[c] if isinstance(v, (list, tuple)) else v


def new_engine():
    """one standard Engine object on a scripted process, to be priced several times in a row (`engine reuse` histories)"""
    from rpylib.montecarlo.configuration import ConfigurationStandard
    from rpylib.montecarlo.standard.engine import Engine
    return Engine(configuration=ConfigurationStandard(mc_paths=1, nb_of_processes=1), process=fe.FakeProcess([], df=1.0, log=[]))


def price_on(engine, vals, product, df, cps, cprices, spot_stats):
    """price once more on an EXISTING engine object after re-configuring it through its public configuration attributes"""
    from rpylib.product.product import ControlVariates, NoControlVariates
    cfg = engine.configuration
    cfg.mc_paths = len(vals)
    cfg.control_variates = ControlVariates(products=cps, prices=cprices) if cps else NoControlVariates()
    cfg.activate_spot_statistics = spot_stats
    proc = engine.process
    proc.terminal_values, proc.count, proc._df = list(vals), 0, df
    del proc.log[:]
    stats = engine.price(product)
    return dict(stats=stats, log=proc.log, engine=engine)


def _build(kind, strikes, notional, controls):
    from rpylib.product.payoff import Forward, Vanilla, PayoffType
    from rpylib.product.product import Product
    from rpylib.product.underlying import Spot
    product = make_product(None, kind, strikes, notional)
    cps, cprices = [], []
    for ck, cstrike, cprice, cnot in [tuple(c) + (1.0,) * (4 - len(c)) for c in controls]:
        kk = np.array(cstrike) if isinstance(cstrike, (list, tuple)) else cstrike
        cps.append(Product(payoff_underlying=Spot(), payoff=Forward(strike=kk) if ck == "forward" else
                           Vanilla(strike=kk, payoff_type=PayoffType.CALL), maturity=fe.T, notional=cnot))
        cprices.append(np.array(cprice) if isinstance(cprice, (list, tuple)) else cprice)
    return product, cps, cprices


def reuse_history(ctx, cases, tag):
    """ONE engine object priced for every case of `cases` in a row (paths going down / equal / up, payoff dimension and controls
    changing between the runs): every run is judged exactly like a fresh run — rows = exactly the paths of THIS run, N = the configured
    number of paths, textbook price / error / control-variate adjustment, and the Lean model of a fresh run on its own paths."""
    eng = new_engine()
    done = []
    for i, case in enumerate(cases):
        vals, kind, strikes, notional, df, controls, spot = case
        one_case(ctx, vals, kind, strikes, notional, df, controls, spot, f"{tag}:run{i}", engine=eng, prefix=list(done))
        done.append([vals, kind, strikes, notional, df, [list(c) for c in controls], spot])


def one_case(ctx, vals, kind, strikes, notional, df, controls, spot_stats, tag, engine=None, prefix=None):
    from rpylib.product.payoff import Forward, Vanilla, PayoffType
    from rpylib.product.product import Product
    from rpylib.product.underlying import Spot
    n = len(vals)
    desc = dict(values=vals, kind=kind, strikes=strikes, notional=notional, df=df, controls=controls, spot_stats=spot_stats)
    cls = dict(kind=tag, dim=len(strikes), ncontrols=len(controls))
    if engine is not None:
        desc["reuse_prefix"] = prefix or []           # the runs priced before on the same engine object (needed to replay)
        cls["engine_reused"] = bool(prefix)
    product = make_product(None, kind, strikes, notional)
    cps, cprices = [], []
    controls = [tuple(c) + (1.0,) * (4 - len(c)) for c in controls]        # (kind, strike, price, notional)
    for ck, cstrike, cprice, cnot in controls:
        kk = np.array(cstrike) if isinstance(cstrike, (list, tuple)) else cstrike
        cps.append(Product(payoff_underlying=Spot(), payoff=Forward(strike=kk) if ck == "forward" else
                           Vanilla(strike=kk, payoff_type=PayoffType.CALL), maturity=fe.T, notional=cnot))
        cprices.append(np.array(cprice) if isinstance(cprice, (list, tuple)) else cprice)
    try:
        with np.errstate(all="ignore"):
            if engine is not None:
                r = price_on(engine, vals, product, df, cps, cprices, spot_stats)
            else:
                r = fe.run_standard(vals, product, df=df, controls=cps or None, control_prices=cprices or None, spot_stats=spot_stats)
    except Exception as e:
        ctx.fail("oracle", "c07.engine_raises", desc, {"what": f"{type(e).__name__}: {e}"}, cls=cls)
        return
    st = r["stats"]
    d = len(strikes)
    ys = [[df * notional * payoff_value(kind, k, s) for s in vals] for k in strikes]      # textbook, per component
    nontrivial = n >= 3 and any(len(set(y)) > 1 for y in ys)
    ctx.count("c07.case", desc, nontrivial=nontrivial, branch=(f"{tag}:d{d}:cv{len(controls)}" if engine is None else "engine_reuse"))
    raw_price = np.atleast_1d(st.price(no_control_variates=True)).astype(float)
    raw_err = np.atleast_1d(st.mc_stddev(no_control_variates=True)).astype(float)
    rows = np.array(st._payoff_statistics.stats, dtype=float)
    # ---- S: each path once, at its index; price; error per component
    sims = [k for kind_, _, k in r["log"] if kind_ == "sim"]
    if sims != list(range(n)) or rows.shape[0] != n:
        ctx.fail("oracle", "c07.each_path_once", desc, {"what": "paths simulated / rows stored", "sims": sims[:10], "rows": rows.shape[0]}, cls=cls)
        return
    for j in range(d):
        if [float(x) for x in rows[:, j]] != ys[j]:
            ctx.fail("oracle", "c07.each_path_once", desc, {"what": "row i is not df*notional*payoff(path i)", "component": j,
                                                             "rows": rows[:6, j].tolist(), "expected": ys[j][:6]}, cls=cls)
            return
        m = float(np.mean(ys[j]))
        e = float(np.std(ys[j], ddof=1) / math.sqrt(n)) if n > 1 else 0.0
        if not math.isclose(raw_price[j], m, rel_tol=1e-12, abs_tol=1e-12):
            ctx.fail("oracle", "c07.price", desc, {"component": j, "price": raw_price[j], "expected": m}, cls=cls)
            return
        if n > 1 and not math.isclose(float(raw_err[j]), e, rel_tol=1e-10, abs_tol=1e-13):
            ctx.fail("oracle", "c07.stderr", desc, {"component": j, "mc_stddev": float(raw_err[j]), "expected": e, "n": n, "d": d}, cls=cls)
            return
    # ---- C: M's exact formulas
    for j in range(d):
        out = ctx.lean(f"stats {wl(ys[j])}").split(" ")
        sc = max(abs(y) for y in ys[j]) or 1.0
        if not (close(raw_price[j], rd(out[0]), scale=sc) and (n < 2 or close(float(raw_err[j]) ** 2, rd(out[2]), scale=sc * sc))):
            ctx.fail("corr", "c07.stats.model", desc, {"name": "Drivers/C07 stats vs MCStatistics.price/mc_stddev", "component": j,
                                                        "impl": [raw_price[j], float(raw_err[j]) ** 2], "model": out}, cls=cls)
            return
    stored = ctx.lean(f"rows {w(df)} {w(notional)} {wl([payoff_value(kind, strikes[0], s) for s in vals])}")
    if [fr(x) for x in rows[:, 0]] != rdl(stored):
        ctx.fail("corr", "c07.rows.model", desc, {"name": "Drivers/C07 rows vs stored payoff statistics", "impl": rows[:6, 0].tolist(), "model": stored[:200]}, cls=cls)
        return
    if not controls:
        return
    adj_price = np.atleast_1d(st.price()).astype(float)
    adj_err = np.atleast_1d(st.mc_stddev()).astype(float)
    adj_rows = np.array(st._payoff_statistics_with_cv.stats, dtype=float)
    k = len(controls)
    # control values per (control j, component c): a scalar-strike control is broadcast to every component
    xs = [[[df * cn * payoff_value(ck, _comp(cs, c), s) for s in vals] for c in range(d)] for ck, cs, _, cn in controls]
    prices = [[float(_comp(cp, c)) for c in range(d)] for _, _, cp, _ in controls]
    X_impl = np.array(st._control_variates_statistics.stats, dtype=float)
    if adj_rows.shape != rows.shape or X_impl.shape != (n, k, d):
        ctx.fail("oracle", "c07.cv_shape", desc, {"adjusted": adj_rows.shape, "raw": rows.shape, "controls": X_impl.shape}, cls=cls)
        return
    if any([float(v) for v in X_impl[:, j, c]] != xs[j][c] for j in range(k) for c in range(d)):
        ctx.fail("oracle", "c07.cv_rows", desc, {"what": "control row i is not df*notional*payoff of control j on path i (per component)"}, cls=cls)
        return
    conds, exact_singular = [], []
    for j in range(d):
        y = np.array(ys[j])
        X = np.array([xs[i][j] for i in range(k)])                     # (k, n): the controls of THIS component
        pr = np.array([prices[i][j] for i in range(k)])
        means_match = all(abs(np.mean(X[i]) - pr[i]) <= 1e-15 * max(1.0, abs(pr[i])) for i in range(k))
        tol = 1e-9 * (abs(raw_price[j]) + float(np.max(np.abs(y))) + 1.0)
        if means_match and abs(adj_price[j] - raw_price[j]) > tol:
            ctx.fail("oracle", "c07.cv_mean_identity", desc, {"component": j, "adjusted": adj_price[j], "raw": raw_price[j]}, cls=cls)
            return
        if means_match:
            ctx.branches["c07.cv:identity_premise_holds"] += 1
        sx = np.atleast_2d(np.cov(X, bias=True))
        with np.errstate(all="ignore"):
            cond = float(np.linalg.cond(sx)) if np.all(np.isfinite(sx)) else float("inf")
        conds.append(cond)
        if n > k + 1 and float(adj_err[j]) > float(raw_err[j]) * (1 + 1e-9) + 1e-13:
            ctx.fail("oracle", "c07.cv_variance", desc, {"component": j, "adjusted_err": float(adj_err[j]), "raw_err": float(raw_err[j]),
                                                          "cond_sigma_x": cond},
                     cls=dict(cls, singular_sigma_x=bool(cond > 1e12 and k >= 2)))   # (class kept for the record: fixed in /repo)
            return
        if k >= 2 and n > k + 1:
            # k controls: theorem cv_var_le_raw_normal_equations needs coefficients solving the normal equations.  Judge what the
            # implementation actually did, without assuming how it computes b: the fitted adjustment f = Y - adjusted must be a
            # combination A b of the centred-by-price controls A = X - price_X, and it must satisfy the normal equations
            # (1/n) Xc^T (f - mean f) = Sigma_XY  (they depend on b only through A b, so collinear controls are no obstacle)
            cov = np.cov(X, y, bias=True)
            sxx, sxy = cov[:-1, :-1], cov[:-1, -1]
            if float(np.amin(np.abs(sxx))) >= 1e-12:
                A = X.T - pr                                                   # (n, k)
                f = y - adj_rows[:, j]
                b_impl, *_ = np.linalg.lstsq(A, f, rcond=None)
                sc = float(np.max(np.abs(y))) + float(np.max(np.abs(f))) + 1e-300
                if float(np.max(np.abs(A @ b_impl - f))) > 1e-7 * sc:
                    ctx.fail("oracle", "c07.cv_rows", desc, {"what": "adjusted rows are not Y - b*(X - price_X) for any coefficient vector b of the "
                                                                      "component", "component": j, "adjusted": adj_rows[:4, j].tolist(),
                                                            "distance_to_the_span": float(np.max(np.abs(A @ b_impl - f)))}, cls=cls)
                    return
                Xc = X.T - np.mean(X.T, axis=0)
                resid = Xc.T @ (f - np.mean(f)) / n - sxy
                scale_b = float(np.max(np.abs(sxy))) + 1e-300
                if float(np.max(np.abs(resid))) > 1e-8 * scale_b:
                    ctx.fail("oracle", "c07.cv_normal_equations", desc, {"what": "the regression coefficients used by the engine do not solve the normal equations",
                                                                        "component": j, "residual": resid.tolist(), "cond_sigma_x": cond,
                                                                        "eigenvalues": np.linalg.eigvalsh(sxx).tolist()},
                             cls=dict(cls, near_singular_sigma_x=bool(cond > 1e13)))
                    return
                if cond > 1e12:
                    ctx.branches["c07.cv:pinv_singular_sigma_x"] += 1
    if k > 2:
        return
    # ---- C: the model's adjusted array (Stats.adjustVec with the kernel as coded), all components at once
    from fractions import Fraction as F
    for j in range(d):
        X = [[F(v) for v in xs[i][j]] for i in range(k)]
        m = [sum(r) / n for r in X]
        cv_ = lambda a, b, ma, mb: sum((p - ma) * (q - mb) for p, q in zip(a, b)) / n
        ent = [cv_(X[a], X[b], m[a], m[b]) for a in range(k) for b in range(k)]
        if any(F(1, 10 ** 13) < abs(e) < F(1, 10 ** 11) for e in ent):      # guard boundary: don't care
            ctx.excluded_small_margin += 1
            return
        if k == 2:
            det0 = ent[0] * ent[3] - ent[1] * ent[2] == 0
            exact_singular.append(det0)
            if not det0 and conds[j] > 1e10:                                 # nearly singular: float pinv cut-off is a don't-care
                ctx.excluded_small_margin += 1
                return
    out = ctx.lean("cvvec %d %d %s %s %s" % (k, d, cm_wll(prices), cm_wll([xs[i][c] for i in range(k) for c in range(d)]), cm_wll(ys))).split(" ")
    adj_m, b_m, mean_m, err_m = rdll(out[0]), rdll(out[1]), rdl(out[2]), rdl(out[3])
    for j in range(d):
        amp = 1.0 if (k == 1 or (exact_singular and exact_singular[j])) else max(1.0, conds[j] / 1e3)
        sc = ((max(abs(v) for v in ys[j]) or 1.0) + sum(abs(float(b_m[j][i])) * (max(abs(v - prices[i][j]) for v in xs[i][j]) or 1.0)
                                                         for i in range(k))) * amp * max(1, n)
        ok = len(adj_m[j]) == n and all(close(p_, q_, scale=sc) for p_, q_ in zip(adj_rows[:, j], adj_m[j])) \
            and close(adj_price[j], mean_m[j], scale=sc) and (n < 2 or close(float(adj_err[j]) ** 2, err_m[j], scale=sc * sc))
        if not ok:
            ctx.fail("corr", "c07.cvvec.model", desc, {"name": "Drivers/C07 cvvec (Stats.adjustVec, kernel as coded) vs compute_coefficients",
                                                        "component": j, "impl": [adj_rows[:4, j].tolist(), adj_price[j], float(adj_err[j]) ** 2],
                                                        "model": [[float(v) for v in adj_m[j][:4]], float(mean_m[j]), float(err_m[j]), [float(b) for b in b_m[j]]]}, cls=cls)
            return
        ctx.branches[f"c07.cvvec:k{k}:d{d}" + (":singular" if exact_singular and exact_singular[j] else "")] += 1


def gen_case(rng, n=None):
    n = n or rng.choice([2, 3, 4, 5, 8, 16, 50, 200])
    base = rng.choice([1.0, 4.0, 100.0])
    vals = [base * (1 + rng.randint(-64, 64) / 128) for _ in range(n)]
    kind = rng.choice(["call", "put", "forward", "call"])
    d = 1 if kind == "forward" else rng.choice([1, 1, 2, 3])
    strikes = [base * rng.choice([0.75, 1.0, 1.125, 0.5]) for _ in range(d)]
    notional = rng.choice([1.0, 2.0, 0.5, 10.0])
    df = rng.choice([1.0, 0.5, 0.75])
    nc = rng.choice([0, 0, 1, 1, 2, 3])
    controls = []
    # shapes: scalar-valued controls are broadcast to every payoff component; vector-valued controls (strikes of length d) give every
    # component its own control column; prices are all scalars or all vectors of length d (the code looks at prices[0] only)
    vec_controls = d > 1 and rng.random() < 0.4
    vec_prices = d > 1 and rng.random() < 0.4
    centred = rng.random() < 0.5
    for _ in range(nc):
        ck = "call" if vec_controls else rng.choice(["forward", "call"])
        cs = [base * rng.choice([0.5, 0.875, 1.0, 0.625]) for _ in range(d)] if vec_controls else base * rng.choice([0.5, 0.875, 1.0])
        cn = rng.choice([1.0, 1.0, 2.5, 0.5, 10.0])             # the control products carry their own notional
        exact = [float(np.mean([df * cn * payoff_value(ck, _comp(cs, c), s) for s in vals])) for c in range(d)]
        if vec_prices:
            cprice = [e if centred else e + rng.choice([-0.25, 0.125, 0.5]) for e in exact]
        else:
            cprice = exact[0] if centred else exact[0] + rng.choice([-0.25, 0.125, 0.5])
        controls.append((ck, cs, cprice, cn))
    return vals, kind, strikes, notional, df, controls, rng.random() < 0.3


def run(ctx):
    rng = ctx.rng
    for _ in range(ctx.n(250, 4000)):
        vals, kind, strikes, notional, df, controls, spot = gen_case(rng)
        one_case(ctx, vals, kind, strikes, notional, df, controls, spot, "random")
    # engine reuse: one Engine object priced 2-3 times in a row, paths going down / equal / up, payoff dimension same / different,
    # controls switched on / off / changed between the runs
    for _ in range(ctx.n(25, 300)):
        n0 = rng.choice([5, 8, 16, 50])
        sizes = [n0, rng.choice([2, 3, n0 // 2 + 1, n0, n0, n0 + 3, 2 * n0])] + ([rng.choice([3, n0, n0 + 5])] if rng.random() < 0.5 else [])
        cases, keep = [], None
        for m in sizes:
            vals, kind, strikes, notional, df, controls, spot = gen_case(rng, n=m)
            if keep is not None and rng.random() < 0.6:       # same product shape as the previous run (same payoff dimension), new paths
                kind, strikes, notional = keep
                if rng.random() < 0.5:
                    controls = [c for c in controls if not isinstance(c[1], list) and not isinstance(c[2], list)][:2] if len(strikes) == 1 else []
                else:
                    controls = []
            if len(strikes) == 1:
                controls = [c for c in controls if not isinstance(c[1], list) and not isinstance(c[2], list)]
            keep = (kind, strikes, notional)
            cases.append((vals, kind, strikes, notional, df, controls, spot))
        reuse_history(ctx, cases, "reuse")
    # directed reuse: 8 paths then 5 on the same engine (stale rows 5..7 must not be counted), with and without a control, vector strikes
    for strikes, ctl in (([2.0], []), ([1.5, 2.5], []), ([2.0], [("forward", 1.0, 0.25, 2.0)]), ([1.5, 2.5], [("forward", 1.0, 0.25, 2.0)])):
        a = [1.0, 2.0, 4.0, 3.0, 0.5, 2.5, 3.5, 1.5]
        b = [2.25, 3.0, 0.75, 4.5, 1.25]
        reuse_history(ctx, [(a, "call", strikes, 2.0, 0.5, ctl, False), (b, "call", strikes, 2.0, 0.5, ctl, True), (a + b, "call", strikes, 2.0, 0.5, ctl, False)],
                      "reuse_directed")
    # directed: constant control (fallback b* = 0), constant payoff, two paths
    one_case(ctx, [1.0, 2.0, 3.0, 4.0], "call", [0.0], 1.0, 1.0, [("call", 10.0, 0.0, 1.0)], False, "constant_control")
    one_case(ctx, [5.0, 5.0, 5.0], "call", [1.0], 1.0, 0.5, [("forward", 1.0, 2.0, 1.0)], False, "constant_payoff")
    one_case(ctx, [1.0, 2.0, 4.0, 3.0], "call", [2.0], 3.0, 0.5, [("forward", 1.5, 0.5 * 2.5 * 1.0, 2.5)], False, "control_notional")
    one_case(ctx, [1.0, 3.0], "put", [2.0, 4.0], 2.0, 0.5, [], True, "two_paths_vector")
    # directed: two collinear controls (same payoff, different notionals): Sigma_X is singular, the pseudo-inverse path is taken;
    # b must still solve the normal equations and the adjusted variance must not exceed the raw one (scalar and vector payoff)
    for vals in ([1.0, 2.0, 4.0, 3.0, 0.5, 2.5], [3.0625, 2.6875, 2.375, 4.6875, 2.25], [float(i % 7) + 0.25 * (i % 3) for i in range(40)]):
        one_case(ctx, vals, "call", [2.0], 1.0, 0.5, [("forward", 1.0, 0.25, 1.0), ("forward", 1.0, 0.75, 2.0)], False, "collinear")
        one_case(ctx, vals, "call", [1.5, 2.5], 2.0, 1.0, [("call", 2.0, 0.5, 1.0), ("call", 2.0, 0.125, 0.5)], False, "collinear")
        one_case(ctx, vals, "put", [2.0, 3.0, 1.0], 1.0, 0.5, [("call", [1.0, 2.0, 3.0], [0.5, 0.25, 0.125], 1.0), ("call", [1.0, 2.0, 3.0], [0.375, 0.0, 1.0], 4.0)], False, "collinear_vector")
    # directed: vector payoff, vector-valued controls, vector prices equal to the controls' sample means: identity per component
    vals = [1.0, 2.0, 4.0, 3.0, 0.5, 2.5, 3.5, 1.5]
    ks = [1.0, 2.0, 3.0]
    pr1 = [float(np.mean([0.5 * payoff_value("call", kk, v) for v in vals])) for kk in ks]
    pr2 = [float(np.mean([0.5 * 2.0 * payoff_value("call", kk + 0.5, v) for v in vals])) for kk in ks]
    one_case(ctx, vals, "put", [2.0, 3.0, 2.5], 1.0, 0.5, [("call", ks, pr1, 1.0), ("call", [kk + 0.5 for kk in ks], pr2, 2.0)], False, "vector_identity")


def replay(ctx, rec):
    d = rec["input"]
    if "reuse_prefix" in d:
        eng = new_engine()
        for vals, kind, strikes, notional, df, controls, spot in d["reuse_prefix"]:
            product, cps, cprices = _build(kind, strikes, notional, [tuple(c) for c in controls])
            try:
                price_on(eng, vals, product, df, cps, cprices, spot)
            except Exception:
                pass
        one_case(ctx, d["values"], d["kind"], d["strikes"], d["notional"], d["df"], [tuple(c) for c in d["controls"]], d["spot_stats"],
                 rec.get("cls", {}).get("kind", "replay"), engine=eng, prefix=d["reuse_prefix"])
        return
    one_case(ctx, d["values"], d["kind"], d["strikes"], d["notional"], d["df"], [tuple(c) for c in d["controls"]], d["spot_stats"],
             rec.get("cls", {}).get("kind", "replay"))
