"""C07 — Standard Monte-Carlo price, error and control-variate adjustment are textbook (DESIGN.md §4 C07)."""
from __future__ import annotations

import math
import numpy as np

from .. import fake_engine as fe
from ..common import w, wl, rd, rdl, close, fr

RULE = ("the real standard Engine.price driven by a scripted process with prescribed dyadic terminal values: 2..200 paths, scalar and "
        "vector strikes (payoff dimension 1..3), call/put/forward payoffs, notionals, discount factors, 0..3 control variates "
        "(forwards/calls, with exact or perturbed prices), spot statistics on/off. non-trivial = at least 3 paths with non-constant "
        "payoff; distinct = distinct (paths, product, controls)")
NOT_PROVED = ["k >= 2 controls: the variance inequality is proved for coefficients solving the normal equations "
              "(cv_var_le_raw_normal_equations); that numpy.linalg.pinv returns such coefficients is oracle-checked (residual), not proved",
              "np.cov / np.linalg.inv kernels are compared with the model's exact rational formulas, not proved"]
ASSUMPTIONS = ["standard errors are compared as squares"]
TRUSTED = ["numpy mean/std/cov/linalg.inv"]


def make_product(rng, kind, strikes, notional):
    from rpylib.product.payoff import Vanilla, Forward, PayoffType
    from rpylib.product.product import Product
    from rpylib.product.underlying import Spot
    if kind == "forward":
        payoff = Forward(strike=strikes[0])
    else:
        k = strikes[0] if len(strikes) == 1 else np.array(strikes)
        payoff = Vanilla(strike=k, payoff_type=PayoffType.CALL if kind == "call" else PayoffType.PUT)
    return Product(payoff_underlying=Spot(), payoff=payoff, maturity=fe.T, notional=notional)


def payoff_value(kind, strike, s):
    if kind == "forward":
        return s - strike
    return max(s - strike, 0.0) if kind == "call" else max(strike - s, 0.0)


def one_case(ctx, vals, kind, strikes, notional, df, controls, spot_stats, tag):
    from rpylib.product.payoff import Forward, Vanilla, PayoffType
    from rpylib.product.product import Product
    from rpylib.product.underlying import Spot
    n = len(vals)
    desc = dict(values=vals, kind=kind, strikes=strikes, notional=notional, df=df, controls=controls, spot_stats=spot_stats)
    cls = dict(kind=tag, dim=len(strikes), ncontrols=len(controls))
    product = make_product(None, kind, strikes, notional)
    cps, cprices = [], []
    controls = [tuple(c) + (1.0,) * (4 - len(c)) for c in controls]        # (kind, strike, price, notional)
    for ck, cstrike, cprice, cnot in controls:
        cps.append(Product(payoff_underlying=Spot(), payoff=Forward(strike=cstrike) if ck == "forward" else
                           Vanilla(strike=cstrike, payoff_type=PayoffType.CALL), maturity=fe.T, notional=cnot))
        cprices.append(cprice)
    try:
        with np.errstate(all="ignore"):
            r = fe.run_standard(vals, product, df=df, controls=cps or None, control_prices=cprices or None, spot_stats=spot_stats)
    except Exception as e:
        ctx.fail("oracle", "c07.engine_raises", desc, {"what": f"{type(e).__name__}: {e}"}, cls=cls)
        return
    st = r["stats"]
    d = len(strikes)
    ys = [[df * notional * payoff_value(kind, k, s) for s in vals] for k in strikes]      # textbook, per component
    nontrivial = n >= 3 and any(len(set(y)) > 1 for y in ys)
    ctx.count("c07.case", desc, nontrivial=nontrivial, branch=f"{tag}:d{d}:cv{len(controls)}")
    raw_price = np.atleast_1d(st.price(no_control_variates=True)).astype(float)
    raw_err = np.atleast_1d(st.mc_stddev(no_control_variates=True)).astype(float)
    rows = np.array(st._payoff_statistics.stats, dtype=float)
    # ---- S: each path once, at its index; price; error per component
    sims = [k for kind_, _, k in r["log"] if kind_ == "sim"]
    if sims != list(range(n)) or rows.shape[0] != n:
        ctx.fail("oracle", "c07.each_path_once", desc, {"what": "paths simulated / rows stored", "sims": sims[:10], "rows": rows.shape[0]}, cls=cls)
        return
    for j in range(d):
        if [float(x) for x in rows[:, j]] != ys[j]:
            ctx.fail("oracle", "c07.each_path_once", desc, {"what": "row i is not df*notional*payoff(path i)", "component": j,
                                                             "rows": rows[:6, j].tolist(), "expected": ys[j][:6]}, cls=cls)
            return
        m = float(np.mean(ys[j]))
        e = float(np.std(ys[j], ddof=1) / math.sqrt(n)) if n > 1 else 0.0
        if not math.isclose(raw_price[j], m, rel_tol=1e-12, abs_tol=1e-12):
            ctx.fail("oracle", "c07.price", desc, {"component": j, "price": raw_price[j], "expected": m}, cls=cls)
            return
        if n > 1 and not math.isclose(float(raw_err[j]), e, rel_tol=1e-10, abs_tol=1e-13):
            ctx.fail("oracle", "c07.stderr", desc, {"component": j, "mc_stddev": float(raw_err[j]), "expected": e, "n": n, "d": d}, cls=cls)
            return
    # ---- C: M's exact formulas
    for j in range(d):
        out = ctx.lean(f"stats {wl(ys[j])}").split(" ")
        sc = max(abs(y) for y in ys[j]) or 1.0
        if not (close(raw_price[j], rd(out[0]), scale=sc) and (n < 2 or close(float(raw_err[j]) ** 2, rd(out[2]), scale=sc * sc))):
            ctx.fail("corr", "c07.stats.model", desc, {"name": "Drivers/C07 stats vs MCStatistics.price/mc_stddev", "component": j,
                                                        "impl": [raw_price[j], float(raw_err[j]) ** 2], "model": out}, cls=cls)
            return
    stored = ctx.lean(f"rows {w(df)} {w(notional)} {wl([payoff_value(kind, strikes[0], s) for s in vals])}")
    if [fr(x) for x in rows[:, 0]] != rdl(stored):
        ctx.fail("corr", "c07.rows.model", desc, {"name": "Drivers/C07 rows vs stored payoff statistics", "impl": rows[:6, 0].tolist(), "model": stored[:200]}, cls=cls)
        return
    if not controls:
        return
    adj_price = np.atleast_1d(st.price()).astype(float)
    adj_err = np.atleast_1d(st.mc_stddev()).astype(float)
    adj_rows = np.array(st._payoff_statistics_with_cv.stats, dtype=float)
    xs = [[df * cn * payoff_value(ck, cs, s) for s in vals] for ck, cs, _, cn in controls]
    if adj_rows.shape != rows.shape:
        ctx.fail("oracle", "c07.cv_shape", desc, {"adjusted": adj_rows.shape, "raw": rows.shape}, cls=cls)
        return
    for j in range(d):
        y = np.array(ys[j])
        X = np.array(xs)                                     # (k, n)
        prices = np.array([c[2] for c in controls])
        means_match = all(abs(np.mean(X[i]) - prices[i]) <= 1e-15 * max(1.0, abs(prices[i])) for i in range(len(controls)))
        tol = 1e-9 * (abs(raw_price[j]) + float(np.max(np.abs(y))) + 1.0)
        if means_match and abs(adj_price[j] - raw_price[j]) > tol:
            ctx.fail("oracle", "c07.cv_mean_identity", desc, {"component": j, "adjusted": adj_price[j], "raw": raw_price[j]}, cls=cls)
            return
        # the adjusted price is the mean of Y - b*(X - price_X) for some b: recover b by least squares on the stored rows
        if n > len(controls) + 1 and float(adj_err[j]) > float(raw_err[j]) * (1 + 1e-9) + 1e-13:
            sx = np.atleast_2d(np.cov(X, bias=True))
            with np.errstate(all="ignore"):
                cond = float(np.linalg.cond(sx)) if np.all(np.isfinite(sx)) else float("inf")
            ctx.fail("oracle", "c07.cv_variance", desc, {"component": j, "adjusted_err": float(adj_err[j]), "raw_err": float(raw_err[j]),
                                                          "cond_sigma_x": cond},
                     cls=dict(cls, singular_sigma_x=bool(cond > 1e12 and len(controls) >= 2)))   # (class kept for the record: fixed in /repo)
            return
        if len(controls) >= 2 and n > len(controls) + 1:
            # k controls: theorem cv_var_le_raw_normal_equations needs coefficients solving the normal equations; the pseudo-inverse
            # of the sample covariance matrix provides them: check the residual and that the stored rows use exactly those coefficients
            cov = np.cov(X, y, bias=True)
            sx, sxy = cov[:-1, :-1], cov[:-1, -1]
            if float(np.amin(np.abs(sx))) >= 1e-12:
                b_ref = np.linalg.pinv(sx, hermitian=True) @ sxy
                scale_b = float(np.max(np.abs(sxy))) + 1e-300
                if float(np.max(np.abs(sx @ b_ref - sxy))) > 1e-8 * scale_b:
                    ctx.fail("oracle", "c07.cv_normal_equations", desc, {"what": "the regression coefficients do not solve the normal equations",
                                                                        "residual": (sx @ b_ref - sxy).tolist()}, cls=cls)
                    return
                exp_adj = y - (X.T - prices) @ b_ref
                sc = float(np.max(np.abs(y))) + float(np.sum(np.abs(b_ref)) * np.max(np.abs(X.T - prices))) + 1e-300
                if float(np.max(np.abs(adj_rows[:, j] - exp_adj))) > 1e-7 * sc:
                    ctx.fail("oracle", "c07.cv_rows", desc, {"what": "adjusted rows are not Y - b*(X - price_X) with the least-squares coefficients",
                                                            "component": j, "adjusted": adj_rows[:4, j].tolist(), "expected": exp_adj[:4].tolist()}, cls=cls)
                    return
        if len(controls) == 1:
            out = ctx.lean(f"cv1 {w(controls[0][2])} {wl(xs[0])} {wl(ys[j])}").split(" ")
            b, adj, madj, eadj = rd(out[0]), rdl(out[1]), rd(out[2]), rd(out[3])
            varx = float(np.var(X[0]))
            if abs(varx - 1e-12) < 1e-13:                  # guard boundary: don't care
                ctx.excluded_small_margin += 1
                continue
            sc = (max(abs(v) for v in ys[j]) or 1.0) + abs(float(b)) * (max(abs(v - controls[0][2]) for v in xs[0]) or 1.0)
            ok = all(close(p, q, scale=sc) for p, q in zip(adj_rows[:, j], adj)) and close(adj_price[j], madj, scale=sc) \
                and (n < 2 or close(float(adj_err[j]) ** 2, eadj, scale=sc * sc))
            if not ok:
                ctx.fail("corr", "c07.cv1.model", desc, {"name": "Drivers/C07 cv1 vs compute_coefficients", "component": j,
                                                          "impl": [adj_rows[:4, j].tolist(), adj_price[j], float(adj_err[j]) ** 2],
                                                          "model": [str(b), float(madj), float(eadj)]}, cls=cls)
                return


def gen_case(rng):
    n = rng.choice([2, 3, 4, 5, 8, 16, 50, 200])
    base = rng.choice([1.0, 4.0, 100.0])
    vals = [base * (1 + rng.randint(-64, 64) / 128) for _ in range(n)]
    kind = rng.choice(["call", "put", "forward", "call"])
    d = 1 if kind == "forward" else rng.choice([1, 1, 2, 3])
    strikes = [base * rng.choice([0.75, 1.0, 1.125, 0.5]) for _ in range(d)]
    notional = rng.choice([1.0, 2.0, 0.5, 10.0])
    df = rng.choice([1.0, 0.5, 0.75])
    nc = rng.choice([0, 0, 1, 1, 2, 3])
    controls = []
    for _ in range(nc):
        ck = rng.choice(["forward", "call"])
        cs = base * rng.choice([0.5, 0.875, 1.0])
        cn = rng.choice([1.0, 1.0, 2.5, 0.5, 10.0])             # the control products carry their own notional
        xs = [df * cn * payoff_value(ck, cs, s) for s in vals]
        exact = float(np.mean(xs))
        cprice = exact if rng.random() < 0.5 else exact + rng.choice([-0.25, 0.125, 0.5])
        controls.append((ck, cs, cprice, cn))
    return vals, kind, strikes, notional, df, controls, rng.random() < 0.3


def run(ctx):
    rng = ctx.rng
    for _ in range(ctx.n(250, 4000)):
        vals, kind, strikes, notional, df, controls, spot = gen_case(rng)
        one_case(ctx, vals, kind, strikes, notional, df, controls, spot, "random")
    # directed: constant control (fallback b* = 0), constant payoff, two paths
    one_case(ctx, [1.0, 2.0, 3.0, 4.0], "call", [0.0], 1.0, 1.0, [("call", 10.0, 0.0, 1.0)], False, "constant_control")
    one_case(ctx, [5.0, 5.0, 5.0], "call", [1.0], 1.0, 0.5, [("forward", 1.0, 2.0, 1.0)], False, "constant_payoff")
    one_case(ctx, [1.0, 2.0, 4.0, 3.0], "call", [2.0], 3.0, 0.5, [("forward", 1.5, 0.5 * 2.5 * 1.0, 2.5)], False, "control_notional")
    one_case(ctx, [1.0, 3.0], "put", [2.0, 4.0], 2.0, 0.5, [], True, "two_paths_vector")


def replay(ctx, rec):
    d = rec["input"]
    one_case(ctx, d["values"], d["kind"], d["strikes"], d["notional"], d["df"], [tuple(c) for c in d["controls"]], d["spot_stats"],
             rec.get("cls", {}).get("kind", "replay"))
