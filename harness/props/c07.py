"""C07 — Standard Monte-Carlo price, error and control-variate adjustment are textbook (DESIGN.md §4 C07)."""
from __future__ import annotations

import math
import numpy as np

from .. import fake_engine as fe
from ..common import w, wl, rd, rdl, rdll, close, fr
from ..common import wll as cm_wll

RULE = ("the real standard Engine.price driven by a scripted process with prescribed dyadic terminal values: 2..200 paths, scalar and "
        "vector strikes (payoff dimension 1..3), call/put/forward payoffs, notionals, discount factors, 0..3 control variates "
        "(forwards/calls with their own notionals; scalar-valued controls broadcast to all components or vector-valued controls with one "
        "strike per component; scalar or per-component prices, exact or perturbed), spot statistics on/off; directed: constant control, "
        "constant payoff, two paths, collinear controls (singular covariance matrix: pseudo-inverse path) for scalar and vector payoffs, "
        "vector identity; engine reuse (one Engine priced 2-3 times, paths / payoff dimension / controls changing). "
        "Shared-object histories (probe c07.shared): product, control-product, ControlVariates, ConfigurationStandard and Engine OBJECTS built "
        "once and used for 2-4 pricings in a row (a second ControlVariates object may share the same control objects; engine and configuration "
        "kept or rebuilt per pricing) on scripted processes of dimension 1-3 whose representation (LOG / IDENTITY), time grid, paths (spot path "
        "+ pure-jump factor path), number of paths and discount factor change between the pricings; payoff underlying and 1-3 control "
        "underlyings drawn from every class of rpylib.product.underlying (Spot, Libors, LogSpot, Asian, Mean, Performances, "
        "MaximumOfPerformances, NthSpot, Indicators, DefaultTime, DefaultTimeNthUnderlying, NthDefaultTimes; library payoffs Forward / "
        "Vanilla on scalar underlyings, PayoffOnTheFly weighted sums / calls on vector ones, capped default time), control prices equal to the "
        "controls' sample means or perturbed; directed: for every (payoff underlying class, control underlying class) pair one ControlVariates "
        "object priced LOG, IDENTITY, LOG and IDENTITY, LOG on the same spots, with one engine kept or a new engine per pricing. Every pricing is "
        "judged against the textbook formulas evaluated by the harness on the spot paths and against the same pricing with freshly built objects. "
        "non-trivial = at least 3 paths with non-constant payoff; distinct = distinct (paths, product, controls) resp. distinct history prefix")
NOT_PROVED = ["k >= 3 controls: the variance inequality is proved for coefficients solving the normal equations "
              "(cv_var_le_raw_normal_equations); that numpy.linalg.pinv returns such coefficients is oracle-checked (residual), not proved. "
              "For k <= 2 the kernel as coded (guard on every entry of Sigma_X, inverse, pseudo-inverse when singular) is modelled exactly and "
              "proved to solve the normal equations in every branch (kernel2_normal_equations, cv_var_le_raw_vec)",
              "np.cov / np.linalg.pinv kernels are compared with the model's exact rational formulas, not proved",
              "history independence (objects used before behave like fresh ones; the evaluation of an underlying follows the representation of the "
              "CURRENT process) is oracle-checked on generated histories, not proved: the Lean model is a model of one fresh run"]
ASSUMPTIONS = ["standard errors are compared as squares",
               "shared-object histories: samples are compared with the harness' own evaluation of underlying and payoff at relative 1e-11 (the LOG "
               "representation goes through exp(log(.))); indicator thresholds sit between grid values and default levels away from the scripted jump "
               "ratios (no don't-care points); a control whose underlying has the class of the payoff underlying but other parameters, and an NthSpot "
               "control next to a Spot payoff underlying, are generated rarely and are known defects of the unchanged library "
               "(known_findings.d/C07.json); normal equations judged only for min|Sigma_X| >= 1e-11 and cond < 1e10",
               "two controls: inputs whose covariance matrix is nearly but not exactly singular (cond > 1e10 with non-zero exact determinant) or "
               "has an entry within a factor 10 of the 1e-12 guard are don't-care points of the float pseudo-inverse / guard (excluded, counted); "
               "tolerance 2^-40 relative to a scale that grows with cond(Sigma_X)/1e3 in the regular branch"]
TRUSTED = ["numpy mean/std/cov/linalg.pinv"]


def make_product(rng, kind, strikes, notional):
    from rpylib.product.payoff import Vanilla, Forward, PayoffType
    from rpylib.product.product import Product
    from rpylib.product.underlying import Spot
    if kind == "forward":
        payoff = Forward(strike=strikes[0])
    else:
        k = strikes[0] if len(strikes) == 1 else np.array(strikes)
        payoff = Vanilla(strike=k, payoff_type=PayoffType.CALL if kind == "call" else PayoffType.PUT)
    return Product(payoff_underlying=Spot(), payoff=payoff, maturity=fe.T, notional=notional)


def payoff_value(kind, strike, s):
    if kind == "forward":
        return s - strike
    return max(s - strike, 0.0) if kind == "call" else max(strike - s, 0.0)


def _comp(v, c):
    """component c of a scalar-or-list specification"""
    return v[c] if isinstance(v, (list, tuple)) else v


def new_engine():
    """one standard Engine object on a scripted process, to be priced several times in a row (`engine reuse` histories)"""
    from rpylib.montecarlo.configuration import ConfigurationStandard
    from rpylib.montecarlo.standard.engine import Engine
    return Engine(configuration=ConfigurationStandard(mc_paths=1, nb_of_processes=1), process=fe.FakeProcess([], df=1.0, log=[]))


def price_on(engine, vals, product, df, cps, cprices, spot_stats):
    """price once more on an EXISTING engine object after re-configuring it through its public configuration attributes"""
    from rpylib.product.product import ControlVariates, NoControlVariates
    cfg = engine.configuration
    cfg.mc_paths = len(vals)
    cfg.control_variates = ControlVariates(products=cps, prices=cprices) if cps else NoControlVariates()
    cfg.activate_spot_statistics = spot_stats
    proc = engine.process
    proc.terminal_values, proc.count, proc._df = list(vals), 0, df
    del proc.log[:]
    stats = engine.price(product)
    return dict(stats=stats, log=proc.log, engine=engine)


def _build(kind, strikes, notional, controls):
    from rpylib.product.payoff import Forward, Vanilla, PayoffType
    from rpylib.product.product import Product
    from rpylib.product.underlying import Spot
    product = make_product(None, kind, strikes, notional)
    cps, cprices = [], []
    for ck, cstrike, cprice, cnot in [tuple(c) + (1.0,) * (4 - len(c)) for c in controls]:
        kk = np.array(cstrike) if isinstance(cstrike, (list, tuple)) else cstrike
        cps.append(Product(payoff_underlying=Spot(), payoff=Forward(strike=kk) if ck == "forward" else
                           Vanilla(strike=kk, payoff_type=PayoffType.CALL), maturity=fe.T, notional=cnot))
        cprices.append(np.array(cprice) if isinstance(cprice, (list, tuple)) else cprice)
    return product, cps, cprices


def reuse_history(ctx, cases, tag):
    """ONE engine object priced for every case of `cases` in a row (paths going down / equal / up, payoff dimension and controls
    changing between the runs): every run is judged exactly like a fresh run — rows = exactly the paths of THIS run, N = the configured
    number of paths, textbook price / error / control-variate adjustment, and the Lean model of a fresh run on its own paths."""
    eng = new_engine()
    done = []
    for i, case in enumerate(cases):
        vals, kind, strikes, notional, df, controls, spot = case
        one_case(ctx, vals, kind, strikes, notional, df, controls, spot, f"{tag}:run{i}", engine=eng, prefix=list(done))
        done.append([vals, kind, strikes, notional, df, [list(c) for c in controls], spot])


def one_case(ctx, vals, kind, strikes, notional, df, controls, spot_stats, tag, engine=None, prefix=None):
    from rpylib.product.payoff import Forward, Vanilla, PayoffType
    from rpylib.product.product import Product
    from rpylib.product.underlying import Spot
    n = len(vals)
    desc = dict(values=vals, kind=kind, strikes=strikes, notional=notional, df=df, controls=controls, spot_stats=spot_stats)
    cls = dict(kind=tag, dim=len(strikes), ncontrols=len(controls))
    if engine is not None:
        desc["reuse_prefix"] = prefix or []           # the runs priced before on the same engine object (needed to replay)
        cls["engine_reused"] = bool(prefix)
    product = make_product(None, kind, strikes, notional)
    cps, cprices = [], []
    controls = [tuple(c) + (1.0,) * (4 - len(c)) for c in controls]        # (kind, strike, price, notional)
    for ck, cstrike, cprice, cnot in controls:
        kk = np.array(cstrike) if isinstance(cstrike, (list, tuple)) else cstrike
        cps.append(Product(payoff_underlying=Spot(), payoff=Forward(strike=kk) if ck == "forward" else
                           Vanilla(strike=kk, payoff_type=PayoffType.CALL), maturity=fe.T, notional=cnot))
        cprices.append(np.array(cprice) if isinstance(cprice, (list, tuple)) else cprice)
    try:
        with np.errstate(all="ignore"):
            if engine is not None:
                r = price_on(engine, vals, product, df, cps, cprices, spot_stats)
            else:
                r = fe.run_standard(vals, product, df=df, controls=cps or None, control_prices=cprices or None, spot_stats=spot_stats)
    except Exception as e:
        ctx.fail("oracle", "c07.engine_raises", desc, {"what": f"{type(e).__name__}: {e}"}, cls=cls)
        return
    st = r["stats"]
    d = len(strikes)
    ys = [[df * notional * payoff_value(kind, k, s) for s in vals] for k in strikes]      # textbook, per component
    nontrivial = n >= 3 and any(len(set(y)) > 1 for y in ys)
    ctx.count("c07.case", desc, nontrivial=nontrivial, branch=(f"{tag}:d{d}:cv{len(controls)}" if engine is None else "engine_reuse"))
    raw_price = np.atleast_1d(st.price(no_control_variates=True)).astype(float)
    raw_err = np.atleast_1d(st.mc_stddev(no_control_variates=True)).astype(float)
    rows = np.array(st._payoff_statistics.stats, dtype=float)
    # ---- S: each path once, at its index; price; error per component
    sims = [k for kind_, _, k in r["log"] if kind_ == "sim"]
    if sims != list(range(n)) or rows.shape[0] != n:
        ctx.fail("oracle", "c07.each_path_once", desc, {"what": "paths simulated / rows stored", "sims": sims[:10], "rows": rows.shape[0]}, cls=cls)
        return
    if raw_price.shape[0] != d or (n > 1 and raw_err.shape[0] != d):
        # one price and one error per payoff component: a result of another shape cannot be the textbook estimator
        ctx.fail("oracle", "c07.stderr" if raw_price.shape[0] == d else "c07.price", desc,
                 {"what": "the engine reports a price / error vector whose length is not the number of payoff components",
                  "components": d, "n": n, "len(price)": int(raw_price.shape[0]), "len(mc_stddev)": int(raw_err.shape[0])}, cls=cls)
        return
    for j in range(d):
        if [float(x) for x in rows[:, j]] != ys[j]:
            ctx.fail("oracle", "c07.each_path_once", desc, {"what": "row i is not df*notional*payoff(path i)", "component": j,
                                                             "rows": rows[:6, j].tolist(), "expected": ys[j][:6]}, cls=cls)
            return
        m = float(np.mean(ys[j]))
        e = float(np.std(ys[j], ddof=1) / math.sqrt(n)) if n > 1 else 0.0
        if not math.isclose(raw_price[j], m, rel_tol=1e-12, abs_tol=1e-12):
            ctx.fail("oracle", "c07.price", desc, {"component": j, "price": raw_price[j], "expected": m}, cls=cls)
            return
        if n > 1 and not math.isclose(float(raw_err[j]), e, rel_tol=1e-10, abs_tol=1e-13):
            ctx.fail("oracle", "c07.stderr", desc, {"component": j, "mc_stddev": float(raw_err[j]), "expected": e, "n": n, "d": d}, cls=cls)
            return
    # ---- C: M's exact formulas
    for j in range(d):
        out = ctx.lean(f"stats {wl(ys[j])}").split(" ")
        sc = max(abs(y) for y in ys[j]) or 1.0
        if not (close(raw_price[j], rd(out[0]), scale=sc) and (n < 2 or close(float(raw_err[j]) ** 2, rd(out[2]), scale=sc * sc))):
            ctx.fail("corr", "c07.stats.model", desc, {"name": "Drivers/C07 stats vs MCStatistics.price/mc_stddev", "component": j,
                                                        "impl": [raw_price[j], float(raw_err[j]) ** 2], "model": out}, cls=cls)
            return
    stored = ctx.lean(f"rows {w(df)} {w(notional)} {wl([payoff_value(kind, strikes[0], s) for s in vals])}")
    if [fr(x) for x in rows[:, 0]] != rdl(stored):
        ctx.fail("corr", "c07.rows.model", desc, {"name": "Drivers/C07 rows vs stored payoff statistics", "impl": rows[:6, 0].tolist(), "model": stored[:200]}, cls=cls)
        return
    if not controls:
        return
    adj_price = np.atleast_1d(st.price()).astype(float)
    adj_err = np.atleast_1d(st.mc_stddev()).astype(float)
    adj_rows = np.array(st._payoff_statistics_with_cv.stats, dtype=float)
    k = len(controls)
    # control values per (control j, component c): a scalar-strike control is broadcast to every component
    xs = [[[df * cn * payoff_value(ck, _comp(cs, c), s) for s in vals] for c in range(d)] for ck, cs, _, cn in controls]
    prices = [[float(_comp(cp, c)) for c in range(d)] for _, _, cp, _ in controls]
    X_impl = np.array(st._control_variates_statistics.stats, dtype=float)
    if adj_rows.shape != rows.shape or X_impl.shape != (n, k, d):
        ctx.fail("oracle", "c07.cv_shape", desc, {"adjusted": adj_rows.shape, "raw": rows.shape, "controls": X_impl.shape}, cls=cls)
        return
    if any([float(v) for v in X_impl[:, j, c]] != xs[j][c] for j in range(k) for c in range(d)):
        ctx.fail("oracle", "c07.cv_rows", desc, {"what": "control row i is not df*notional*payoff of control j on path i (per component)"}, cls=cls)
        return
    conds, exact_singular = [], []
    for j in range(d):
        y = np.array(ys[j])
        X = np.array([xs[i][j] for i in range(k)])                     # (k, n): the controls of THIS component
        pr = np.array([prices[i][j] for i in range(k)])
        means_match = all(abs(np.mean(X[i]) - pr[i]) <= 1e-15 * max(1.0, abs(pr[i])) for i in range(k))
        tol = 1e-9 * (abs(raw_price[j]) + float(np.max(np.abs(y))) + 1.0)
        if means_match and abs(adj_price[j] - raw_price[j]) > tol:
            ctx.fail("oracle", "c07.cv_mean_identity", desc, {"component": j, "adjusted": adj_price[j], "raw": raw_price[j]}, cls=cls)
            return
        if means_match:
            ctx.branches["c07.cv:identity_premise_holds"] += 1
        sx = np.atleast_2d(np.cov(X, bias=True))
        with np.errstate(all="ignore"):
            cond = float(np.linalg.cond(sx)) if np.all(np.isfinite(sx)) else float("inf")
        conds.append(cond)
        if n > k + 1 and float(adj_err[j]) > float(raw_err[j]) * (1 + 1e-9) + 1e-13:
            ctx.fail("oracle", "c07.cv_variance", desc, {"component": j, "adjusted_err": float(adj_err[j]), "raw_err": float(raw_err[j]),
                                                          "cond_sigma_x": cond},
                     cls=dict(cls, singular_sigma_x=bool(cond > 1e12 and k >= 2)))   # (class kept for the record: fixed in /repo)
            return
        if k >= 2 and n > k + 1:
            # k controls: theorem cv_var_le_raw_normal_equations needs coefficients solving the normal equations.  Judge what the
            # implementation actually did, without assuming how it computes b: the fitted adjustment f = Y - adjusted must be a
            # combination A b of the centred-by-price controls A = X - price_X, and it must satisfy the normal equations
            # (1/n) Xc^T (f - mean f) = Sigma_XY  (they depend on b only through A b, so collinear controls are no obstacle)
            cov = np.cov(X, y, bias=True)
            sxx, sxy = cov[:-1, :-1], cov[:-1, -1]
            if float(np.amin(np.abs(sxx))) >= 1e-12:
                A = X.T - pr                                                   # (n, k)
                f = y - adj_rows[:, j]
                b_impl, *_ = np.linalg.lstsq(A, f, rcond=None)
                sc = float(np.max(np.abs(y))) + float(np.max(np.abs(f))) + 1e-300
                if float(np.max(np.abs(A @ b_impl - f))) > 1e-7 * sc:
                    ctx.fail("oracle", "c07.cv_rows", desc, {"what": "adjusted rows are not Y - b*(X - price_X) for any coefficient vector b of the "
                                                                      "component", "component": j, "adjusted": adj_rows[:4, j].tolist(),
                                                            "distance_to_the_span": float(np.max(np.abs(A @ b_impl - f)))}, cls=cls)
                    return
                Xc = X.T - np.mean(X.T, axis=0)
                resid = Xc.T @ (f - np.mean(f)) / n - sxy
                scale_b = float(np.max(np.abs(sxy))) + 1e-300
                if float(np.max(np.abs(resid))) > 1e-8 * scale_b:
                    ctx.fail("oracle", "c07.cv_normal_equations", desc, {"what": "the regression coefficients used by the engine do not solve the normal equations",
                                                                        "component": j, "residual": resid.tolist(), "cond_sigma_x": cond,
                                                                        "eigenvalues": np.linalg.eigvalsh(sxx).tolist()},
                             cls=dict(cls, near_singular_sigma_x=bool(cond > 1e13)))
                    return
                if cond > 1e12:
                    ctx.branches["c07.cv:pinv_singular_sigma_x"] += 1
    if k > 2:
        return
    # ---- C: the model's adjusted array (Stats.adjustVec with the kernel as coded), all components at once
    from fractions import Fraction as F
    for j in range(d):
        X = [[F(v) for v in xs[i][j]] for i in range(k)]
        m = [sum(r) / n for r in X]
        cv_ = lambda a, b, ma, mb: sum((p - ma) * (q - mb) for p, q in zip(a, b)) / n
        ent = [cv_(X[a], X[b], m[a], m[b]) for a in range(k) for b in range(k)]
        if any(F(1, 10 ** 13) < abs(e) < F(1, 10 ** 11) for e in ent):      # guard boundary: don't care
            ctx.excluded_small_margin += 1
            return
        if k == 2:
            det0 = ent[0] * ent[3] - ent[1] * ent[2] == 0
            exact_singular.append(det0)
            if not det0 and conds[j] > 1e10:                                 # nearly singular: float pinv cut-off is a don't-care
                ctx.excluded_small_margin += 1
                return
    out = ctx.lean("cvvec %d %d %s %s %s" % (k, d, cm_wll(prices), cm_wll([xs[i][c] for i in range(k) for c in range(d)]), cm_wll(ys))).split(" ")
    adj_m, b_m, mean_m, err_m = rdll(out[0]), rdll(out[1]), rdl(out[2]), rdl(out[3])
    for j in range(d):
        amp = 1.0 if (k == 1 or (exact_singular and exact_singular[j])) else max(1.0, conds[j] / 1e3)
        sc = ((max(abs(v) for v in ys[j]) or 1.0) + sum(abs(float(b_m[j][i])) * (max(abs(v - prices[i][j]) for v in xs[i][j]) or 1.0)
                                                         for i in range(k))) * amp * max(1, n)
        ok = len(adj_m[j]) == n and all(close(p_, q_, scale=sc) for p_, q_ in zip(adj_rows[:, j], adj_m[j])) \
            and close(adj_price[j], mean_m[j], scale=sc) and (n < 2 or close(float(adj_err[j]) ** 2, err_m[j], scale=sc * sc))
        if not ok:
            ctx.fail("corr", "c07.cvvec.model", desc, {"name": "Drivers/C07 cvvec (Stats.adjustVec, kernel as coded) vs compute_coefficients",
                                                        "component": j, "impl": [adj_rows[:4, j].tolist(), adj_price[j], float(adj_err[j]) ** 2],
                                                        "model": [[float(v) for v in adj_m[j][:4]], float(mean_m[j]), float(err_m[j]), [float(b) for b in b_m[j]]]}, cls=cls)
            return
        ctx.branches[f"c07.cvvec:k{k}:d{d}" + (":singular" if exact_singular and exact_singular[j] else "")] += 1


def gen_case(rng, n=None):
    n = n or rng.choice([2, 3, 4, 5, 8, 16, 50, 200])
    base = rng.choice([1.0, 4.0, 100.0])
    vals = [base * (1 + rng.randint(-64, 64) / 128) for _ in range(n)]
    kind = rng.choice(["call", "put", "forward", "call"])
    d = 1 if kind == "forward" else rng.choice([1, 1, 2, 3])
    strikes = [base * rng.choice([0.75, 1.0, 1.125, 0.5]) for _ in range(d)]
    notional = rng.choice([1.0, 2.0, 0.5, 10.0])
    df = rng.choice([1.0, 0.5, 0.75])
    nc = rng.choice([0, 0, 1, 1, 2, 3])
    controls = []
    # shapes: scalar-valued controls are broadcast to every payoff component; vector-valued controls (strikes of length d) give every
    # component its own control column; prices are all scalars or all vectors of length d (the code looks at prices[0] only)
    vec_controls = d > 1 and rng.random() < 0.4
    vec_prices = d > 1 and rng.random() < 0.4
    centred = rng.random() < 0.5
    for _ in range(nc):
        ck = "call" if vec_controls else rng.choice(["forward", "call"])
        cs = [base * rng.choice([0.5, 0.875, 1.0, 0.625]) for _ in range(d)] if vec_controls else base * rng.choice([0.5, 0.875, 1.0])
        cn = rng.choice([1.0, 1.0, 2.5, 0.5, 10.0])             # the control products carry their own notional
        exact = [float(np.mean([df * cn * payoff_value(ck, _comp(cs, c), s) for s in vals])) for c in range(d)]
        if vec_prices:
            cprice = [e if centred else e + rng.choice([-0.25, 0.125, 0.5]) for e in exact]
        else:
            cprice = exact[0] if centred else exact[0] + rng.choice([-0.25, 0.125, 0.5])
        controls.append((ck, cs, cprice, cn))
    return vals, kind, strikes, notional, df, controls, rng.random() < 0.3


# ------------------------------------------------------------------------------------------------------------------------------
# shared-object histories: product / control / ControlVariates / configuration / engine OBJECTS built once and used for several
# pricings in a row while the process (its representation LOG / IDENTITY, its dimension-compatible paths, its discount factor) and the
# engine change between the pricings; products and controls on every underlying class of rpylib.product.underlying.  Every pricing is
# judged (i) against the textbook formulas evaluated by the harness on the spot paths and (ii) against the same pricing done with
# freshly built objects.
U_FLAT = ["Spot", "Libors", "LogSpot", "Asian", "Mean", "Performances", "MaxPerf", "Indicators", "DefaultTime"]       # one underlying, 1-d paths
U_MULTI = ["Spot", "Libors", "LogSpot", "Asian", "Mean", "Performances", "MaxPerf", "NthSpot", "Indicators", "DefaultTimeNth", "NthDefaultTimes"]
U_PARAM_FREE = ("Spot", "Libors", "LogSpot", "Asian", "Mean")
LEVELS = [-0.9, -0.4, -1.2, -1.6]            # default levels: far from the multiples of log 2 the scripted jump ratios take


def sh_underlying(spec):
    from rpylib.product import underlying as U
    n = spec[0]
    if n == "Spot":
        return U.Spot()
    if n == "Libors":
        return U.Libors()
    if n == "LogSpot":
        return U.LogSpot()
    if n == "Asian":
        return U.Asian(U.Discretisation.MONTHLY)
    if n == "Mean":
        return U.Mean()
    if n == "Performances":
        return U.Performances(list(spec[1]))
    if n == "MaxPerf":
        return U.MaximumOfPerformances(list(spec[1]))
    if n == "NthSpot":
        return U.NthSpot(spec[1])
    if n == "Indicators":
        return U.Indicators(list(spec[1]))
    if n == "DefaultTime":
        return U.DefaultTime(spec[1])
    if n == "DefaultTimeNth":
        return U.DefaultTimeNthUnderlying(list(spec[1]), spec[2])
    if n == "NthDefaultTimes":
        return U.NthDefaultTimes(list(spec[1]), spec[2])
    raise ValueError(n)


def _first_default(times, log_jumps, level):
    idx = [i for i, v in enumerate(np.diff(log_jumps)) if v < level]
    return float(times[idx[0] + 1]) if idx else math.inf


def sh_underlying_value(spec, times, S, J):
    """textbook value of the underlying on ONE path: S = spot path (shape (T,) or (D, T)), J = path of the pure-jump factor"""
    n = spec[0]
    S, J = np.array(S, dtype=float), np.array(J, dtype=float)
    last = S[..., -1]
    if n in ("Spot", "Libors"):
        return last
    if n == "LogSpot":
        return np.log(last)
    if n == "Asian":
        res, lt = 0.0, 0.0
        for k, t in enumerate(times):
            res, lt = res + S[..., k] * (t - lt), t
        return res / lt
    if n == "Mean":
        return float(np.mean(last))
    if n == "Performances":
        return np.atleast_1d(last / np.array(spec[1]))
    if n == "MaxPerf":
        return float(np.max(last / np.array(spec[1])))
    if n == "NthSpot":
        return float(S[spec[1] - 1, -1])
    if n == "Indicators":
        return np.array([1.0 if np.all(last > np.array(spec[1])) else 0.0])
    if n == "DefaultTime":
        return _first_default(times, np.log(J), spec[1])
    if n == "DefaultTimeNth":
        return _first_default(times, np.log(J[spec[2] - 1]), spec[1][spec[2] - 1])
    if n == "NthDefaultTimes":
        return sorted(_first_default(times, np.log(J[i]), a) for i, a in enumerate(spec[1]))[spec[2] - 1]
    raise ValueError(n)


def sh_payoff_fn(ps):
    """the payoff as a plain function of the underlying value (used by the oracle, and handed to PayoffOnTheFly for the w* / capT kinds)"""
    kind = ps[0]
    if kind == "forward":
        return lambda u: u - ps[1]
    if kind == "call":
        return lambda u: max(u - ps[1], 0.0)
    if kind == "put":
        return lambda u: max(ps[1] - u, 0.0)
    if kind in ("wsum", "wcall"):
        wts, k = np.array(ps[1], dtype=float), ps[2]
        lin = lambda u: float(np.sum(wts[:np.size(u)] * np.atleast_1d(u))) - k
        return lin if kind == "wsum" else (lambda u: max(lin(u), 0.0))
    if kind == "capT":
        return lambda t: float(min(t, ps[1]))
    raise ValueError(kind)


def sh_product(p):
    from rpylib.product.payoff import Vanilla, Forward, PayoffType, PayoffOnTheFly
    from rpylib.product.product import Product
    ps = p["pay"]
    if ps[0] == "forward":
        payoff = Forward(strike=ps[1])
    elif ps[0] in ("call", "put"):
        payoff = Vanilla(strike=ps[1], payoff_type=PayoffType.CALL if ps[0] == "call" else PayoffType.PUT)
    else:
        payoff = PayoffOnTheFly(sh_payoff_fn(ps))
    return Product(payoff_underlying=sh_underlying(p["und"]), payoff=payoff, maturity=fe.T, notional=p["notional"])


class _ShModel:
    def __init__(self, dim):
        self._dim = dim
        self.models = [object() for _ in range(dim)]          # no theoretical density: the engine logs a warning and goes on

    def dimension(self):
        return self._dim


class ScriptedProcess:
    """stands in for a Lévy process of dimension `dim` simulated in the representation `rep`: the i-th simulated path is the prescribed
    spot path (its logarithm in the LOG representation), split into a diffusion part and the prescribed pure-jump part"""

    def __init__(self, rep, dim, times, spots, jumps, df, log):
        from rpylib.process.process import ProcessRepresentation
        self.process_representation = ProcessRepresentation.LOG if rep == "log" else ProcessRepresentation.IDENDITY
        self.model = _ShModel(dim)
        self._dim, self.times, self.spots, self.jumps, self._df = dim, np.array(times, dtype=float), spots, jumps, df
        self.count, self.log = 0, log

    def dimension(self):
        return self._dim

    def initialisation(self, product):
        pass

    def pre_computation(self, mc_paths, product):
        self.log.append(("pre", 0, int(mc_paths)))

    def deterministic_path(self, times):
        return np.zeros(len(times))

    def df(self, t):
        return self._df

    def simulate_one_path(self):
        from rpylib.process.process import ProcessRepresentation
        k = self.count
        self.count += 1
        self.log.append(("sim", 0, k))
        s, j = np.array(self.spots[k], dtype=float), np.array(self.jumps[k], dtype=float)
        if self.process_representation == ProcessRepresentation.LOG:
            s, j = np.log(s), np.log(j)
        return fe.StochasticJumpPath(self.times, s - j, j)


def sh_known_class(pund, cund):
    """classes of (payoff underlying, control underlying) on which the UNCHANGED library is known to fail (known_findings.d/C07.json)"""
    if cund[0] == pund[0] and cund[0] not in U_PARAM_FREE and cund != pund:
        return "control_same_class_other_parameters"
    if cund[0] == "NthSpot" and pund[0] == "Spot":
        return "nthspot_control_spot_payoff_underlying"
    return None


def sh_textbook(hist, step):
    """textbook samples of one pricing: y (n), X (n, k), prices (k)"""
    p = hist["products"][step["product"]]
    f = sh_payoff_fn(p["pay"])
    n = len(step["spots"])
    uv = lambda spec, i: sh_underlying_value(spec, step["times"], step["spots"][i], step["jumps"][i])
    y = np.array([step["df"] * p["notional"] * f(uv(p["und"], i)) for i in range(n)], dtype=float)
    ctl = [hist["controls"][j] for j in hist["cvs"][step["cv"]]] if step["cv"] is not None else []
    X = np.array([[step["df"] * c["notional"] * sh_payoff_fn(c["pay"])(uv(c["und"], i)) for c in ctl] for i in range(n)], dtype=float).reshape(n, len(ctl))
    return y, X, ctl


def sh_extract(r, n, k):
    st = r["stats"]
    out = dict(rows=np.array(st._payoff_statistics.stats, dtype=float), raw_price=float(np.atleast_1d(st.price(no_control_variates=True))[0]),
               raw_err=float(np.atleast_1d(st.mc_stddev(no_control_variates=True))[0]), sims=[i for kind_, _, i in r["log"] if kind_ == "sim"])
    if k:
        out.update(X=np.array(st._control_variates_statistics.stats, dtype=float), adj=np.array(st._payoff_statistics_with_cv.stats, dtype=float),
                   adj_price=float(np.atleast_1d(st.price())[0]), adj_err=float(np.atleast_1d(st.mc_stddev())[0]))
    return out


class SharedWorld:
    """the objects of one history, built once"""

    def __init__(self, hist):
        from rpylib.montecarlo.configuration import ConfigurationStandard
        from rpylib.product.product import ControlVariates
        self.hist = hist
        self.products = [sh_product(p) for p in hist["products"]]
        self.controls = [sh_product(c) for c in hist["controls"]]
        self.cvs = [ControlVariates(products=[self.controls[j] for j in idx], prices=[0.0] * len(idx)) for idx in hist["cvs"]]
        self.cfg = ConfigurationStandard(mc_paths=1, nb_of_processes=1)
        self.engine = None

    def price(self, step):
        from rpylib.montecarlo.configuration import ConfigurationStandard
        from rpylib.montecarlo.standard.engine import Engine
        from rpylib.product.product import NoControlVariates
        log = []
        proc = ScriptedProcess(step["rep"], self.hist["dim"], step["times"], step["spots"], step["jumps"], step["df"], log)
        cv = None
        if step["cv"] is not None:
            cv = self.cvs[step["cv"]]
            cv.prices = list(step["prices"])                  # the live object gets the prices of this pricing
        n = len(step["spots"])
        if step["config"] == "new":
            self.cfg = ConfigurationStandard(mc_paths=n, control_variates=cv, activate_spot_statistics=step["spot_stats"], nb_of_processes=1)
        else:
            self.cfg.mc_paths, self.cfg.activate_spot_statistics = n, step["spot_stats"]
            self.cfg.control_variates = cv if cv is not None else NoControlVariates()
        if step["engine"] == "new" or self.engine is None:
            self.engine = Engine(configuration=self.cfg, process=proc)
        else:
            self.engine.configuration, self.engine.process = self.cfg, proc
        with np.errstate(all="ignore"):
            stats = self.engine.price(self.products[step["product"]])
        return dict(stats=stats, log=log)


def sh_fresh(hist, step):
    """the same pricing with freshly built objects only"""
    sub = dict(hist, cvs=[hist["cvs"][step["cv"]]] if step["cv"] is not None else [])
    return SharedWorld(sub).price(dict(step, cv=0 if step["cv"] is not None else None, config="new", engine="new"))


def _near(a, b, rel=1e-11):
    a, b = np.asarray(a, dtype=float), np.asarray(b, dtype=float)
    return a.shape == b.shape and bool(np.all((a == b) | (np.abs(a - b) <= rel * (1.0 + np.abs(a) + np.abs(b)))))


def sh_judge(ctx, hist, i, r, fresh):
    """judge pricing number i of the history: r = result on the shared objects, fresh = result on fresh objects (or an exception)"""
    step = hist["steps"][i]
    desc = dict(history=dict(hist, steps=hist["steps"][:i + 1]), step=i)
    y, X, ctl = sh_textbook(hist, step)
    n, k = len(y), len(ctl)
    pund = hist["products"][step["product"]]["und"]
    prev = [s for s in hist["steps"][:i] if s["cv"] == step["cv"] and s["cv"] is not None]
    cls = dict(kind="shared", dim=1, ncontrols=k, process_dim=hist["dim"], rep=step["rep"], step=i,
               rep_changed=bool(prev and prev[-1]["rep"] != step["rep"]), payoff_underlying=pund[0])
    known = [sh_known_class(pund, c["und"]) for c in ctl]
    nontrivial = n >= 3 and len(set(y.tolist())) > 1
    ctx.count("c07.shared", desc, nontrivial=nontrivial, branch=f"{step['rep']}:cv{k}:step{min(i, 3)}")
    if isinstance(r, Exception):
        kn = next((x for x in known if x == "nthspot_control_spot_payoff_underlying"), None)
        ctx.fail("oracle", "c07.engine_raises", desc, {"what": f"{type(r).__name__}: {r}", "fresh_objects_raise_too": isinstance(fresh, Exception)},
                 cls=dict(cls, known_class=kn), mirrors_model=(isinstance(r, TypeError) and "positional argument" in str(r)) if kn else None)
        return
    e = sh_extract(r, n, k)
    rows = e["rows"]
    if e["sims"] != list(range(n)) or rows.shape != (n, 1):
        ctx.fail("oracle", "c07.each_path_once", desc, {"what": "paths simulated / rows stored", "sims": e["sims"][:10], "rows": list(rows.shape)}, cls=cls)
        return
    if not _near(rows[:, 0], y):
        ctx.fail("oracle", "c07.each_path_once", desc, {"what": "row i is not df*notional*payoff(underlying(path i))", "rows": rows[:6, 0].tolist(),
                                                         "expected": y[:6].tolist()}, cls=cls)
        return
    m, sd = float(np.mean(y)), float(np.std(y, ddof=1) / math.sqrt(n)) if n > 1 else 0.0
    if not math.isclose(e["raw_price"], m, rel_tol=1e-10, abs_tol=1e-12):
        ctx.fail("oracle", "c07.price", desc, {"price": e["raw_price"], "expected": m}, cls=cls)
        return
    if n > 1 and not math.isclose(e["raw_err"], sd, rel_tol=1e-9, abs_tol=1e-12):
        ctx.fail("oracle", "c07.stderr", desc, {"mc_stddev": e["raw_err"], "expected": sd, "n": n}, cls=cls)
        return
    out = ctx.lean(f"stats {wl(y.tolist())}").split(" ")
    sc = float(np.max(np.abs(y))) or 1.0
    if not (close(e["raw_price"], rd(out[0]), scale=sc) and (n < 2 or close(e["raw_err"] ** 2, rd(out[2]), scale=sc * sc))):
        ctx.fail("corr", "c07.stats.model", desc, {"name": "Drivers/C07 stats vs MCStatistics.price/mc_stddev (shared objects)",
                                                    "impl": [e["raw_price"], e["raw_err"] ** 2], "model": out}, cls=cls)
        return
    if k:
        if e["X"].shape != (n, k, 1) or e["adj"].shape != (n, 1):
            ctx.fail("oracle", "c07.cv_shape", desc, {"adjusted": list(e["adj"].shape), "controls": list(e["X"].shape)}, cls=cls)
            return
        bad = [j for j in range(k) if not _near(e["X"][:, j, 0], X[:, j])]
        for j in bad:
            mirrors = None
            if known[j] == "control_same_class_other_parameters":      # the recorded faulty value: the control's payoff of the PAYOFF underlying
                fc = sh_payoff_fn(ctl[j]["pay"])
                mirrors = _near(e["X"][:, j, 0], [step["df"] * ctl[j]["notional"] * fc(sh_underlying_value(pund, step["times"], s_, j_))
                                                  for s_, j_ in zip(step["spots"], step["jumps"])])
            ctx.fail("oracle", "c07.cv_rows", desc, {"what": "control row i is not df*notional*payoff(underlying(path i)) of control j", "control": j,
                                                      "control_underlying": ctl[j]["und"], "rows": e["X"][:5, j, 0].tolist(), "expected": X[:5, j].tolist()},
                     cls=dict(cls, known_class=known[j], control_underlying=ctl[j]["und"][0]), mirrors_model=mirrors)
        if bad:
            return
        if any(known):
            ctx.branches["c07.shared:known_class_control_behaved"] += 1
        pr = np.array(step["prices"], dtype=float)
        means_match = bool(np.all(np.abs(np.mean(X, axis=0) - pr) <= 1e-15 * np.maximum(1.0, np.abs(pr))))
        tol = 1e-9 * (abs(m) + float(np.max(np.abs(y))) + 1.0)
        if means_match:
            ctx.branches["c07.cv:identity_premise_holds"] += 1
            if abs(e["adj_price"] - e["raw_price"]) > tol:
                ctx.fail("oracle", "c07.cv_mean_identity", desc, {"adjusted": e["adj_price"], "raw": e["raw_price"]}, cls=cls)
                return
        if n > k + 1 and e["adj_err"] > e["raw_err"] * (1 + 1e-9) + 1e-13:
            ctx.fail("oracle", "c07.cv_variance", desc, {"adjusted_err": e["adj_err"], "raw_err": e["raw_err"]}, cls=cls)
            return
        # the adjusted rows are Y - b (X - price_X) with b solving the normal equations (b judged through the fitted part only)
        sxx = np.atleast_2d(np.cov(X.T, bias=True))
        A, f = X - pr, y - e["adj"][:, 0]
        scf = float(np.max(np.abs(y))) + float(np.max(np.abs(f))) + 1e-300
        floor = 1e-10 * (1.0 + float(np.max(np.abs(A))))       # exp(log(.)) leaves ~1e-14 where the textbook sample is exactly 0
        if float(np.amin(np.abs(sxx))) < 1e-13:                # the coded fall-back: no adjustment at all
            if float(np.max(np.abs(f))) > 1e-9 * scf + floor:
                ctx.fail("oracle", "c07.cv_rows", desc, {"what": "a control with zero sample (co)variance: adjusted rows differ from the raw ones"}, cls=cls)
                return
        elif float(np.amin(np.abs(sxx))) >= 1e-11 and n > k + 1:
            with np.errstate(all="ignore"):
                cond = float(np.linalg.cond(sxx))
            b_impl, *_ = np.linalg.lstsq(A, f, rcond=None)
            if float(np.max(np.abs(A @ b_impl - f))) > 1e-7 * scf + floor:
                ctx.fail("oracle", "c07.cv_rows", desc, {"what": "adjusted rows are not Y - b*(X - price_X) for any coefficient vector b",
                                                          "distance_to_the_span": float(np.max(np.abs(A @ b_impl - f)))}, cls=cls)
                return
            sxy = np.cov(X.T, y, bias=True)[:-1, -1]
            resid = (X - np.mean(X, axis=0)).T @ (f - np.mean(f)) / n - sxy
            if cond < 1e10 and float(np.max(np.abs(resid))) > 1e-8 * float(np.max(np.abs(sxy))) * max(1.0, cond / 1e3) \
                    + floor * (1.0 + float(np.max(np.abs(y)))):
                ctx.fail("oracle", "c07.cv_normal_equations", desc, {"what": "the regression coefficients used by the engine do not solve the normal equations",
                                                                    "residual": resid.tolist(), "cond_sigma_x": cond},
                         cls=dict(cls, near_singular_sigma_x=bool(cond > 1e13)))
                return
            if k == 1:
                o = ctx.lean(f"cv1 {w(float(pr[0]))} {wl(X[:, 0].tolist())} {wl(y.tolist())}").split(" ")
                b_m, adj_m = rd(o[0]), rdl(o[1])
                s1 = (sc + abs(float(b_m)) * (float(np.max(np.abs(A))) or 1.0)) * n
                if not (all(close(p_, q_, scale=s1) for p_, q_ in zip(e["adj"][:, 0], adj_m)) and close(e["adj_price"], rd(o[2]), scale=s1)
                        and close(e["adj_err"] ** 2, rd(o[3]), scale=s1 * s1)):
                    ctx.fail("corr", "c07.cv1.model", desc, {"name": "Drivers/C07 cv1 (bStar, adjust) vs compute_coefficients (shared objects)",
                                                              "impl": [e["adj"][:4, 0].tolist(), e["adj_price"], e["adj_err"] ** 2],
                                                              "model": [[float(v) for v in adj_m[:4]], float(rd(o[2])), float(rd(o[3])), float(b_m)]}, cls=cls)
                    return
    # ---- the same pricing with freshly built objects
    if isinstance(fresh, Exception):
        ctx.fail("oracle", "c07.engine_raises", desc, {"what": f"freshly built objects: {type(fresh).__name__}: {fresh}"}, cls=dict(cls, fresh_objects=True))
        return
    g = sh_extract(fresh, n, k)
    names = ["rows", "raw_price", "raw_err"] + (["X", "adj", "adj_price", "adj_err"] if k else [])
    diff = [nm for nm in names if not _near(e[nm], g[nm], rel=1e-9 if nm.startswith("adj") else 1e-11)]
    if diff:
        ctx.fail("oracle", "c07.shared_vs_fresh", desc, {"what": "objects used before give another result than freshly built objects on the same paths",
                                                          "differs": diff, "shared": [e["raw_price"], e.get("adj_price")],
                                                          "fresh": [g["raw_price"], g.get("adj_price")]}, cls=cls)
        return
    ctx.branches[f"c07.shared:ok:{'rep_changed' if cls['rep_changed'] else 'rep_same'}"] += 1


def shared_history(ctx, hist, only=None):
    """run the history on ONE set of objects; judge every pricing (or only pricing `only`, for a replay)"""
    world = SharedWorld(hist)
    for i, step in enumerate(hist["steps"]):
        try:
            r = world.price(step)
        except Exception as ex:                                # noqa
            r = ex
        if only is not None and i != only:
            continue
        try:
            fresh = sh_fresh(hist, step)
        except Exception as ex:                                # noqa
            fresh = ex
        sh_judge(ctx, hist, i, r, fresh)


def _sh_paths(rng, dim, n, base, nt):
    shape = (nt,) if dim == 1 else (dim, nt)
    spots = [(base * (1 + np.array([rng.randint(-40, 64) for _ in range(int(np.prod(shape)))]).reshape(shape) / 64.0)).tolist() for _ in range(n)]
    jumps = [np.array([2.0 ** rng.choice([-2, -1, -1, 0, 0, 1]) for _ in range(int(np.prod(shape)))]).reshape(shape).tolist() for _ in range(n)]
    return spots, jumps


def _sh_und(rng, name, dim, base):
    s0 = lambda: [base * rng.choice([0.5, 1.0, 2.0]) for _ in range(dim)]
    if name in ("Performances", "MaxPerf"):
        return [name, s0()]
    if name == "NthSpot":
        return [name, rng.randint(1, dim)]
    if name == "Indicators":
        return [name, [base * (1 + (rng.randint(-30, 20) + 0.5) / 64.0) for _ in range(dim)]]          # half-grid: never equal to a spot
    if name == "DefaultTime":
        return [name, rng.choice(LEVELS)]
    if name in ("DefaultTimeNth", "NthDefaultTimes"):
        return [name, [rng.choice(LEVELS) for _ in range(dim)], rng.randint(1, dim)]
    return [name]


def _sh_scalarised(und, times, spots, jumps, wts):
    return [float(np.sum(np.array(wts)[:np.size(v)] * np.atleast_1d(v))) for v in
            (sh_underlying_value(und, times, s, j) for s, j in zip(spots, jumps))]


def _sh_product(rng, und, dim, times, spots, jumps, control):
    """a product on `und` whose strike sits inside the range of the underlying on the given paths"""
    if "Default" in und[0]:
        return dict(und=und, pay=["capT", rng.choice([0.5, 0.75, 1.0])], notional=rng.choice([1.0, 2.0, 0.5]))
    wts = [rng.choice([1.0, 0.5, 0.25, 2.0]) for _ in range(max(dim, 1))]
    scalar = und[0] in ("Mean", "MaxPerf", "NthSpot") or (dim == 1 and und[0] in ("Spot", "Libors", "LogSpot", "Asian"))
    u = _sh_scalarised(und, times, spots, jumps, wts if not scalar else [1.0])
    k = round(rng.choice(u) * 16) / 16 if und[0] != "Indicators" else 0.25
    if scalar and rng.random() < 0.7:
        pay = [rng.choice(["forward", "call"] if control else ["call", "put", "call", "forward"]), k]
    else:
        pay = [rng.choice(["wsum", "wcall"] if control else ["wcall", "wcall", "wsum"]), wts if not scalar else [1.0], k]
    return dict(und=und, pay=pay, notional=rng.choice([1.0, 2.0, 0.5, 10.0] if not control else [1.0, 1.0, 2.5, 0.5]))


def gen_shared_history(rng, known_classes=False):
    dim = rng.choice([1, 1, 2, 3])
    names = U_FLAT if dim == 1 else U_MULTI
    base = rng.choice([1.0, 4.0, 100.0])
    nsteps = rng.choice([2, 2, 3, 4])
    same_spots = rng.random() < 0.4                      # the same spot paths priced again (in another representation / by another engine)
    times0 = rng.choice([[0.0, 1.0], [0.0, 0.5, 1.0], [0.0, 0.25, 0.5, 1.0], [0.0, 0.125, 0.75, 1.0]])
    n0 = rng.choice([3, 4, 5, 8, 16, 30])
    ref_spots, ref_jumps = _sh_paths(rng, dim, n0, base, len(times0))
    npool = rng.choice([1, 1, 2])
    pnames = [rng.choice(names)]
    pnames += [rng.choice([pnames[0], pnames[0], rng.choice(names)]) for _ in range(npool - 1)]
    punds = []
    for nm in pnames:
        same = [u for u in punds if u[0] == nm]
        # two products on the same parametric class: the same underlying (other parameters + a control on one of them: known class)
        punds.append(same[0] if same and not known_classes else _sh_und(rng, nm, dim, base))
    products = [_sh_product(rng, u, dim, times0, ref_spots, ref_jumps, False) for u in punds]
    ncontrols = rng.choice([1, 1, 2, 3])
    cunds = []
    for _ in range(ncontrols):
        nm = rng.choice(names)
        und = _sh_und(rng, nm, dim, base)
        same = [p["und"] for p in products if p["und"][0] == nm]
        if same and nm not in U_PARAM_FREE and not known_classes:
            und = rng.choice(same)                          # same class as a payoff underlying: the same underlying (other parameters: known class)
        if nm == "NthSpot" and any(p["und"][0] == "Spot" for p in products) and not known_classes:
            und = _sh_und(rng, "Mean", dim, base)
        cunds.append(und)
    controls = [_sh_product(rng, und, dim, times0, ref_spots, ref_jumps, True) for und in cunds]
    cvs = [list(range(ncontrols))]
    if ncontrols > 1 and rng.random() < 0.4:
        cvs.append(sorted(rng.sample(range(ncontrols), rng.randint(1, ncontrols - 1))))     # a second ControlVariates object on the SAME control objects
    steps = []
    df0 = rng.choice([1.0, 0.5, 0.75])
    for i in range(nsteps):
        if same_spots or i == 0:
            times, spots, jumps, df = times0, ref_spots, ref_jumps, df0
        else:
            times = rng.choice([times0, [0.0, 1.0], [0.0, 0.5, 1.0], [0.0, 0.25, 0.5, 1.0]])
            n = rng.choice([n0, n0, 3, n0 + 2, 2 * n0])
            spots, jumps = _sh_paths(rng, dim, n, base, len(times))
            df = rng.choice([df0, 1.0, 0.5, 0.75])
        rep = rng.choice(["log", "id"]) if i == 0 else rng.choice(["log", "id", "other", "other"])
        if rep == "other":
            rep = "id" if steps[-1]["rep"] == "log" else "log"
        cv = rng.choice([0, 0, 0, len(cvs) - 1, None]) if i else rng.choice([0, 0, len(cvs) - 1])
        step = dict(rep=rep, product=rng.randrange(len(products)), cv=cv, times=times, spots=spots, jumps=jumps, df=df,
                    spot_stats=rng.random() < 0.2, engine=rng.choice(["new", "keep"]), config=rng.choice(["new", "keep"]), prices=[])
        if cv is not None:
            _, X, _ = sh_textbook(dict(products=products, controls=controls, cvs=cvs), step)
            centred = rng.random() < 0.6
            step["prices"] = [float(v) if centred else float(v) + rng.choice([-0.25, 0.125, 0.5]) for v in np.mean(X, axis=0)]
        steps.append(step)
    return dict(dim=dim, products=products, controls=controls, cvs=cvs, steps=steps)


def directed_shared_histories():
    """one ControlVariates object / configuration priced LOG then IDENTITY (and the reverse) on the same spots, a control on every
    underlying class next to a product on another class; then the same with a fresh engine per pricing"""
    out = []
    for dim, names in ((1, U_FLAT), (2, U_MULTI)):
        rng = __import__("random").Random(7 + dim)
        times = [0.0, 0.25, 0.5, 1.0]
        spots, jumps = _sh_paths(rng, dim, 8, 4.0, len(times))
        for pname in names:
            pund = _sh_und(rng, pname, dim, 4.0)
            product = _sh_product(rng, pund, dim, times, spots, jumps, False)
            cunds = [_sh_und(rng, nm, dim, 4.0) for nm in names if nm != pname and not (nm == "NthSpot" and pname == "Spot")]
            controls = [_sh_product(rng, u, dim, times, spots, jumps, True) for u in cunds]
            for order in (["log", "id", "log"], ["id", "log"]):
                for engine in ("keep", "new"):
                    hist = dict(dim=dim, products=[product], controls=controls, cvs=[[j] for j in range(len(controls))], steps=[])
                    for j in range(len(controls)):
                        for rep in order:
                            step = dict(rep=rep, product=0, cv=j, times=times, spots=spots, jumps=jumps, df=0.5, spot_stats=False, engine=engine,
                                        config="keep" if engine == "keep" else "new", prices=[])
                            _, X, _ = sh_textbook(hist, step)
                            step["prices"] = [float(v) for v in np.mean(X, axis=0)]
                            hist["steps"].append(step)
                    out.append(hist)
    # the two classes on which the unchanged library is known to fail (known_findings.d/C07.json), so that every run reports them
    rng = __import__("random").Random(11)
    times = [0.0, 0.5, 1.0]
    spots, jumps = _sh_paths(rng, 2, 6, 4.0, len(times))
    for pund, cund in ((["NthSpot", 1], ["NthSpot", 2]), (["Performances", [4.0, 2.0]], ["Performances", [8.0, 4.0]]), (["Spot"], ["NthSpot", 2])):
        hist = dict(dim=2, products=[_sh_product(rng, pund, 2, times, spots, jumps, False)],
                    controls=[_sh_product(rng, cund, 2, times, spots, jumps, True)], cvs=[[0]], steps=[])
        for rep in ("id", "log"):
            step = dict(rep=rep, product=0, cv=0, times=times, spots=spots, jumps=jumps, df=0.5, spot_stats=False, engine="new", config="new", prices=[])
            step["prices"] = [float(v) for v in np.mean(sh_textbook(hist, step)[1], axis=0)]
            hist["steps"].append(step)
        out.append(hist)
    return out


def run(ctx):
    rng = ctx.rng
    for hist in directed_shared_histories():
        shared_history(ctx, hist)
    for i in range(ctx.n(120, 1500)):
        shared_history(ctx, gen_shared_history(rng, known_classes=(i % 8 == 7)))
    for _ in range(ctx.n(250, 4000)):
        vals, kind, strikes, notional, df, controls, spot = gen_case(rng)
        one_case(ctx, vals, kind, strikes, notional, df, controls, spot, "random")
    # engine reuse: one Engine object priced 2-3 times in a row, paths going down / equal / up, payoff dimension same / different,
    # controls switched on / off / changed between the runs
    for _ in range(ctx.n(25, 300)):
        n0 = rng.choice([5, 8, 16, 50])
        sizes = [n0, rng.choice([2, 3, n0 // 2 + 1, n0, n0, n0 + 3, 2 * n0])] + ([rng.choice([3, n0, n0 + 5])] if rng.random() < 0.5 else [])
        cases, keep = [], None
        for m in sizes:
            vals, kind, strikes, notional, df, controls, spot = gen_case(rng, n=m)
            if keep is not None and rng.random() < 0.6:       # same product shape as the previous run (same payoff dimension), new paths
                kind, strikes, notional = keep
                if rng.random() < 0.5:
                    controls = [c for c in controls if not isinstance(c[1], list) and not isinstance(c[2], list)][:2] if len(strikes) == 1 else []
                else:
                    controls = []
            if len(strikes) == 1:
                controls = [c for c in controls if not isinstance(c[1], list) and not isinstance(c[2], list)]
            keep = (kind, strikes, notional)
            cases.append((vals, kind, strikes, notional, df, controls, spot))
        reuse_history(ctx, cases, "reuse")
    # directed reuse: 8 paths then 5 on the same engine (stale rows 5..7 must not be counted), with and without a control, vector strikes
    for strikes, ctl in (([2.0], []), ([1.5, 2.5], []), ([2.0], [("forward", 1.0, 0.25, 2.0)]), ([1.5, 2.5], [("forward", 1.0, 0.25, 2.0)])):
        a = [1.0, 2.0, 4.0, 3.0, 0.5, 2.5, 3.5, 1.5]
        b = [2.25, 3.0, 0.75, 4.5, 1.25]
        reuse_history(ctx, [(a, "call", strikes, 2.0, 0.5, ctl, False), (b, "call", strikes, 2.0, 0.5, ctl, True), (a + b, "call", strikes, 2.0, 0.5, ctl, False)],
                      "reuse_directed")
    # directed: constant control (fallback b* = 0), constant payoff, two paths
    one_case(ctx, [1.0, 2.0, 3.0, 4.0], "call", [0.0], 1.0, 1.0, [("call", 10.0, 0.0, 1.0)], False, "constant_control")
    one_case(ctx, [5.0, 5.0, 5.0], "call", [1.0], 1.0, 0.5, [("forward", 1.0, 2.0, 1.0)], False, "constant_payoff")
    one_case(ctx, [1.0, 2.0, 4.0, 3.0], "call", [2.0], 3.0, 0.5, [("forward", 1.5, 0.5 * 2.5 * 1.0, 2.5)], False, "control_notional")
    one_case(ctx, [1.0, 3.0], "put", [2.0, 4.0], 2.0, 0.5, [], True, "two_paths_vector")
    # directed: two collinear controls (same payoff, different notionals): Sigma_X is singular, the pseudo-inverse path is taken;
    # b must still solve the normal equations and the adjusted variance must not exceed the raw one (scalar and vector payoff)
    for vals in ([1.0, 2.0, 4.0, 3.0, 0.5, 2.5], [3.0625, 2.6875, 2.375, 4.6875, 2.25], [float(i % 7) + 0.25 * (i % 3) for i in range(40)]):
        one_case(ctx, vals, "call", [2.0], 1.0, 0.5, [("forward", 1.0, 0.25, 1.0), ("forward", 1.0, 0.75, 2.0)], False, "collinear")
        one_case(ctx, vals, "call", [1.5, 2.5], 2.0, 1.0, [("call", 2.0, 0.5, 1.0), ("call", 2.0, 0.125, 0.5)], False, "collinear")
        one_case(ctx, vals, "put", [2.0, 3.0, 1.0], 1.0, 0.5, [("call", [1.0, 2.0, 3.0], [0.5, 0.25, 0.125], 1.0), ("call", [1.0, 2.0, 3.0], [0.375, 0.0, 1.0], 4.0)], False, "collinear_vector")
    # directed: vector payoff, vector-valued controls, vector prices equal to the controls' sample means: identity per component
    vals = [1.0, 2.0, 4.0, 3.0, 0.5, 2.5, 3.5, 1.5]
    ks = [1.0, 2.0, 3.0]
    pr1 = [float(np.mean([0.5 * payoff_value("call", kk, v) for v in vals])) for kk in ks]
    pr2 = [float(np.mean([0.5 * 2.0 * payoff_value("call", kk + 0.5, v) for v in vals])) for kk in ks]
    one_case(ctx, vals, "put", [2.0, 3.0, 2.5], 1.0, 0.5, [("call", ks, pr1, 1.0), ("call", [kk + 0.5 for kk in ks], pr2, 2.0)], False, "vector_identity")


def replay(ctx, rec):
    d = rec["input"]
    if "history" in d:
        shared_history(ctx, d["history"], only=d["step"])
        return
    if "reuse_prefix" in d:
        eng = new_engine()
        for vals, kind, strikes, notional, df, controls, spot in d["reuse_prefix"]:
            product, cps, cprices = _build(kind, strikes, notional, [tuple(c) for c in controls])
            try:
                price_on(eng, vals, product, df, cps, cprices, spot)
            except Exception:
                pass
        one_case(ctx, d["values"], d["kind"], d["strikes"], d["notional"], d["df"], [tuple(c) for c in d["controls"]], d["spot_stats"],
                 rec.get("cls", {}).get("kind", "replay"), engine=eng, prefix=d["reuse_prefix"])
        return
    one_case(ctx, d["values"], d["kind"], d["strikes"], d["notional"], d["df"], [tuple(c) for c in d["controls"]], d["spot_stats"],
             rec.get("cls", {}).get("kind", "replay"))
