"""C12 — rectangle mass of a copula model is a measure consistent with its margins (DESIGN.md §4 C12)."""
from __future__ import annotations

import itertools
import math
import types
import warnings

import numpy as np

from rpylib.model.levycopulamodel import LevyCopulaModel
from rpylib.distribution.levycopula import LevyCopula, ClaytonCopula, IndependentComponentsCopula, DependentComponentsCopula

from .. import zoo
from ..common import w, wl, close, fr

RULE = ("models: d in {2,3} (and d = 4, where `mass` is the general recursion itself) margins drawn from HEM / Merton (finite activity), VG / CGMY (infinite activity, every CGMY branch) with "
        "zoo.draw_params, or synthetic piecewise-constant TableMeasure margins (exact dyadic tail integrals); copulas: Clayton "
        "(theta in [0.3,4] or exactly 1, eta in (0,1)), independent, dependent; in d = 3 and d = 4 (main stream: every other d = 3 model "
        "forced, the special coordinate at 0, 1, 2 in turn; d = 4 stream: every other model forced; 40 % of the remaining draws, also as "
        "targets of `model.copula = ...` in the histories) USER-DEFINED copulas - subclasses of the library's abstract LevyCopula that "
        "are NOT symmetric functions of their arguments: SuperpositionCopula as 'Clayton with coordinate-dependent weights' Clayton(alpha u) + "
        "Independent((1 - alpha) u), dyadic alpha_i all different (asymmetric on finite arguments AND in its pair margins; also in d = 2, a "
        "quarter of the d = 2 models), NestedClaytonCopula (one pair coupled with theta1 >= theta0, all other pairs with "
        "theta0: asymmetric on finite arguments), BlockCopula (independent blocks of coordinates, each block coupled by a Clayton "
        "or the completely dependent copula: pair + single in d = 3; pair + pair, triple + single, pair + single + single in d = 4, "
        "random assignment of the coordinates) and MixtureCopula (dyadic weights; block copula + library copula or + a block copula of "
        "another partition); not in the streams that put end points exactly at 0. For every copula c12.by_definition judges "
        "margin_tail_integral(I, x) against the I-margin of model.copula BY DEFINITION (each value in the slot of its own coordinate) and "
        "mass / _mass_nd of full and sub-family rectangles against the mass written out from the definitions (mass_by_definition); "
        "c12.submargin (d = 3, 4) builds the |I|-dimensional model with the closed-form I-margin copula (restrict_cop). rectangles: every sign pattern per coordinate "
        "(negative side, positive side, straddling 0) forced in turn, end points log-uniform in [1e-3,1] or dyadic, +-inf ends "
        "with probability 0.12; dedicated sub-streams put end points / split points exactly at 0 and build boxes containing the "
        "origin. index subsets: all non-empty I of the coordinates. operation histories (d = 2, 3, 4): ONE live model object on which "
        "blocks of evaluations (mass / _mass_nd of full-dimension rectangles with random sign patterns and of proper sub-families, "
        "margin_tail_integral of any index subset, inverse_tail_integral) are interleaved with 1-3 re-configurations through public "
        "attributes - `model.copula = <other copula object>` (same or other family) or in-place edits of theta / eta of the Clayton "
        "copula it holds; afterwards every probe (non-negativity, additivity, fast = general, sub-family = whole-line = I-margin copula, "
        "whole-line = marginal mass, inverse tail, Lean correspondence) runs on that live object against the configuration it holds "
        "NOW, and c12.history compares its sub-family tail integrals with the I-margin - by definition - of model.copula and its masses "
        "with a never-mutated model of the final configuration. ORDER / CONTAINER of equivalent information (c12.index_order): a sub-family is a "
        "SET of coordinates - every index set (the FULL set and every proper sub-family, d = 2, 3, 4) is handed to mass / _mass_nd / _mass_2d / "
        "_mass_3d / margin_tail_integral with its pairs (i, a_i, b_i) listed in every order (d = 2, 3: all permutations in the dedicated stream, "
        "models with pairwise different margins, two out of three with a copula that is not a symmetric function; d = 4 and the other streams: "
        "random non-ascending listings), `indices` as list / tuple / list of numpy integers, by keyword or positionally, end points as list / "
        "tuple / float array, on fresh objects and on live objects after a history (whose evaluation ops list their coordinates in random "
        "order too); demanded: the I-margin by definition = the value of the ascending listing. non-trivial = finite non-zero mass terms; distinct = distinct "
        "(probe, model spec, history, I, a, b)")
NOT_PROVED = [
    "mass_nonneg is a theorem for d = 2 (mass2d_nonneg) and d = 3 (mass3d_nonneg_adm: all 26 sign patterns - orthant boxes, one and two "
    "straddling coordinates) from explicit hypotheses: the copula F is 2-/3-increasing (on boxes without an all-infinite corner), the sub-family "
    "tail integrals are the I-margins of F (Family3) and the marginal tail integrals are finite and decrease along every non-straddling side. For "
    "the Clayton copula in d = 2 and d = 3 (theta = 1 over Q, every theta > 0 over R, eta in [0,1]) the copula hypotheses are discharged by C11's "
    "theorems (clayton_mass2d_nonneg, clayton_mass3d_nonneg, clayton_real_mass3d_nonneg): what remains assumed there is only the monotonicity / "
    "finiteness of the marginal tail integrals (C09) and exact arithmetic. For the independent / dependent copulas the instantiation is not spelled "
    "out in Lean (their C11 theorems are about EVal-valued float models); "
    "non-negativity for d >= 4 is oracle-checked only",
    "additivity under an axis split (not at 0) is a theorem for the general recursion _mass_nd in EVERY dimension and for every index subset "
    "(massNd_additive_split, induction on the list of coordinates), and for the coded 2-d / 3-d formulas; 'a coordinate over the whole line can be "
    "erased' likewise for every d (massNd_whole_line). For d >= 4 the implementation is tied to the model by the d = 4 correspondence stream only",
    "mass = integral of the implied joint density (x_first_derivative) is checked by quadrature only",
    "Family3 / the I-margin hypothesis (sub-family tail integrals ARE the I-margins of F, each argument in its own slot) is a hypothesis of "
    "the Lean theorems; on the implementation it is oracle-checked by c12.by_definition / c12.submargin / c12.history, with copulas that "
    "are not symmetric functions so that a misplaced argument is visible",
    "inverse_tail_integral is a bracketing root search (toms748): only its contract is oracle-checked",
    "that the closed-form marginal integrals are measures (additive, non-negative) is C09, assumed here through the abstract family U",
    "that mass / margin_tail_integral depend only on the assignment coordinate -> interval (not on the order in which the caller lists the "
    "coordinates of I, the container type of `indices` / a / b, keyword or positional passing) is oracle-checked (c12.index_order) against the "
    "I-margin written out from the definitions; the Lean model takes I as a list and no permutation-invariance theorem is stated",
    "the Lean model is a pure function of (marginal tail integrals, copula): that the implementation's answers depend only on the "
    "configuration the object holds now - not on what was evaluated before `copula` was re-assigned or its parameters edited - is "
    "oracle-checked on generated operation histories (c12.history and the ordinary probes run on the live object), not proved",
]
ASSUMPTIONS = ["rectangles are half-open (a,b] with a < b in every coordinate",
               "`indices` is a list or tuple of distinct integers (Python or numpy integers) as declared (`indices: list[int]`); a numpy ARRAY of "
               "indices is outside the declared type and is not generated: on the unchanged tree it raises (`indices == self._full_indices` is an "
               "array: ValueError; `indices.index`: AttributeError), it never returns a wrong number",
               "SuperpositionCopula (Levy copula of a sum of independent Levy processes with re-weighted margins) / NestedClaytonCopula (lower-tail limit of the nested Archimedean Clayton copula, theta0 <= theta1; mixed partial derivative >= 0 "
               "checked at 150 digits) / BlockCopula / MixtureCopula (defined in this file through rpylib's public abstract class LevyCopula) are Levy copulas: "
               "independent blocks (Kallsen-Tankov Prop. 4.1 / Thm 4.4) and convex combinations; groundedness, uniform 1-d margins and "
               "d-increasingness of the concrete objects were checked with C11's oracles (d = 3, 4; 11200 random cases, no failure); their "
               "tie to M goes through massT (M fed the implementation's own table of tail integrals), not massC",
               "histories re-configure a live model only through `model.copula` and the copula's own parameters (valid values); re-assigning "
               "`model.models` (the ctor derives dimension / marginal measures from it once) or truncating the margins is outside this check",
               "the implied joint density is read as nu_1(x) nu_2(y) * sign(u1 u2) * x_first_derivative(U_1(x), U_2(y)) (see C11: the code "
               "returns sign(prod u) times the mixed partial)"]
TRUSTED = ["scipy.integrate.dblquad for the density check", "zoo.TableMeasure (exact piecewise-constant Levy density) as synthetic margin",
           "the theorems are stated for ring-valued tail-integral families; the driver runs the same generic definitions with IEEE-like "
           "values (EVal: rationals + inf/nan), which coincide with the ring operations on finite values"]

INF = math.inf


def guarded(probe):
    """an exception coming out of rpylib on a generated (valid) input is a failure of the property on the implementation
    (reported under `probe`); an exception of the harness itself stays an infrastructure error"""
    def deco(fn):
        def wrapped(ctx, inp):
            try:
                return fn(ctx, inp)
            except Exception as e:  # noqa
                import traceback
                frames = traceback.extract_tb(e.__traceback__)
                if not any("/rpylib/" in fr_.filename for fr_ in frames):
                    raise
                cls = {}
                try:
                    if "I" in inp:
                        cls = classify(inp["spec"], inp["I"], inp["a"], inp["b"])
                except Exception:
                    pass
                ctx.fail("oracle", probe, inp, {"what": "the implementation raises on this input", "exception": repr(e)[:300],
                                                "where": f"{frames[-1].filename}:{frames[-1].lineno}"}, cls=cls)
        wrapped.__name__ = fn.__name__
        return wrapped
    return deco


# ------------------------------------------------------------------------------------------------ models from JSON-able specs
class TableModel:
    """minimal margin object accepted by LevyCopulaModel: a Levy measure and an initial value"""

    def __init__(self, knots, heights):
        self.levy_triplet = types.SimpleNamespace(nu=zoo.TableMeasure(knots, heights))

    def x0_value(self):
        return 0.0

    def blumenthal_getoor_index(self):
        return 0.0


def make_margin(ms):
    if ms["fam"] == "table":
        return TableModel(ms["knots"], ms["heights"])
    return zoo.make_levy(ms["fam"], ms["params"])


# ---- user-defined Levy copulas (the property speaks of EVERY Levy-copula model; `LevyCopula` is the library's public abstract class).
# Every copula the library ships is a symmetric function of its arguments, so an implementation that puts a value into the wrong
# coordinate slot of F cannot be seen with them.  These two are not symmetric (same definitions in c19.py; zoo.py is shared).
class BlockCopula(LevyCopula):
    """Levy copula of a Levy process whose blocks of coordinates B_1, .., B_m (a partition of 0..d-1) are independent of each other, the
    coordinates inside block k being coupled by the Levy copula C_k (the identity for a single coordinate):
        F(u) = sum_k C_k(u_{B_k}) * prod_{i not in B_k} 1{u_i = +inf},     F(u) = 0 if some u_i = 0
    (Kallsen-Tankov 2006, Prop. 4.1 / Thm 4.4 written for blocks: the Levy measure sits on the coordinate subspaces of the blocks).  It is
    grounded, d-increasing and has uniform margins (checked with C11's oracles, .work/fix-c19e/validate.py); its I-margin is the block
    copula of the blocks cut down to I: finite arguments taken from two different blocks give 0."""

    def __init__(self, blocks, parts):
        self.blocks = [list(B) for B in blocks]
        self.parts = list(parts)
        self.d = sum(len(B) for B in self.blocks)
        if sorted(i for B in self.blocks for i in B) != list(range(self.d)):
            raise ValueError("blocks must partition 0..d-1")
        self.rest = [[i for i in range(self.d) if i not in B] for B in self.blocks]

    def __repr__(self):
        return f"BlockCopula(blocks={self.blocks}, parts={self.parts})"

    def __call__(self, us):
        us = np.asarray(us, dtype=float)
        if us.size != self.d:
            raise ValueError(f"BlockCopula of dimension {self.d} evaluated at {us.size} arguments")
        if np.any(us == 0):
            return 0.0
        res = 0.0
        for B, C, R in zip(self.blocks, self.parts, self.rest):
            if all(us[i] == INF for i in R):
                res += float(us[B[0]]) if len(B) == 1 else float(C(us[B]))
        return res


class MixtureCopula(LevyCopula):
    """convex combination of Levy copulas of the same dimension (groundedness, d-increasingness and uniform margins are preserved by
    convex combinations); the Levy measure of the model is the same combination of the Levy measures of the models built with the parts"""

    def __init__(self, weights, parts):
        if not (abs(sum(weights) - 1.0) < 1e-15 and all(x > 0 for x in weights)):
            raise ValueError("weights must be positive and sum to 1")
        self.weights, self.parts = list(weights), list(parts)

    def __repr__(self):
        return f"MixtureCopula(weights={self.weights}, parts={self.parts})"

    def __call__(self, us):
        us = np.asarray(us, dtype=float)
        if np.any(us == 0):
            return 0.0
        return float(sum(x * float(C(us)) for x, C in zip(self.weights, self.parts)))


class NestedClaytonCopula(LevyCopula):
    """partially nested Clayton Levy copula: G(x) = ((x_i^-t1 + x_j^-t1)^(t0/t1) + sum_{k not in pair} x_k^-t0)^(-1/t0) on [0,inf]^d with
    0 < t0 <= t1 (lower-tail limit of the nested Archimedean Clayton copula, valid for t0 <= t1: the mixed partial derivative is >= 0,
    checked at 150 digits in d = 3, 4), extended to all orthants the way the library's Clayton is:
        F(u) = 2^(2-d) G(|u|) (eta 1{prod u >= 0} - (1-eta) 1{prod u < 0}).
    NOT symmetric on FINITE arguments either: the pair (i, j) is coupled with t1, every other pair with t0.  Its proper margins are known in
    closed form: Clayton(t1, 1/2) for I = pair, Clayton(t0, 1/2) for any other pair, nested with eta = 1/2 when I contains the pair."""

    def __init__(self, pair, theta0, theta1, eta):
        if not (0 < theta0 <= theta1 and 0.0 <= eta <= 1.0 and len(pair) == 2):
            raise ValueError("expected 0 < theta0 <= theta1, eta in [0,1], a pair of coordinates")
        self.pair, self.theta0, self.theta1, self.eta = list(pair), theta0, theta1, eta

    def __repr__(self):
        return f"NestedClaytonCopula(pair={self.pair}, theta0={self.theta0}, theta1={self.theta1}, eta={self.eta})"

    def __call__(self, us):
        us = np.asarray(us, dtype=float)
        if np.any(us == 0):
            return 0.0
        x = np.abs(us)
        i, j = self.pair
        with np.errstate(all="ignore"):
            inner = (x[i] ** -self.theta1 + x[j] ** -self.theta1) ** (self.theta0 / self.theta1)
            outer = inner + sum(x[k] ** -self.theta0 for k in range(us.size) if k not in self.pair)
            g = outer ** (-1.0 / self.theta0)
        odd = int(np.sum(us < 0)) % 2
        return float(2.0 ** (2 - us.size) * g * (self.eta if odd == 0 else -(1.0 - self.eta)))


class SuperpositionCopula(LevyCopula):
    """F(u) = sum_k C_k(alpha^k * u) with positive coordinate weights alpha^k_i, sum_k alpha^k_i = 1 for every i: the Levy copula of a sum of
    independent Levy processes X^k whose marginal tail integrals are alpha^k_i U_i and whose Levy copulas are C_k (tail integrals add up).
    Used as 'Clayton with coordinate-dependent weights': Clayton(alpha * u) + Independent((1 - alpha) * u) - NOT symmetric on finite
    arguments, and its pair margins Clayton_{theta,1/2}(alpha_i u_i, alpha_j u_j) are not symmetric either; valid in d = 2 as well."""

    def __init__(self, scales, parts):
        self.scales = [np.asarray(a, dtype=float) for a in scales]
        self.parts = list(parts)
        if not (np.all(sum(self.scales) == 1.0) and all(np.all(a > 0) for a in self.scales)):
            raise ValueError("scales must be positive and sum to 1 in every coordinate")

    def __repr__(self):
        return f"SuperpositionCopula(scales={[[float(x) for x in a] for a in self.scales]}, parts={self.parts})"

    def __call__(self, us):
        us = np.asarray(us, dtype=float)
        if np.any(us == 0):
            return 0.0
        return float(sum(float(C(a * us)) for a, C in zip(self.scales, self.parts)))


def weighted_clayton(alpha, theta, eta):
    al = np.asarray(alpha, dtype=float)
    return SuperpositionCopula([al, 1.0 - al], [ClaytonCopula(theta=theta, eta=eta), BlockCopula([[i] for i in range(al.size)], [None] * al.size)])


LIBRARY_COPULAS = ("clayton", "independent", "dependent")


def make_cop(cd):
    k = cd["cop"]
    if k == "clayton":
        return ClaytonCopula(theta=cd["theta"], eta=cd["eta"])
    if k == "independent":
        return IndependentComponentsCopula()
    if k == "dependent":
        return DependentComponentsCopula()
    if k == "block":
        return BlockCopula(cd["blocks"], [None if p is None else make_cop(p) for p in cd["parts"]])
    if k == "mix":
        return MixtureCopula(cd["weights"], [make_cop(p) for p in cd["parts"]])
    if k == "nested":
        return NestedClaytonCopula(cd["pair"], cd["theta0"], cd["theta1"], cd["eta"])
    if k == "wclayton":
        return weighted_clayton(cd["alpha"], cd["theta"], cd["eta"])
    raise ValueError(f"unknown copula {k}")


def restrict_cop(cd, d, I):
    """descriptor of the I-margin (|I| >= 2, coordinates renumbered 0..|I|-1 in increasing order) of the d-dimensional copula `cd`, known
    in closed form: every proper margin of a Clayton(theta, eta) is Clayton(theta, 1/2) (2^(2-d) (eta + (1-eta)) halves per erased
    coordinate); independent / dependent stay what they are; a block copula is cut down block by block; a mixture term by term"""
    I = list(I)
    if len(I) == d:
        return cd
    k = cd["cop"]
    if k == "clayton":
        return dict(cd, eta=0.5)
    if k in ("independent", "dependent"):
        return dict(cd)
    if k == "mix":
        return dict(cd, parts=[restrict_cop(p, d, I) for p in cd["parts"]])
    if k == "wclayton":
        return dict(cd, alpha=[cd["alpha"][i] for i in I], eta=0.5)
    if k == "nested":
        if not all(i in I for i in cd["pair"]):
            return dict(cop="clayton", theta=cd["theta0"], eta=0.5)
        if len(I) == 2:
            return dict(cop="clayton", theta=cd["theta1"], eta=0.5)
        return dict(cd, pair=[I.index(i) for i in cd["pair"]], eta=0.5)
    blocks, parts = [], []
    for B, p in zip(cd["blocks"], cd["parts"]):
        J = [i for i in B if i in I]
        if not J:
            continue
        blocks.append([I.index(i) for i in J])
        parts.append(None if len(J) == 1 else restrict_cop(p, len(B), [B.index(i) for i in J]))
    if len(blocks) == 1:
        return parts[0]
    if all(p is None for p in parts):
        return dict(cop="independent")
    return dict(cop="block", blocks=blocks, parts=parts)


_CACHE = {}


def get_model(spec):
    key = repr(spec)
    if key not in _CACHE:
        if len(_CACHE) > 64:
            _CACHE.clear()
        _CACHE[key] = LevyCopulaModel(models=[make_margin(m) for m in spec["margins"]], copula=make_cop(spec["cop"]))
    return _CACHE[key]


# ---- operation histories on ONE live model object -------------------------------------------------------------------------
# hist = {"spec0": spec, "ops": [op, ...]};   op =
#   ["mass", I, a, b] | ["mass_nd", I, a, b]     rectangle mass through the public entry point / the general recursion
#   ["tail", I, x]                                margin_tail_integral of the sub-family I at x
#   ["inv", i, y]                                 inverse_tail_integral
#   ["copula", cd]                                model.copula = <new copula object>       (public attribute re-assigned)
#   ["edit", {"theta": .., "eta": ..}]            in-place edit of the parameters of the copula object the model holds
# The configuration a history ends in is (margins of spec0, final_cop(hist)).
def final_cop(hist):
    cur = dict(hist["spec0"]["cop"])
    for op in hist["ops"]:
        if op[0] == "copula":
            cur = dict(op[1])
        elif op[0] == "edit":
            cur = dict(cur, **op[1])
    return cur


def final_spec(hist):
    return dict(margins=hist["spec0"]["margins"], cop=final_cop(hist))


def exec_op(model, op):
    kind = op[0]
    if kind == "copula":
        model.copula = make_cop(op[1])
        return
    if kind == "edit":
        for name, val in op[1].items():
            setattr(model.copula, name, val)
        return
    if kind not in ("mass", "mass_nd", "tail", "inv"):
        raise ValueError(f"unknown history op {kind}")
    try:        # evaluations only build up the object's state; what they return is checked by the probes on the final object
        if kind == "mass":
            mass_fast(model, op[1], op[2], op[3])
        elif kind == "mass_nd":
            mass_general(model, op[1], op[2], op[3])
        elif kind == "tail":
            U(model, op[1], op[2])
        else:
            quiet(model.inverse_tail_integral, op[1], op[2])
    except Exception:  # noqa
        pass


def build_live(hist):
    """a new model object taken through the history (never shared with the cache of fresh objects)"""
    spec0 = hist["spec0"]
    model = LevyCopulaModel(models=[make_margin(m) for m in spec0["margins"]], copula=make_cop(spec0["cop"]))
    for op in hist["ops"]:
        exec_op(model, op)
    return model


_LIVE = {}


def model_of(inp):
    """the object a probe examines: a fresh model of inp['spec'], or - when the input carries a history - the live object that
    went through it (inp['spec'] is then the configuration the history ends in: what the object must behave like)"""
    hist = inp.get("hist")
    if hist is None:
        return get_model(inp["spec"])
    key = repr(hist)
    if key not in _LIVE:
        if len(_LIVE) > 8:
            _LIVE.clear()
        _LIVE[key] = build_live(hist)
    return _LIVE[key]


def infinite_activity(ms):
    if ms["fam"] in ("vg",):
        return True
    if ms["fam"] == "cgmy":
        return ms["params"].get("y", 0.5) >= 0
    return False


def quiet(fn, *a, **k):
    with np.errstate(all="ignore"), warnings.catch_warnings():
        warnings.simplefilter("ignore")
        return fn(*a, **k)


def U(model, I, pt):
    """margin_tail_integral(I, pt) as a float (it wants an iterator)"""
    if len(I) == 0:
        from rpylib.model.levycopulamodel import margin
        return float(quiet(margin(model.copula, [], model._dimension), []))
    return float(quiet(model.margin_tail_integral, list(I), iter(list(pt))))


def mass_fast(model, I, a, b):
    full = list(range(model._dimension))
    if list(I) == full:
        return float(quiet(model.mass, list(a), list(b)))
    return float(quiet(model.mass, list(a), list(b), list(I)))


def mass_general(model, I, a, b):
    return float(quiet(model._mass_nd, list(a), list(b), list(I)))


def straddles(a, b):
    return a < 0 < b


def scale_of(model, I, a, b):
    """cancellation-aware scale: absolute values of the tail integrals entering the formulas"""
    s = 0.0
    for k in range(1, len(I) + 1):
        for sub in itertools.combinations(range(len(I)), k):
            for p in itertools.product([0, 1], repeat=k):
                pt = [a[j] if q == 0 else b[j] for j, q in zip(sub, p)]
                try:
                    v = U(model, [I[j] for j in sub], pt)
                except Exception:
                    continue
                if math.isfinite(v):
                    s += abs(v)
    return max(s, 1e-300)


def classify(spec, I, a, b):
    marg = [spec["margins"][i] for i in I]
    zero_lo = [x == 0 for x in a]
    zero_hi = [x == 0 for x in b]
    cls = dict(copula=spec["cop"]["cop"], d=len(spec["margins"]), nI=len(I),
               contains_origin=all(straddles(x, y) for x, y in zip(a, b)),
               b_zero=any(zero_hi), zero_end=any(zero_lo) or any(zero_hi),
               # every coordinate has an end point exactly 0 whose tail integral is infinite: F is evaluated at an all-infinite corner
               allinf_corner=all((zl or zh) and infinite_activity(m) for zl, zh, m in zip(zero_lo, zero_hi, marg)))
    # the tail integral at exactly 0: finite (finite activity), inf, nan or an exception (C09-level behaviour of nu.integrate(0, inf))
    kinds = set()
    for i, zl, zh in zip(I, zero_lo, zero_hi):
        if zl or zh:
            try:
                v = float(quiet(make_margin(spec["margins"][i]).levy_triplet.nu.integrate, 0.0, INF))
                kinds.add("nan" if math.isnan(v) else "inf" if math.isinf(v) else "finite")
            except Exception:
                kinds.add("raises")
    cls["tail_at_zero_nonfinite"] = bool(kinds & {"nan", "raises"})
    return cls


# ------------------------------------------------------------------------------------------------ Lean side
def ev(tok):
    if tok == "nan":
        return math.nan
    if tok in ("inf", "-inf"):
        return INF if tok == "inf" else -INF
    from fractions import Fraction
    return Fraction(tok)


def same(py, lean, scale):
    if isinstance(lean, float):
        return math.isnan(py) if math.isnan(lean) else py == lean
    if math.isnan(py) or math.isinf(py):
        return False
    return close(py, lean, scale=scale)


def wv(x):
    return "nan" if math.isnan(x) else w(x)


def table_for(model, I, a, b):
    """every (I', x) the formulas can ask for: I' subset of I, x_j in {a_j, b_j, -inf, +inf}"""
    keysI, keysX, vals = [], [], []
    for k in range(0, len(I) + 1):
        for sub in itertools.combinations(range(len(I)), k):
            Is = [I[j] for j in sub]
            for pt in itertools.product(*[sorted({a[j], b[j], -INF, INF}) for j in sub]):
                keysI.append(",".join(map(str, Is)))
                keysX.append(",".join(w(x) for x in pt))
                vals.append(wv(U(model, Is, pt)))
    return "[" + ";".join(keysI) + "]", "[" + ";".join(keysX) + "]", "[" + ",".join(vals) + "]"


def lean_table_mass(ctx, kind, model, I, a, b):
    kI, kX, vs = table_for(model, I, a, b)
    return ev(ctx.lean(f"massT {kind} [{','.join(map(str, I))}] {wl(a)} {wl(b)} {kI} {kX} {vs}"))


def kind_of(model):
    # d >= 4: `mass` IS the general recursion `_mass_nd`
    return {2: "2d", 3: "3d"}.get(model._dimension, "nd")


# ------------------------------------------------------------------------------------------------ probes
@guarded("c12.fast_vs_general")
def p_model_table(ctx, inp):
    """C: implementation (general and fast formula) vs M fed with the implementation's own tail integrals"""
    spec, I, a, b = inp["spec"], inp["I"], inp["a"], inp["b"]
    model = model_of(inp)
    cls = classify(spec, I, a, b)
    try:
        g, f = mass_general(model, I, a, b), mass_fast(model, I, a, b)
    except Exception as e:  # the tail integral at exactly 0 raises for some margins (finding): nothing to compare
        if not (cls["zero_end"] and cls["tail_at_zero_nonfinite"]):
            raise
        ctx.branches[f"c12.model.table:raises:{type(e).__name__}"] += 1
        return
    sc = scale_of(model, I, a, b)
    lg = lean_table_mass(ctx, "nd", model, I, a, b)
    lf = lean_table_mass(ctx, kind_of(model), model, I, a, b)
    ctx.count("c12.model.table", inp, branch=f"d{model._dimension}:I{len(I)}")
    if not same(g, lg, sc):
        ctx.fail("corr", "c12.model.table", inp, {"name": "Drivers/C12 massT nd vs _mass_nd", "impl": g, "model": str(lg)})
    if not same(f, lf, sc):
        ctx.fail("corr", "c12.model.table", inp, {"name": f"Drivers/C12 massT {kind_of(model)} vs mass", "impl": f, "model": str(lf)})


def lean_cop_name(cd):
    """name of the copula in Drivers/C12 (massC computes the sub-family tail integrals itself), None if M has no closed form for it"""
    if cd["cop"] == "clayton":
        return "clayton1" if cd["theta"] == 1.0 else None
    return {"independent": "indep", "dependent": "dep"}.get(cd["cop"])


def p_model(ctx, inp, exact):
    """C: the exact stream ties through massC where M knows the copula by name; everything else (general theta, user-defined copulas)
    through massT, M fed with the implementation's own table of tail integrals"""
    if exact and lean_cop_name(inp["spec"]["cop"]) is not None:
        return p_model_exact(ctx, inp)
    return p_model_table(ctx, inp)


@guarded("c12.fast_vs_general")
def p_model_exact(ctx, inp):
    """C: TableMeasure margins + exactly computable copula: M computes margin_tail_integral itself from the marginal tail integrals"""
    spec, I, a, b = inp["spec"], inp["I"], inp["a"], inp["b"]
    model = model_of(inp)
    d = model._dimension
    ti, tx, tv = [], [], []
    for i in range(d):
        pts = {-INF, INF}
        if i in I:
            pts |= {a[I.index(i)], b[I.index(i)]}
        for x in sorted(pts):
            ti.append(i)
            tx.append(x)
            tv.append(float(model.marginal_tail_integral(i, x)))
    name = lean_cop_name(spec["cop"])
    head = f"{name} {w(spec['cop'].get('eta', 0))} {d} [{','.join(map(str, I))}] {wl(a)} {wl(b)} [{','.join(map(str, ti))}] {wl(tx)} {wl(tv)}"
    sc = 2 ** d * max([abs(v) for v in tv if math.isfinite(v)] + [1e-300])
    g, f = mass_general(model, I, a, b), mass_fast(model, I, a, b)
    lg, lf = ev(ctx.lean(f"massC nd {head}")), ev(ctx.lean(f"massC {kind_of(model)} {head}"))
    ctx.count("c12.model.exact", inp, branch=f"{name}:d{d}:I{len(I)}")
    if not same(g, lg, sc):
        ctx.fail("corr", "c12.model.exact", inp, {"name": "Drivers/C12 massC nd vs _mass_nd", "impl": g, "model": str(lg)})
    if not same(f, lf, sc):
        ctx.fail("corr", "c12.model.exact", inp, {"name": f"Drivers/C12 massC {kind_of(model)} vs mass", "impl": f, "model": str(lf)})


def mirrors(ctx, model, I, a, b, value):
    try:
        return same(value, lean_table_mass(ctx, kind_of(model), model, I, a, b), scale_of(model, I, a, b))
    except Exception:
        return None


@guarded("c12.fast_vs_general")
def p_fast_vs_general(ctx, inp):
    spec, I, a, b = inp["spec"], inp["I"], inp["a"], inp["b"]
    model = model_of(inp)
    cls = classify(spec, I, a, b)
    try:
        g, f = mass_general(model, I, a, b), mass_fast(model, I, a, b)
    except Exception as e:  # recorded under c12.nonneg (tail integral at exactly 0 raises)
        if not (cls["zero_end"] and cls["tail_at_zero_nonfinite"]):
            raise
        ctx.branches[f"c12.fast_vs_general:raises:{type(e).__name__}"] += 1
        return
    sc = scale_of(model, I, a, b)
    ctx.count("c12.fast_vs_general", inp, branch="origin" if cls["contains_origin"] else f"d{model._dimension}:I{len(I)}")
    ok = (math.isnan(g) and math.isnan(f)) or g == f or abs(g - f) <= 1e-9 * sc
    if not ok:
        ctx.fail("oracle", "c12.fast_vs_general", inp, {"what": "fast formula != general formula", "general": g, "fast": f, "scale": sc},
                 cls=cls, mirrors_model=mirrors(ctx, model, I, a, b, f))


@guarded("c12.nonneg")
def p_nonneg(ctx, inp):
    spec, I, a, b = inp["spec"], inp["I"], inp["a"], inp["b"]
    model = model_of(inp)
    cls = classify(spec, I, a, b)
    if cls["contains_origin"]:
        return
    ctx.count("c12.nonneg", inp, branch=("zero_end" if cls["zero_end"] else "plain"))
    try:
        f = mass_fast(model, I, a, b)
    except Exception as e:
        ctx.fail("oracle", "c12.nonneg", inp, {"what": "mass of a rectangle not containing the origin raises", "exception": repr(e)}, cls=cls)
        return
    sc = scale_of(model, I, a, b)
    if math.isnan(f) or f < -1e-9 * sc:
        ctx.fail("oracle", "c12.nonneg", inp, {"what": "mass of a rectangle not containing the origin is negative or NaN", "mass": f, "scale": sc},
                 cls=cls, mirrors_model=mirrors(ctx, model, I, a, b, f))


@guarded("c12.additivity")
def p_additivity(ctx, inp):
    spec, I, a, b, k, c = inp["spec"], inp["I"], inp["a"], inp["b"], inp["k"], inp["c"]
    model = model_of(inp)
    cls = classify(spec, I, a, b)
    if cls["contains_origin"]:
        return
    cls["split_at_zero"] = (c == 0)
    bl, ar = list(b), list(a)
    bl[k], ar[k] = c, c
    ctx.count("c12.additivity", inp, branch="split_at_zero" if c == 0 else "plain")
    try:
        whole, left, right = mass_fast(model, I, a, b), mass_fast(model, I, a, bl), mass_fast(model, I, ar, b)
    except Exception as e:
        ctx.fail("oracle", "c12.additivity", inp, {"what": "mass raises", "exception": repr(e)}, cls=cls)
        return
    sc = scale_of(model, I, a, b) + scale_of(model, I, a, bl) + scale_of(model, I, ar, b)
    if math.isinf(whole) and whole > 0 and left + right == whole:
        return
    if not abs(whole - (left + right)) <= 1e-9 * sc:
        m = None
        if c == 0:   # recorded behaviour: the implementation's three values are still the model's
            m = all(mirrors(ctx, model, I, x, y, v) for x, y, v in ((a, b, whole), (a, bl, left), (ar, b, right)))
        ctx.fail("oracle", "c12.additivity", inp, {"what": "mass(whole) != mass(left) + mass(right)", "whole": whole, "left": left, "right": right,
                                                   "scale": sc}, cls=cls, mirrors_model=m)


@guarded("c12.margin")
def p_margin(ctx, inp):
    """other coordinates over the whole line: the mass is the marginal Levy mass nu_k((a,b])"""
    spec, k, a, b = inp["spec"], inp["k"], inp["a"], inp["b"]
    model = model_of(inp)
    d = model._dimension
    lo, hi = [-INF] * d, [INF] * d
    lo[k], hi[k] = a, b
    nu = model._marginal_levy_measure[k]
    ctx.count("c12.margin", inp, branch=f"d{d}")
    got = mass_fast(model, list(range(d)), lo, hi)
    gen = mass_general(model, list(range(d)), lo, hi)
    want = float(quiet(nu.integrate, a, b))
    sc = abs(float(quiet(nu.integrate, *( (a, INF) if a > 0 else (-INF, b) )))) + 1e-300
    if not (abs(got - want) <= 1e-8 * sc and abs(gen - want) <= 1e-8 * sc):
        ctx.fail("oracle", "c12.margin", inp, {"what": "mass over the whole line in the other coordinates != marginal nu.integrate",
                                               "fast": got, "general": gen, "marginal": want}, cls=classify(spec, list(range(d)), lo, hi))


@guarded("c12.submargin")
def p_submargin(ctx, inp):
    """d-dimensional model, sub-family I (2 <= |I| < d): the mass of the sub-family = mass of the whole-line rectangle in the other
    coordinates = mass of the |I|-dimensional model built from the margins of I and the I-margin of the copula, known in closed form
    (restrict_cop: Clayton eta' = 1/2; block copula: the coupled pair keeps its copula, a pair taken from two blocks is independent)"""
    spec, I, a, b = inp["spec"], inp["I"], inp["a"], inp["b"]
    model = model_of(inp)
    cls = classify(spec, I, a, b)
    if cls["contains_origin"]:
        return
    d = model._dimension
    sub = mass_fast(model, I, a, b)
    lo, hi = [-INF] * d, [INF] * d
    for j, i in enumerate(I):
        lo[i], hi[i] = a[j], b[j]
    whole = mass_fast(model, list(range(d)), lo, hi)
    spec2 = dict(margins=[spec["margins"][i] for i in I], cop=restrict_cop(spec["cop"], d, I))
    two = mass_fast(get_model(spec2), list(range(len(I))), a, b)
    sc = scale_of(model, I, a, b)
    cls["I"] = "".join(map(str, I))
    ctx.count("c12.submargin", inp, branch=f"d{d}:I{len(I)}:{spec['cop']['cop']}")
    if not (abs(sub - whole) <= 1e-9 * sc and abs(sub - two) <= 1e-9 * sc):
        ctx.fail("oracle", "c12.submargin", inp, {"what": "sub-family mass != whole-line mass != mass under the I-margin copula",
                                                  "sub": sub, "whole_line": whole, "two_d_model": two}, cls=cls)


def i_margin_by_definition(model, I, pt):
    """F^I(u_I) = sum over the other coordinates in {-inf, +inf} of F(u) * prod sgn, with the copula the model holds NOW
    (model.copula, public) and the public marginal tail integrals - the definition, not the library's `margin` helper"""
    d = model._dimension
    comp = [i for i in range(d) if i not in I]
    u = np.zeros(d)
    for i, x in zip(I, pt):
        u[i] = float(model.marginal_tail_integral(i, x))
    tot = 0.0
    for p in itertools.product([-INF, INF], repeat=len(comp)):
        for i, v in zip(comp, p):
            u[i] = v
        sg = 1.0
        for v in p:
            sg *= (1.0 if v > 0 else -1.0)
        tot += sg * float(quiet(model.copula, np.array(u)))
    return tot


def same_float(x, y, sc):
    return (math.isnan(x) and math.isnan(y)) or x == y or abs(x - y) <= 1e-9 * sc


def mass_by_definition(model, I, a, b):
    """mass of prod_{j in I} (a_j, b_j] (not containing the origin) under the I-margin of the Levy measure, from the definitions only:
    (a,b] = (a,inf) \\ (b,inf) on the positive side, (-inf,b] \\ (-inf,a] on the negative side, R \\ (-inf,a] \\ (b,inf) when it straddles 0
    (R: the coordinate is erased); the mass of an orthant prod_{j in J} I(x_j) is prod sgn(x_j) * F^J(U_j(x_j), j in J), F^J the J-margin
    of the copula the model holds now BY DEFINITION - every value in the slot of ITS OWN coordinate, the others at +-inf with sign."""
    per = []
    for x, y in zip(a, b):
        if x < 0 < y:
            per.append([(1.0, None), (-1.0, x), (-1.0, y)])
        elif x >= 0:
            per.append([(1.0, x), (-1.0, y)])
        else:
            per.append([(1.0, y), (-1.0, x)])
    tot = 0.0
    for choice in itertools.product(*per):
        J = [(i, x) for i, (_, x) in zip(I, choice) if x is not None]
        if not J:
            raise ValueError("rectangle contains the origin")
        if any(math.isinf(x) for _, x in J):
            continue                                    # empty orthant
        coef = 1.0
        for c, _ in choice:
            coef *= c
        for _, x in J:
            coef *= 1.0 if x >= 0 else -1.0
        if len(J) == 1:
            val = float(model.marginal_tail_integral(J[0][0], J[0][1]))
        else:
            val = i_margin_by_definition(model, [i for i, _ in J], [x for _, x in J])
        tot += coef * val
    return tot


@guarded("c12.by_definition")
def p_by_definition(ctx, inp):
    """'margin masses of sub-families of coordinates agree with the I-margins of the copula', for every copula (library and user-defined)
    and every index subset: (i) margin_tail_integral(I, x) at the corners of the rectangle = I-margin BY DEFINITION of model.copula at the
    marginal tail integrals, (ii) mass (public entry point and general recursion) = mass_by_definition"""
    spec, I, a, b = inp["spec"], inp["I"], inp["a"], inp["b"]
    model = model_of(inp)
    cls = classify(spec, I, a, b)
    if cls["contains_origin"] or cls["zero_end"]:
        return
    d = model._dimension
    cls["I"] = "".join(map(str, I))
    ctx.count("c12.by_definition", inp, branch=f"d{d}:I{len(I)}:{spec['cop']['cop']}")
    if 2 <= len(I) < d:
        for pt in itertools.product(*[(x, y) for x, y in zip(a, b)]):
            if any(math.isinf(x) for x in pt):
                continue
            got = U(model, I, pt)
            want = i_margin_by_definition(model, I, pt)
            sc = sum(abs(float(model.marginal_tail_integral(i, x))) for i, x in zip(I, pt)) + 1e-300
            if not same_float(got, want, sc):
                ctx.fail("oracle", "c12.by_definition", inp, {"what": "margin_tail_integral(I, x) is not the I-margin of the copula (each value in "
                                                                      "the slot of its own coordinate, the others at +-inf with sign)",
                                                              "x": list(pt), "margin_tail_integral": got, "I_margin_by_definition": want,
                                                              "copula": repr(model.copula)}, cls=cls)
                return
    want = mass_by_definition(model, I, a, b)
    f, g = mass_fast(model, I, a, b), mass_general(model, I, a, b)
    sc = scale_of(model, I, a, b)
    if not (same_float(f, want, sc) and same_float(g, want, sc)):
        ctx.fail("oracle", "c12.by_definition", inp, {"what": "rectangle mass != mass written out from the definitions (orthant masses = signed I-margins "
                                                              "of the copula at the marginal tail integrals)", "mass": f, "general": g,
                                                      "by_definition": want, "scale": sc, "copula": repr(model.copula)}, cls=cls)


# ---- the ORDER / container in which the caller supplies equivalent information ------------------------------------------------------
# A sub-family of coordinates is a SET I; a rectangle of its margin is the assignment coordinate i -> (a_i, b_i].  The caller may list the
# pairs (i, a_i, b_i) in any order, hand `indices` over positionally or by keyword, as a list or a tuple (of Python or numpy integers),
# and the end points as lists, tuples or arrays: the mass and the tail integral are those of the set.
IDX_FORMS = ("list", "tuple", "npint")          # `indices: list[int]` - a numpy ARRAY of indices is outside the declared type (see ASSUMPTIONS)
VEC_FORMS = ("list", "tuple", "array")
ENTRIES = ("mass", "_mass_nd", "_mass_2d", "_mass_3d")


def as_indices(Ip, form):
    if form == "tuple":
        return tuple(int(i) for i in Ip)
    if form == "npint":
        return [np.int64(i) for i in Ip]
    return [int(i) for i in Ip]


def as_vec(x, form):
    if form == "tuple":
        return tuple(x)
    if form == "array":
        return np.array(x, dtype=float)
    return list(x)


def entries_for(nI):
    """the entry points that accept an index set of size nI (observe_at: mass, _mass_nd, _mass_2d, _mass_3d): the hard-coded 2-d (3-d)
    formula takes at most 2 (3) coordinates - of a model of any dimension, the 3-d formula itself calls _mass_2d on pairs"""
    return ["mass", "_mass_nd"] + (["_mass_2d"] if nI <= 2 else []) + (["_mass_3d"] if nI <= 3 else [])


def call_mass(model, entry, a, b, idx, kw):
    fn = getattr(model, entry)
    return float(quiet(fn, a, b, indices=idx) if kw else quiet(fn, a, b, idx))


@guarded("c12.index_order")
def p_index_order(ctx, inp):
    """'margin masses of sub-families of coordinates agree with the I-margins of the copula' - a sub-family is a SET of coordinates: with
    the pairs (i, a_i, b_i) listed in the order inp['perm'] (indices as inp['form'], end points as inp['aform'], `indices` passed by keyword
    or positionally, through each entry point) (i) margin_tail_integral at the corners and (ii) the mass are the I-margin of the copula BY
    DEFINITION (every value in the slot of its own coordinate) = the values on the ascending listing.  I = the full set included."""
    spec, I, a, b = inp["spec"], inp["I"], inp["a"], inp["b"]
    perm, form, aform, entry, kw = inp["perm"], inp["form"], inp["aform"], inp["entry"], inp["kw"]
    model = model_of(inp)
    cls = classify(spec, I, a, b)
    if cls["contains_origin"] or cls["zero_end"]:
        return
    d = model._dimension
    if sorted(perm) != list(range(len(I))) or entry not in entries_for(len(I)) or I != sorted(I):
        raise ValueError("c12.index_order: malformed input")
    Ip, ap, bp = [I[k] for k in perm], [a[k] for k in perm], [b[k] for k in perm]
    asc = (Ip == I)
    cls.update(I="".join(map(str, I)), listing="ascending" if asc else "permuted", full=(len(I) == d), form=form, entry=entry, kw=bool(kw))
    ctx.count("c12.index_order", inp, branch=f"d{d}:I{len(I)}:{'asc' if asc else 'perm'}:{entry}")
    # (i) tail integral of the sub-family at the corners of the rectangle
    if len(I) >= 2:
        for pt in itertools.product(*[(x, y) for x, y in zip(a, b)]):
            if any(math.isinf(x) for x in pt):
                continue
            got = float(quiet(model.margin_tail_integral, as_indices(Ip, form), iter([pt[k] for k in perm])))
            want = i_margin_by_definition(model, I, pt)
            sc = sum(abs(float(model.marginal_tail_integral(i, x))) for i, x in zip(I, pt)) + 1e-300
            if not same_float(got, want, sc):
                ctx.fail("oracle", "c12.index_order", inp, {"what": "margin_tail_integral(indices, x) with the coordinates listed in this order is not "
                                                                    "the I-margin of the copula at the tail integrals of the listed coordinates (value k "
                                                                    "belongs to coordinate indices[k])", "indices": Ip, "x": [pt[k] for k in perm],
                                                            "margin_tail_integral": got, "I_margin_by_definition": want,
                                                            "copula": repr(model.copula)}, cls=cls)
                return
    # (ii) the mass of the rectangle
    got = call_mass(model, entry, as_vec(ap, aform), as_vec(bp, aform), as_indices(Ip, form), kw)
    ref = call_mass(model, entry, list(a), list(b), list(I), False)
    want = mass_by_definition(model, I, a, b)
    sc = scale_of(model, I, a, b)
    if not (same_float(got, want, sc) and same_float(got, ref, sc)):
        ctx.fail("oracle", "c12.index_order", inp, {"what": "the mass of the rectangle {coordinate i over (a_i, b_i]} depends on the order / the "
                                                            "container in which the caller lists the coordinates: it is not the mass written out "
                                                            "from the definitions / not the mass of the ascending listing",
                                                    "indices": Ip, "a": ap, "b": bp, "mass": got, "ascending_listing": ref, "by_definition": want,
                                                    "scale": sc, "copula": repr(model.copula)}, cls=cls)


@guarded("c12.history")
def p_history(ctx, inp):
    """one live object taken through inp['hist'] (evaluations interleaved with re-assignment of `copula` / in-place edits of the
    copula's parameters): its masses and sub-family tail integrals are those of the configuration it holds NOW -
    (i) sub-family tail integrals = I-margin, by definition, of the CURRENT model.copula at the marginal tail integrals,
    (ii) mass (public entry point and general recursion) = the value on a never-mutated model built with the final configuration.
    The live object is rebuilt from the history on every call: the record replays exactly."""
    spec, hist, I, a, b = inp["spec"], inp["hist"], inp["I"], inp["a"], inp["b"]
    live = build_live(hist)
    fresh = get_model(spec)
    cls = classify(spec, I, a, b)
    muts = [op[0] for op in hist["ops"] if op[0] in ("copula", "edit")]
    cls["history"] = True
    d = live._dimension
    ctx.count("c12.history", inp, branch=f"d{d}:I{len(I)}:" + "+".join(sorted(set(muts))))
    # (o) the object holds the configuration the history ends in (harness self-check, not a statement about the library)
    cop = live.copula
    if spec["cop"]["cop"] == "clayton" and not (cop.theta == spec["cop"]["theta"] and cop.eta == spec["cop"]["eta"]):
        raise RuntimeError("history bookkeeping: live copula parameters differ from final_cop(hist)")
    # (i) sub-family tail integrals at the corners of the rectangle
    if 2 <= len(I) < d:
        for pt in itertools.product(*[(x, y) for x, y in zip(a, b)]):
            if any(x == 0 for x in pt):
                continue
            got = U(live, I, pt)
            want = i_margin_by_definition(live, I, pt)
            sc = sum(abs(float(live.marginal_tail_integral(i, x))) for i, x in zip(I, pt) if math.isfinite(x)) + 1e-300
            if not same_float(got, want, sc):
                ctx.fail("oracle", "c12.history", inp, {"what": "after the history, margin_tail_integral(I, x) of the live model is not the "
                                                                "I-margin of the copula it holds now", "x": list(pt), "live": got,
                                                        "I_margin_of_current_copula": want, "current_copula": repr(cop)}, cls=cls)
                return
    # (ii) masses against a never-mutated model of the final configuration
    try:
        lf, lg = mass_fast(live, I, a, b), mass_general(live, I, a, b)
    except Exception:
        if not (cls["zero_end"] and cls["tail_at_zero_nonfinite"]):
            raise
        return
    ff, fg = mass_fast(fresh, I, a, b), mass_general(fresh, I, a, b)
    sc = scale_of(fresh, I, a, b)
    if not (same_float(lf, ff, sc) and same_float(lg, fg, sc)):
        ctx.fail("oracle", "c12.history", inp, {"what": "after the history, the mass on the live model differs from the mass of a freshly built "
                                                        "model with the same margins and the copula the live model holds now",
                                                "live_mass": lf, "fresh_mass": ff, "live_general": lg, "fresh_general": fg, "scale": sc,
                                                "current_copula": repr(cop)}, cls=cls)


@guarded("c12.whole_line_nd")
def p_whole_line_nd(ctx, inp):
    """general recursion `_mass_nd`, any d (theorem massNd_whole_line): coordinate k over the whole line can be erased;
    by the theorem this holds for every tail-integral family, so a difference beyond rounding is a defect of the recursion"""
    spec, I, a, b, k = inp["spec"], inp["I"], inp["a"], inp["b"], inp["k"]
    model = model_of(inp)
    a2, b2 = list(a), list(b)
    a2[k], b2[k] = -INF, INF
    Ie, ae, be = I[:k] + I[k + 1:], list(a[:k]) + list(a[k + 1:]), list(b[:k]) + list(b[k + 1:])
    if not Ie or all(straddles(x, y) for x, y in zip(ae, be)):
        return                      # the erased rectangle would contain the origin (its mass is the total mass: not a number)
    whole = mass_general(model, I, a2, b2)
    sub = mass_general(model, Ie, ae, be)
    sc = scale_of(model, I, a2, b2) if len(I) <= 3 else scale_of(model, Ie, ae, be) * 4
    ctx.count("c12.whole_line_nd", inp, branch=f"d{model._dimension}:I{len(I)}")
    if not abs(whole - sub) <= 1e-9 * sc:
        ctx.fail("oracle", "c12.whole_line_nd", inp, {"what": "_mass_nd with one coordinate over the whole line != _mass_nd of the sub-family",
                                                      "whole_line": whole, "sub_family": sub, "scale": sc}, cls=classify(spec, I, a2, b2))


@guarded("c12.additivity_nd")
def p_additivity_nd(ctx, inp):
    """general recursion `_mass_nd`, any d and any index subset (theorem massNd_additive_split): additive under a split of
    side k at c != 0 -- for every rectangle, also boxes containing the origin as long as the values are finite"""
    spec, I, a, b, k, c = inp["spec"], inp["I"], inp["a"], inp["b"], inp["k"], inp["c"]
    model = model_of(inp)
    bl, ar = list(b), list(a)
    bl[k], ar[k] = c, c
    whole, left, right = mass_general(model, I, a, b), mass_general(model, I, a, bl), mass_general(model, I, ar, b)
    ctx.count("c12.additivity_nd", inp, branch=f"d{model._dimension}:I{len(I)}")
    if not all(math.isfinite(v) for v in (whole, left, right)):
        return                      # origin boxes: the total-mass term is inf/NaN on both sides
    sc = scale_of(model, I, a, b) + scale_of(model, I, a, bl) + scale_of(model, I, ar, b)
    if not abs(whole - (left + right)) <= 1e-9 * sc:
        ctx.fail("oracle", "c12.additivity_nd", inp, {"what": "_mass_nd(whole) != _mass_nd(left) + _mass_nd(right)", "whole": whole,
                                                      "left": left, "right": right, "scale": sc}, cls=classify(spec, I, a, b))


@guarded("c12.inverse_tail")
def p_inverse_tail(ctx, inp):
    spec, i, x0 = inp["spec"], inp["i"], inp["x"]
    model = model_of(inp)
    y = float(model.marginal_tail_integral(i, x0))
    ctx.count("c12.inverse_tail", inp)
    if y == 0 or not math.isfinite(y):
        return
    back = float(quiet(model.inverse_tail_integral, i, y))
    yb = float(model.marginal_tail_integral(i, back))
    edge = abs(back) in (1e-20, 500.0)
    ok = (back > 0) == (y > 0) and (edge or abs(yb - y) <= 1e-9 * abs(y))
    # x-roundtrip only where the tail integral is numerically strictly monotone (far tails ~1e-15 are flat in floats)
    if ok and not edge and spec["margins"][i]["fam"] != "table" and abs(y) >= 1e-6:
        ok = abs(back - x0) <= 1e-6 * abs(x0)
    if not ok:
        ctx.fail("oracle", "c12.inverse_tail", inp, {"what": "inverse_tail_integral does not invert the tail integral", "y": y, "x": x0, "back": back,
                                                     "U(back)": yb}, cls=dict(fam=spec["margins"][i]["fam"]))


@guarded("c12.density")
def p_density(ctx, inp):
    """2-d Clayton, rectangle inside one open quadrant: mass = integral of nu_1 nu_2 * |x_first_derivative(U_1, U_2)|"""
    from scipy.integrate import dblquad
    spec, a, b = inp["spec"], inp["a"], inp["b"]
    model = model_of(inp)
    nu1, nu2 = model._marginal_levy_measure
    cop = model.copula

    def dens(y, x):
        u = np.array([model.marginal_tail_integral(0, x), model.marginal_tail_integral(1, y)])
        sg = 1.0 if u[0] * u[1] >= 0 else -1.0
        return float(nu1(x)) * float(nu2(y)) * sg * float(cop.x_first_derivative(u))

    val, err = quiet(dblquad, dens, a[0], b[0], a[1], b[1], epsabs=1e-12, epsrel=1e-9)
    got = mass_fast(model, [0, 1], a, b)
    ctx.count("c12.density", inp)
    if not abs(got - val) <= 1e-5 * abs(val) + 10 * err + 1e-9 * scale_of(model, [0, 1], a, b):
        ctx.fail("oracle", "c12.density", inp, {"what": "mass != integral of the implied joint density", "mass": got, "integral": val, "quad_err": err},
                 cls=classify(spec, [0, 1], a, b))


PROBES = {"c12.model.table": p_model_table, "c12.model.exact": p_model_exact, "c12.fast_vs_general": p_fast_vs_general,
          "c12.nonneg": p_nonneg, "c12.additivity": p_additivity, "c12.margin": p_margin, "c12.submargin": p_submargin,
          "c12.inverse_tail": p_inverse_tail, "c12.density": p_density, "c12.whole_line_nd": p_whole_line_nd,
          "c12.additivity_nd": p_additivity_nd, "c12.history": p_history, "c12.by_definition": p_by_definition,
          "c12.index_order": p_index_order}


# ------------------------------------------------------------------------------------------------ generation
def draw_table_margin(rng):
    nl, nr = rng.randint(1, 3), rng.randint(1, 3)
    left = sorted(-rng.randint(1, 160) / 64 for _ in range(nl))
    right = sorted(rng.randint(1, 160) / 64 for _ in range(nr))
    knots = sorted(set(left + [0.0] + right))
    heights = [rng.randint(0, 48) / 8 for _ in knots[1:]]
    if all(h == 0 for h in heights):
        heights[0] = 1.0
    return dict(fam="table", knots=knots, heights=heights)


def draw_clayton(rng, exact=False):
    theta = 1.0 if exact else round(math.exp(rng.uniform(math.log(0.3), math.log(4.0))), 3)
    eta = rng.randint(1, 15) / 16 if exact else round(rng.uniform(0.05, 0.95), 3)
    return dict(cop="clayton", theta=theta, eta=eta)


def draw_block(rng, d, exact=False, special=None):
    """block copula in d >= 3 that is NOT a symmetric function: d = 3: a coupled pair + one independent coordinate `special` (each of the
    three placements); d = 4: pair + pair, triple + single, pair + single + single, over a random assignment of the coordinates"""
    order = list(range(d))
    rng.shuffle(order)
    if special is not None:
        order.remove(special)
        order.append(special)                          # the last (single) block is the special coordinate
    sizes = [2, 1] if d == 3 else rng.choice([[2, 2], [3, 1], [2, 1, 1]]) if d == 4 else [d - 1, 1]
    blocks, pos = [], 0
    for n in sizes:
        blocks.append(sorted(order[pos:pos + n]))
        pos += n
    parts = [None if len(B) == 1 else (draw_clayton(rng, exact) if rng.random() < 0.8 else dict(cop="dependent")) for B in blocks]
    return dict(cop="block", blocks=blocks, parts=parts)


def draw_nested(rng, d, exact=False, special=None):
    """nested Clayton: one pair coupled with theta1 >= theta0; d = 3: `special` is the coordinate outside the pair"""
    if d == 3 and special is not None:
        pair = [i for i in range(3) if i != special]
    else:
        pair = sorted(rng.sample(range(d), 2))
    if exact:
        return dict(cop="nested", pair=pair, theta0=1.0, theta1=rng.choice([2.0, 3.0]), eta=rng.randint(1, 15) / 16)
    t0 = round(math.exp(rng.uniform(math.log(0.3), math.log(2.0))), 3)
    return dict(cop="nested", pair=pair, theta0=t0, theta1=round(t0 * rng.uniform(1.3, 4.0), 3), eta=round(rng.uniform(0.05, 0.95), 3))


def draw_wclayton(rng, d, exact=False, special=None):
    """Clayton with coordinate-dependent dyadic weights, all different; `special` carries the smallest one"""
    al = sorted(rng.sample(range(1, 8), d))
    rest = al[1:]
    rng.shuffle(rest)
    k = rng.randrange(d) if special is None else special
    alpha = rest[:k] + [al[0]] + rest[k:]
    return dict(draw_clayton(rng, exact), cop="wclayton", alpha=[x / 8 for x in alpha])


def draw_nonexchangeable(rng, d, exact=False, special=None):
    """a copula of dimension d >= 3 that is not a symmetric function of its arguments: a block copula (asymmetric through the +-inf
    corners only: finite arguments from two blocks give 0), a nested Clayton copula (asymmetric on finite arguments too), or a mixture
    (dyadic weights) of a block copula with a library copula / a nested Clayton / a block copula of another partition"""
    k = rng.random()
    if d == 2:              # blocks / nesting need d >= 3; the weighted Clayton is not symmetric in d = 2 either
        wc = draw_wclayton(rng, d, exact, special)
        if k < 0.7:
            return wc
        n = rng.randint(1, 7)
        return dict(cop="mix", weights=[n / 8, 1 - n / 8], parts=[wc, draw_cop(rng, exact)])
    if k < 0.25:
        return draw_wclayton(rng, d, exact, special)
    if k < 0.45:
        return draw_nested(rng, d, exact, special)
    blk = draw_block(rng, d, exact, special)
    if k < 0.7:
        return blk
    n = rng.randint(1, 7)
    if k < 0.92:
        x = rng.random()
        other = (draw_clayton(rng, exact) if x < 0.35 else draw_nested(rng, d, exact) if x < 0.6 else draw_wclayton(rng, d, exact) if x < 0.85
                 else dict(cop=rng.choice(["independent", "dependent"])))
        return dict(cop="mix", weights=[n / 8, 1 - n / 8], parts=[blk, other])
    other = draw_block(rng, d, exact)
    for _ in range(8):
        if other["blocks"] != blk["blocks"]:
            break
        other = draw_block(rng, d, exact)
    return dict(cop="mix", weights=[n / 8, 1 - n / 8], parts=[blk, other])


P_NONEXCH = 0.4


def draw_cop(rng, exact=False, d=None, special=None):
    """d given and >= 3: with probability P_NONEXCH a user-defined copula that is not a symmetric function of its arguments"""
    if d is not None and d >= 2 and (special is not None or rng.random() < (P_NONEXCH if d >= 3 else 0.25)):
        return draw_nonexchangeable(rng, d, exact, special)
    k = rng.random()
    if k < 0.6:
        return draw_clayton(rng, exact)
    return dict(cop="independent") if k < 0.8 else dict(cop="dependent")


def draw_spec(rng, d, exact=False, nonexch=False, special=None):
    """nonexch: the stream admits user-defined copulas (not the streams that put end points exactly at 0: the value of F at an
    all-infinite corner is a convention there)"""
    if exact:
        return dict(margins=[draw_table_margin(rng) for _ in range(d)], cop=draw_cop(rng, True, d if nonexch else None, special))
    ms = []
    for _ in range(d):
        fam = rng.choice(["hem", "merton", "vg", "cgmy"])
        params = {} if rng.random() < 0.3 else zoo.draw_params(rng, fam)
        ms.append(dict(fam=fam, params=params))
    return dict(margins=ms, cop=draw_cop(rng, False, d if nonexch else None, special))


def draw_point(rng, sign, exact):
    if exact:
        return sign * rng.randint(1, 192) / 64
    return sign * math.exp(rng.uniform(math.log(1e-3), math.log(1.0)))


def draw_side(rng, pat, exact, p_inf=0.12):
    """(a, b) with a < b: '-' negative side, '+' positive side, '0' straddling"""
    if pat == "0":
        lo = -INF if rng.random() < p_inf else draw_point(rng, -1, exact)
        hi = INF if rng.random() < p_inf else draw_point(rng, 1, exact)
        return lo, hi
    s = -1 if pat == "-" else 1
    x, y = draw_point(rng, s, exact), draw_point(rng, s, exact)
    while x == y:
        y = draw_point(rng, s, exact)
    lo, hi = min(x, y), max(x, y)
    if rng.random() < p_inf:
        if s > 0:
            hi = INF
        else:
            lo = -INF
    return lo, hi


def draw_rect(rng, pats, exact):
    sides = [draw_side(rng, p, exact) for p in pats]
    return [s[0] for s in sides], [s[1] for s in sides]


def split_point(rng, lo, hi, exact):
    if math.isinf(lo) and math.isinf(hi):
        return draw_point(rng, rng.choice([-1, 1]), exact)
    if math.isinf(lo):
        return hi - abs(draw_point(rng, 1, exact)) if hi <= 0 else hi * rng.choice([0.25, 0.5])
    if math.isinf(hi):
        return lo + abs(draw_point(rng, 1, exact)) if lo >= 0 else lo * rng.choice([0.25, 0.5])
    t = rng.choice([0.25, 0.5, 0.75]) if exact else rng.uniform(0.1, 0.9)
    c = lo + t * (hi - lo)
    return c if c != 0 else lo + 0.3 * (hi - lo)


def subsets(d):
    return [list(s) for k in range(1, d + 1) for s in itertools.combinations(range(d), k)]


def draw_mutation(rng, cur, exact, d=None):
    """one re-configuration of the live object: the public attribute `copula` re-assigned (same or other family), or - Clayton - the
    parameters of the copula object it holds edited in place (theta, eta or both)"""
    if cur["cop"] == "clayton" and rng.random() < 0.4:
        if exact:
            ed = dict(eta=rng.choice([k for k in range(1, 16) if k / 16 != cur["eta"]]) / 16)
        else:
            ed = {}
            which = rng.choice(["theta", "eta", "both"])
            if which != "eta":
                ed["theta"] = round(math.exp(rng.uniform(math.log(0.3), math.log(4.0))), 3)
            if which != "theta":
                ed["eta"] = round(rng.uniform(0.05, 0.95), 3)
        return ["edit", ed]
    new = draw_cop(rng, exact, d)
    for _ in range(8):
        if new != cur:
            break
        new = draw_cop(rng, exact, d)
    return ["copula", new]


def draw_evaluations(rng, d, exact):
    """a block of evaluations on the live object: full-dimension rectangles (random sign pattern, so straddling sides recurse into
    sub-families), every kind of sub-family query, tail integrals and an inverse tail integral"""
    ops = []
    full = list(range(d))
    proper = subsets(d)[:-1]
    for _ in range(rng.randint(1, 3)):
        pats = [rng.choice("-+0") for _ in range(d)]
        if all(p == "0" for p in pats):
            pats[rng.randrange(d)] = rng.choice("-+")
        a, b = draw_rect(rng, pats, exact)
        ops.append([rng.choice(["mass", "mass", "mass_nd"]), full, a, b])
        Is = rng.choice(proper)
        ops.append([rng.choice(["mass", "mass_nd"]), Is, [a[i] for i in Is], [b[i] for i in Is]])
    for _ in range(rng.randint(1, 3)):
        Is = rng.choice(proper + [full])
        ops.append(["tail", Is, [draw_point(rng, rng.choice([-1, 1]), exact) for _ in Is]])
    for op in ops:                  # the caller lists the coordinates of I in any order (the pairs (i, a_i, b_i) / (i, x_i) stay together)
        if len(op[1]) >= 2 and rng.random() < 0.4:
            perm = draw_listing(rng, len(op[1]), True)
            op[1:] = [[v[k] for k in perm] for v in op[1:]]
    if rng.random() < 0.3:
        ops.append(["inv", rng.randrange(d), rng.choice([-1, 1]) * round(rng.uniform(0.05, 3.0), 3)])
    rng.shuffle(ops)
    return ops


def draw_history(rng, d, exact):
    spec0 = draw_spec(rng, d, exact, nonexch=True)
    cur = dict(spec0["cop"])
    ops = []
    for _ in range(rng.choice([1, 1, 2, 3])):
        if rng.random() < 0.9:      # (a mutation right after construction / right after another one is a history too)
            ops += draw_evaluations(rng, d, exact)
        mut = draw_mutation(rng, cur, exact, d)
        ops.append(mut)
        cur = dict(mut[1]) if mut[0] == "copula" else dict(cur, **mut[1])
    if rng.random() < 0.5:
        ops += draw_evaluations(rng, d, exact)
    return dict(spec0=spec0, ops=ops)


def distinct_margins(rng, spec, exact):
    """the same spec with pairwise DIFFERENT margins (two equal margins hide a value paired with the wrong coordinate)"""
    ms = list(spec["margins"])
    for k in range(len(ms)):
        for _ in range(20):
            if all(ms[k] != ms[j] for j in range(k)):
                break
            ms[k] = draw_spec(rng, 1, exact)["margins"][0]
    return dict(spec, margins=ms)


def draw_listing(rng, n, permuted=None):
    """an order of n pairs (index, interval); permuted=True: not the ascending one (n >= 2)"""
    perm = list(range(n))
    if permuted is False or n < 2:
        return perm
    rng.shuffle(perm)
    while permuted and perm == sorted(perm):
        rng.shuffle(perm)
    return perm


def order_variant(rng, nI, permuted=None):
    return dict(perm=draw_listing(rng, nI, permuted), form=rng.choice(IDX_FORMS), aform=rng.choice(VEC_FORMS),
                entry=rng.choice(entries_for(nI)), kw=rng.random() < 0.4)


def run_orders(ctx, factor):
    """every index set (full set and proper sub-families) in EVERY listing order (d = 4: a sample), through every entry point; models with
    pairwise different margins and, two out of three, a copula that is not a symmetric function of its arguments"""
    rng = ctx.rng
    for rep in range(ctx.n(8, 60) * factor):
        d = (2, 3, 3, 4)[rep % 4]
        exact = (rep % 2 == 1)
        spec = distinct_margins(rng, draw_spec(rng, d, exact, nonexch=True, special=(rng.randrange(d) if rep % 3 else None)), exact)
        hist = None
        if rep % 5 == 4:            # the same on a live object that went through a history
            hist = draw_history(rng, d, exact)
            hist["spec0"] = distinct_margins(rng, hist["spec0"], exact)
            spec = final_spec(hist)
        for r in range(2):
            pats = [rng.choice("-+0") for _ in range(d)]
            if r == 0 or all(p == "0" for p in pats):      # a one-signed rectangle: every sub-family is admissible
                pats = [rng.choice("-+") for _ in range(d)]
            a, b = draw_rect(rng, pats, exact)
            for I in subsets(d):
                ai, bi = [a[i] for i in I], [b[i] for i in I]
                if all(straddles(x, y) for x, y in zip(ai, bi)):
                    continue
                perms = [list(p) for p in itertools.permutations(range(len(I)))]
                if len(perms) > 6:
                    perms = [perms[0]] + rng.sample(perms[1:], 5)
                for perm in perms:
                    for entry in (entries_for(len(I)) if len(perms) <= 2 else rng.sample(entries_for(len(I)), 2)):
                        inp = dict(spec=spec, I=I, a=ai, b=bi, perm=perm, form=rng.choice(IDX_FORMS), aform=rng.choice(VEC_FORMS),
                                   entry=entry, kw=rng.random() < 0.4)
                        if hist is not None:
                            inp["hist"] = hist
                        p_index_order(ctx, inp)


def run_histories(ctx, oracle_only, factor):
    """operation histories on one live copula-model object; afterwards every statement of the property is examined on that object by
    the same probes as on a fresh one (inp['hist'] makes a probe use the live object), plus c12.history"""
    rng = ctx.rng
    for rep in range(ctx.n(12, 90) * factor):
        d = (3, 3, 2, 4)[rep % 4]
        exact = (rep % 3 == 1)
        hist = draw_history(rng, d, exact)
        spec = final_spec(hist)
        full = list(range(d))
        # sign patterns: each number of straddling sides (0 .. d-1) at least once, the rest at random
        pats_list = []
        for nz in range(d):
            pats = [rng.choice("-+") for _ in range(d)]
            for k in rng.sample(range(d), nz):
                pats[k] = "0"
            pats_list.append(tuple(pats))
        pats_list += [tuple(rng.choice("-+0") for _ in range(d)) for _ in range(2)]
        for pats in pats_list:
            if all(q == "0" for q in pats):
                continue
            a, b = draw_rect(rng, pats, exact)
            inp = dict(spec=spec, hist=hist, I=full, a=a, b=b)
            p_history(ctx, inp)
            p_fast_vs_general(ctx, inp)
            p_nonneg(ctx, inp)
            p_by_definition(ctx, inp)
            p_index_order(ctx, dict(inp, **order_variant(rng, d, True)))
            if not oracle_only and (exact or rng.random() < 0.3):
                p_model(ctx, inp, exact)
            k = rng.randrange(d)
            c = split_point(rng, a[k], b[k], exact)
            p_additivity(ctx, dict(inp, k=k, c=c))
            if d == 4:
                p_additivity_nd(ctx, dict(inp, k=k, c=c))
                p_whole_line_nd(ctx, dict(inp, k=rng.randrange(d)))
            for Is in rng.sample(subsets(d)[:-1], 2):
                ai, bi = [a[i] for i in Is], [b[i] for i in Is]
                sub = dict(spec=spec, hist=hist, I=Is, a=ai, b=bi)
                p_history(ctx, sub)
                p_fast_vs_general(ctx, sub)
                if not all(straddles(x, y) for x, y in zip(ai, bi)):
                    p_nonneg(ctx, sub)
                    p_by_definition(ctx, sub)
                    p_index_order(ctx, dict(sub, **order_variant(rng, len(Is))))
                    if d >= 3 and len(Is) >= 2:
                        p_submargin(ctx, sub)
                if not oracle_only and exact and rng.random() < 0.5:
                    p_model(ctx, sub, exact)
        for k in range(d):
            lo, hi = draw_side(rng, rng.choice("-+"), exact, p_inf=0.2)
            p_margin(ctx, dict(spec=spec, hist=hist, k=k, a=lo, b=hi))
        p_inverse_tail(ctx, dict(spec=spec, hist=hist, i=rng.randrange(d), x=draw_point(rng, rng.choice([-1, 1]), exact)))


def run(ctx, oracle_only=False, factor=1):
    rng = ctx.rng
    reps = ctx.n(14, 110) * factor
    for rep in range(reps):
        for d in (2, 3):
            exact = (rep % 2 == 1)
            # d = 3: every other model carries a copula that is NOT a symmetric function of its arguments, the special coordinate (the
            # independent name of the block copula) in each of the three placements in turn
            spec = draw_spec(rng, d, exact, nonexch=True, special=((rep // 2) % d if rep % 4 < 2 else None))
            for pats in itertools.product("-+0", repeat=d):
                I = list(range(d))
                a, b = draw_rect(rng, pats, exact)
                inp = dict(spec=spec, I=I, a=a, b=b)
                origin = all(p == "0" for p in pats)
                p_fast_vs_general(ctx, inp)
                if not oracle_only:
                    named = exact and lean_cop_name(spec["cop"]) is not None
                    if named:
                        p_model_exact(ctx, inp)
                    if not named or rng.random() < 0.3:
                        p_model_table(ctx, inp)
                if origin:
                    continue
                p_nonneg(ctx, inp)
                p_by_definition(ctx, inp)
                if rng.random() < 0.5:          # the same rectangle, its coordinates listed in another order (c12.index_order)
                    p_index_order(ctx, dict(inp, **order_variant(rng, d, True)))
                k = rng.randrange(d)
                p_additivity(ctx, dict(inp, k=k, c=split_point(rng, a[k], b[k], exact)))
                # sub-families of coordinates
                Is = rng.choice(subsets(d)[:-1])
                ai, bi = [a[i] for i in Is], [b[i] for i in Is]
                sub = dict(spec=spec, I=Is, a=ai, b=bi)
                p_fast_vs_general(ctx, sub)
                if not oracle_only and rng.random() < 0.5:
                    p_model(ctx, sub, exact)
                if d == 3 and len(Is) == 2:
                    p_by_definition(ctx, sub)
                    p_submargin(ctx, sub)
                    if rng.random() < 0.5:
                        p_index_order(ctx, dict(sub, **order_variant(rng, 2)))
            # margins: one coordinate on one side, the others over the whole line
            for k in range(d):
                lo, hi = draw_side(rng, rng.choice("-+"), exact, p_inf=0.2)
                p_margin(ctx, dict(spec=spec, k=k, a=lo, b=hi))
            # inverse tail integral
            for _ in range(3):
                p_inverse_tail(ctx, dict(spec=spec, i=rng.randrange(d), x=draw_point(rng, rng.choice([-1, 1]), exact)))
    # --- general d: in d = 4 `mass` is the recursion `_mass_nd` itself (theorems massNd_additive_split / massNd_whole_line);
    #     the same recursion is exercised on every index subset of the 2-d / 3-d models as well
    for rep in range(ctx.n(6, 40) * factor):
        d = 4
        exact = (rep % 2 == 1)
        spec = draw_spec(rng, d, exact, nonexch=True, special=(rep // 2 % 4 if rep % 2 == 0 else None))
        I = list(range(d))
        pats_list = [tuple(rng.choice("-+0") for _ in range(d)) for _ in range(5)] + [tuple(rng.choice("-+") for _ in range(d))]
        for pats in pats_list:
            if all(p == "0" for p in pats):
                continue
            a, b = draw_rect(rng, pats, exact)
            inp = dict(spec=spec, I=I, a=a, b=b)
            if not oracle_only:
                p_model(ctx, inp, exact)
            p_nonneg(ctx, inp)
            p_by_definition(ctx, inp)
            p_index_order(ctx, dict(inp, **order_variant(rng, d, True)))
            k = rng.randrange(d)
            c = split_point(rng, a[k], b[k], exact)
            p_additivity(ctx, dict(inp, k=k, c=c))
            p_additivity_nd(ctx, dict(inp, k=k, c=c))
            p_whole_line_nd(ctx, dict(inp, k=rng.randrange(d)))
            Is = rng.choice(subsets(d)[d:-1])              # |I| in {2, 3}
            ai, bi = [a[i] for i in Is], [b[i] for i in Is]
            if not all(straddles(x, y) for x, y in zip(ai, bi)):
                sub = dict(spec=spec, I=Is, a=ai, b=bi)
                p_by_definition(ctx, sub)
                p_submargin(ctx, sub)
                p_index_order(ctx, dict(sub, **order_variant(rng, len(Is), True)))
            kk = rng.randrange(len(Is))
            p_additivity_nd(ctx, dict(spec=spec, I=Is, a=ai, b=bi, k=kk, c=split_point(rng, ai[kk], bi[kk], exact)))
            p_whole_line_nd(ctx, dict(spec=spec, I=Is, a=ai, b=bi, k=rng.randrange(len(Is))))
        kq = rng.randrange(d)
        lo, hi = draw_side(rng, rng.choice("-+"), exact, p_inf=0.2)
        p_margin(ctx, dict(spec=spec, k=kq, a=lo, b=hi))
    for rep in range(ctx.n(10, 80) * factor):
        d = rng.choice([2, 3])
        exact = rng.random() < 0.5
        spec = draw_spec(rng, d, exact, nonexch=True)
        pats = tuple(rng.choice("-+0") for _ in range(d))
        a, b = draw_rect(rng, pats, exact)
        I = list(range(d))
        k = rng.randrange(d)
        p_additivity_nd(ctx, dict(spec=spec, I=I, a=a, b=b, k=k, c=split_point(rng, a[k], b[k], exact)))
        p_whole_line_nd(ctx, dict(spec=spec, I=I, a=a, b=b, k=rng.randrange(d)))
    # --- operation histories on one live object (copula re-assigned / edited in place between evaluations) ---------------------
    run_histories(ctx, oracle_only, factor)
    # --- every index set in every listing order / container, through every entry point (c12.index_order) ------------------------
    run_orders(ctx, factor)
    # --- end points / split points exactly at 0 (finding #30) -------------------------------------------------------
    for rep in range(ctx.n(40, 400) * factor):
        d = rng.choice([2, 3])
        exact = rng.random() < 0.3
        spec = draw_spec(rng, d, exact)
        pats = [rng.choice("-+0") for _ in range(d)]
        if all(p == "0" for p in pats):
            pats[rng.randrange(d)] = rng.choice("-+")
        a, b = draw_rect(rng, pats, exact)
        I = list(range(d))
        mode = rng.choice(["split", "split", "lower", "upper", "two"])
        if mode == "split" and "0" in pats:
            k = pats.index("0")
            p_additivity(ctx, dict(spec=spec, I=I, a=a, b=b, k=k, c=0.0))
            continue
        ks = [k for k in range(d) if pats[k] != "0"]
        for k in (ks if mode == "two" else ks[:1]):
            if pats[k] == "+" and mode != "upper":
                a[k] = 0.0
            elif pats[k] == "-" and mode != "lower":
                b[k] = 0.0
            elif pats[k] == "+":
                a[k] = 0.0
            else:
                b[k] = 0.0
        inp = dict(spec=spec, I=I, a=a, b=b)
        p_nonneg(ctx, inp)
        p_fast_vs_general(ctx, inp)
        if not oracle_only:
            p_model_table(ctx, inp)
    # --- independent copula at an all-infinite corner (recorded C11 fault seen through the mass): forced once per run
    for fams in (("vg", "cgmy"), ("cgmy", "vg", "vg")):
        spec = dict(margins=[dict(fam=f, params={}) for f in fams], cop=dict(cop="independent"))
        d = len(fams)
        p_nonneg(ctx, dict(spec=spec, I=list(range(d)), a=[0.0] * d, b=[round(rng.uniform(0.05, 0.3), 3) for _ in range(d)]))
    # --- implied joint density (quadrature) ---------------------------------------------------------------------------
    for rep in range(ctx.n(3, 30) * factor):
        spec = dict(margins=[dict(fam=f, params={}) for f in (rng.choice(["hem", "merton", "vg", "cgmy"]) for _ in range(2))],
                    cop=dict(cop="clayton", theta=round(rng.uniform(0.4, 2.5), 2), eta=round(rng.uniform(0.1, 0.9), 2)))
        a, b = [], []
        for _ in range(2):
            s = rng.choice([-1, 1])
            x = rng.uniform(0.02, 0.2)
            lo, hi = sorted([s * x, s * x * rng.uniform(1.2, 2.0)])
            a.append(lo)
            b.append(hi)
        p_density(ctx, dict(spec=spec, a=a, b=b))


def search(ctx):
    run(ctx, oracle_only=True, factor=3)


def replay(ctx, rec):
    fn = PROBES.get(rec["probe"])
    if fn is None:
        raise ValueError(f"unknown probe {rec['probe']}")
    fn(ctx, rec["input"])
