"""C05 — Multilevel estimator = sum of per-level means over exactly the simulated samples (DESIGN.md §4 C05)."""
from __future__ import annotations

import math
import warnings
import numpy as np

from .. import fake_engine as fe
from ..common import w, rd, rdl, rdll, close, fr

RULE = ("oracle histories for the real Engine.price driven by a scripted coupling process (unique dyadic sample values) and a "
        "scripted public ConvergenceCriteria: random (initial level 0..4, N0 1..40, max level <= 8, 1..7 iterations, sizes that "
        "grow / stall / shrink, verdicts) + the directed family 'level added at iteration t whose first pass has dN in {0,1,2}'; "
        "fixed-level variant for max level 0..5. non-trivial = at least two passes or one level addition; distinct = distinct "
        "(configuration, history)")
NOT_PROVED = ["numpy/scipy moment kernels (np.mean, scipy.stats.moment) are compared with the model's exact rational moments, not proved",
              "control-variate adjusted arrays are oracle-checked on the implementation (same rows as the raw arrays, Y - b*(X - price_X) per level and column), not part of the Lean model",
              "multi-process callback order is covered by C08; here nb_of_processes=1"]
ASSUMPTIONS = ["the 1% rule is compared away from its float boundary (histories with 100*dN == N are not generated)"]
TRUSTED = ["copy.deepcopy of the coupling process per level; numpy array assignment / np.pad"]


def gen_history(rng, L0, N0, level_max):
    """random oracle history that is guaranteed to end in a return"""
    hist = []
    n_levels = L0 + 1
    cur = [N0] * n_levels
    for _ in range(rng.randint(0, 6)):
        mode = rng.random()
        ns = []
        for l in range(n_levels):
            c = cur[l]
            r = rng.random()
            if mode < 0.35 or r < 0.3:
                v = c                                     # nothing to add
            elif r < 0.8:
                v = c + rng.choice([1, 1, 2, 3, 5, 10, c, 2 * c + 1])
            else:
                v = max(0, c - rng.randint(1, 3))         # optimal size below what was done
            ns.append(v)
        conv = rng.random() < 0.25
        # after a level addition the engine asks again, for n_levels + 1 levels
        ns2 = [max(a, b) if rng.random() < 0.7 else a for a, b in zip(ns, cur)] + [rng.choice([0, 0, 1, 2, 3, 7])]
        ns = _off_boundary(ns, cur)
        hist.append((ns, conv, ns2))
        newcur = [max(a, b) for a, b in zip(cur, ns)]
        small = all(100 * max(0, a - b) <= b for a, b in zip(ns, newcur_before(cur)))
        cur = newcur
        # we do not track exactly whether a level is added (the model and the engine decide); keep lengths generous
        if len(cur) <= level_max:
            cur = cur + [0]
            n_levels += 1
    hist.append(([0] * 12, True, [0] * 12))            # closing oracle: nothing to add, converged
    return hist


def newcur_before(cur):
    return cur


def _off_boundary(ns, cur):
    """avoid 100*dN == N exactly (float boundary of `dNl > 0.01 * Nl`)"""
    out = []
    for a, c in zip(ns, cur + [0] * len(ns)):
        n_after = max(c, 0)
        d = max(0, a - n_after)
        if d > 0 and 100 * d == n_after:
            a += 1
        out.append(a)
    return out


def enc_history(hist):
    return ";".join(f"{_l(ns)}|{1 if conv else 0}|{_l(ns2)}" for ns, conv, ns2 in hist) if hist else "-"


def _l(xs):
    return "[" + ",".join(str(int(x)) for x in xs) + "]"


def parse_read(block):
    t = block.split(" ")
    assert t[0] == "R", block
    return dict(L=int(t[1]), N=[int(x) for x in rdl(t[2])], sim=[int(x) for x in rdl(t[3])], cost=rdl(t[4]),
                fine=rdll(t[5]), coarse=rdll(t[6]), pad=rdll(t[7]), price=rd(t[8]), dp=rdl(t[9]), vl=rdl(t[10]),
                cl=rdl(t[11]), fm=rdl(t[12]))


def oracle_rows(ctx, probe, desc, snap, log_upto, cls):
    """S: the arrays are exactly the simulated samples (independent of M): compare with the process's own log"""
    sims = {}
    for kind, l, k in log_upto:
        if kind == "sim":
            sims.setdefault(l, []).append(k)
    for l, arr in enumerate(snap["rows"]):
        ks = sims.get(l, [])
        exp_f = [fe.DF * fe.fine_value(l, k) for k in ks]
        exp_c = [0.0 if l == 0 else fe.DF * fe.coarse_value(l, k) for k in ks]
        got_f = arr[:, 0, 0].tolist()
        got_c = arr[:, 0, 1].tolist()
        what = None
        if snap["Nl"][l] != len(ks):
            what = f"reported N_l={snap['Nl'][l]} but {len(ks)} samples were simulated at level {l}"
        elif len(got_f) != len(ks):
            what = f"array of level {l} has {len(got_f)} rows for {len(ks)} simulated samples (placeholder counted / sample dropped)"
        elif got_f != exp_f or got_c != exp_c:
            what = f"rows of level {l} are not the simulated samples in simulation order"
        if what:
            ctx.fail("oracle", probe, desc, {"what": what, "level": l, "rows_fine": got_f[:8], "expected_fine": exp_f[:8],
                                              "Nl": snap["Nl"]}, cls=cls)
            return False
    # the price is the sum of per-level means over exactly those samples
    price = 0.0
    for l, ks in sims.items():
        if ks and l < len(snap["rows"]):
            price += float(np.mean([fe.DF * fe.fine_value(l, k) for k in ks])) - (0.0 if l == 0 else float(np.mean([fe.DF * fe.coarse_value(l, k) for k in ks])))
    if not math.isclose(price, snap["price"], rel_tol=1e-12, abs_tol=1e-12):
        ctx.fail("oracle", probe, desc, {"what": "price is not the sum of per-level sample means", "price": snap["price"], "expected": price}, cls=cls)
        return False
    return True


def compare_read(ctx, desc, snap, m, cls, where):
    """C: model read point vs implementation snapshot"""
    nl = len(snap["rows"])
    ok = (m["L"] + 1 == nl and m["N"] == snap["Nl"])
    detail = None
    if not ok:
        detail = {"what": "levels / N_l", "impl": snap["Nl"], "model": m["N"]}
    else:
        for l in range(nl):
            gf = [fr(x) for x in snap["rows"][l][:, 0, 0]]
            gc = [fr(x) for x in snap["rows"][l][:, 0, 1]]
            if gf != m["fine"][l] or gc != m["coarse"][l]:
                detail = {"what": "rows differ", "level": l, "impl": [float(x) for x in gf[:6]], "model": [float(x) for x in m["fine"][l][:6]]}
                break
            if m["N"][l] > 0:
                sc = max(abs(float(x)) for x in gf) if gf else 1.0
                if not (close(snap["ml"][l], abs(m["dp"][l]), scale=sc) and close(snap["vl"][l], m["vl"][l], scale=sc * sc)
                        and close(snap["cl"][l], m["cl"][l]) and close(snap["mean_level"][l], m["fm"][l], scale=sc)):
                    detail = {"what": "level statistics differ", "level": l,
                              "impl": {k: snap[k][l] for k in ("ml", "vl", "cl", "mean_level")},
                              "model": {"ml": float(abs(m["dp"][l])), "vl": float(m["vl"][l]), "cl": float(m["cl"][l]), "mean": float(m["fm"][l])}}
                    break
        if detail is None and all(n > 0 for n in m["N"]) and not close(snap["price"], m["price"], scale=16 * nl):
            detail = {"what": "price", "impl": snap["price"], "model": float(m["price"])}
    if detail:
        detail["name"] = f"Drivers/C05 price trace vs Engine.price ({where})"
        ctx.fail("corr", "c05.model", desc, detail, cls=cls)
        return False
    return True


def one_history(ctx, L0, N0, level_max, hist, tag):
    desc = dict(L0=L0, N0=N0, level_max=level_max, history=[[list(a), bool(b), list(c)] for a, b, c in hist])
    cls = dict(kind=tag)
    with warnings.catch_warnings():
        warnings.simplefilter("ignore")
        with np.errstate(all="ignore"):
            try:
                r = fe.run_mlmc(hist, L0, N0, level_max)
            except Exception as e:  # the engine crashed on this history
                ctx.fail("oracle", "c05.engine_raises", desc, {"what": f"{type(e).__name__}: {e}"}, cls=cls)
                return
    out = ctx.lean(f"price {L0} {N0} {level_max} 0 {enc_history(hist)}")
    blocks = out.split(" # ")
    reads_m = [parse_read(b) for b in blocks[:-1]]
    end = blocks[-1].split(" ")
    nontrivial = len(r["reads"]) >= 2 or any(k == "next_level" and l > L0 for k, l, _ in r["log"])
    ctx.count("c05.history", desc, nontrivial=nontrivial, branch=tag)
    # S: at every read point the arrays are exactly the simulated samples so far
    for i, snap in enumerate(r["reads"]):
        if not oracle_rows(ctx, "c05.rows_are_samples", dict(desc, read=i), snap, r["log"][:snap["loglen"]], cls):
            return
    if r["final"] is not None and not oracle_rows(ctx, "c05.rows_are_samples", dict(desc, read="final"), r["final"], r["log"], cls):
        return
    # C: same trace from the model
    if end[0] != r["outcome"] or len(reads_m) != len(r["reads"]):
        ctx.fail("corr", "c05.model", desc, {"name": "Drivers/C05 price trace vs Engine.price (outcome)", "impl": [r["outcome"], len(r["reads"])],
                                             "model": [end[0], len(reads_m)]}, cls=cls)
        return
    for i, (snap, m) in enumerate(zip(r["reads"], reads_m)):
        if not compare_read(ctx, desc, snap, m, cls, f"read {i}"):
            return
    if r["final"] is not None:
        if [int(x) for x in rdl(end[2])] != r["final"]["Nl"] or [int(x) for x in rdl(end[4])] != [len(a) for a in r["final"]["rows"]]:
            ctx.fail("corr", "c05.model", desc, {"name": "Drivers/C05 final state vs Engine.price", "impl": r["final"]["Nl"], "model": end}, cls=cls)


def cv_history(ctx, L0, N0, level_max, hist):
    """with one control variate: the adjusted arrays have exactly the rows of the raw ones and hold Y - b*(X - price_X)
    with the sample regression coefficient of the level, for the fine and the coarse column"""
    from rpylib.product.payoff import Forward
    from rpylib.product.product import Product, ControlVariates
    from rpylib.product.underlying import Spot
    desc = dict(L0=L0, N0=N0, level_max=level_max, control_variates=True, history=[[list(a), bool(b), list(c)] for a, b, c in hist])
    cls = dict(kind="control_variates")
    price_x = 3.25
    cv = ControlVariates(products=[Product(payoff_underlying=Spot(), payoff=Forward(strike=1.5), maturity=fe.T, notional=2.0)], prices=[price_x])
    with warnings.catch_warnings():
        warnings.simplefilter("ignore")
        with np.errstate(all="ignore"):
            try:
                r = fe.run_mlmc(hist, L0, N0, level_max, control_variates=cv)
            except Exception as e:
                ctx.fail("oracle", "c05.engine_raises", desc, {"what": f"{type(e).__name__}: {e}"}, cls=cls)
                return
    ctx.count("c05.cv_history", desc, nontrivial=len(r["reads"]) >= 1, branch="cv")
    if r["final"] is None:
        return
    if not oracle_rows(ctx, "c05.rows_are_samples", desc, r["final"], r["log"], cls):
        return
    st = r["engine"].statistics
    for l, ms in enumerate(st.mc_statistics):
        Y = np.array(ms._payoff_statistics.stats, dtype=float)
        A = np.array(ms._payoff_statistics_with_cv.stats, dtype=float)
        X = np.array(ms._control_variates_statistics.stats, dtype=float)
        n = Y.shape[0]
        if A.shape != Y.shape or X.shape[0] != n:
            ctx.fail("oracle", "c05.cv_rows", desc, {"what": "adjusted / control arrays do not have the rows of the raw array", "level": l,
                                                    "raw": Y.shape, "adjusted": A.shape, "controls": X.shape}, cls=cls)
            return
        if n < 3:
            continue
        for col in (0, 1):
            y = Y[:, 0, col]
            x = (X[:, 0, 0, col] if X.ndim == 4 else X[:, 0, 0]) if not (l == 0 and col == 1) else np.zeros(n)
            vx = float(np.var(x))
            b = 0.0 if abs(vx) < 1e-12 else float(np.cov(x, y, bias=True)[0, 1] / vx)
            exp_adj = y - b * (x - price_x)
            if not np.allclose(A[:, 0, col], exp_adj, rtol=1e-9, atol=1e-9):
                ctx.fail("oracle", "c05.cv_rows", desc, {"what": "adjusted rows are not Y - b*(X - price_X) over the simulated samples", "level": l,
                                                        "column": col, "adjusted": A[:4, 0, col].tolist(), "expected": exp_adj[:4].tolist()}, cls=cls)
                return


def run(ctx):
    rng = ctx.rng
    for _ in range(ctx.n(12, 200)):
        level_max = rng.randint(1, 5)
        L0 = rng.randint(0, min(2, level_max))
        N0 = rng.choice([3, 5, 10, 20])
        cv_history(ctx, L0, N0, level_max, gen_history(rng, L0, N0, level_max))
    for _ in range(ctx.n(120, 3000)):
        level_max = rng.randint(1, 8)
        L0 = rng.randint(0, min(4, level_max))
        N0 = rng.choice([1, 2, 3, 5, 10, 20, 40, 100, 230])
        one_history(ctx, L0, N0, level_max, gen_history(rng, L0, N0, level_max), "random")
    # directed: a level added at iteration t whose first pass has dN in {0,1,2}
    for L0 in (0, 1, 2):
        for N0 in (1, 3, 20):
            for t in (0, 1, 2):
                for dn in (0, 1, 2, 5):
                    n = L0 + 1
                    hist = [([N0 + 3 * (i + 1)] * n, False, []) for i in range(t)]
                    top = N0 + 3 * t
                    hist += [([top] * n, False, [top] * n + [dn]), ([top] * n + [dn], True, [])]
                    hist.append(([0] * 12, True, [0] * 12))
                    one_history(ctx, L0, N0, L0 + 3, hist, "late_level")
    # directed: the run returns while some level still has a non-zero top-up within the 1 % rule (needs N_l >= 100): the
    # arrays must not have been padded for samples that are never simulated
    for L0 in (0, 1, 2):
        for N0 in (100, 200, 350):
            n = L0 + 1
            for delta in (1, 2, N0 // 100):
                one_history(ctx, L0, N0, L0 + 2, [([N0 + delta] * n, True, [])], "small_topup")
                one_history(ctx, L0, N0, L0, [([N0 + delta] + [N0] * (n - 1), False, [])], "small_topup_maxlevel")
            hist = [([N0] * n, False, [N0] * n + [150]), ([N0 + 1] * n + [151], True, [])]
            one_history(ctx, L0, N0, L0 + 2, hist, "small_topup_after_level")
    # fixed-level variant
    for max_level in range(0, ctx.n(4, 6)):
        for mc in (1, 2, 7):
            desc = dict(fixed=True, max_level=max_level, mc=mc)
            r = fe.run_mlmc_fixed(max_level, mc)
            ctx.count("c05.fixed", desc, nontrivial=max_level >= 1)
            if oracle_rows(ctx, "c05.rows_are_samples", desc, r["final"], r["log"], dict(kind="fixed")):
                m = parse_read(ctx.lean(f"fixed {max_level} {mc}"))
                compare_read(ctx, desc, r["final"], m, dict(kind="fixed"), "fixed")


def replay(ctx, rec):
    d = rec["input"]
    if d.get("fixed"):
        r = fe.run_mlmc_fixed(d["max_level"], d["mc"])
        oracle_rows(ctx, "c05.rows_are_samples", d, r["final"], r["log"], dict(kind="fixed"))
        return
    hist = [(a, b, c) for a, b, c in d["history"]]
    one_history(ctx, d["L0"], d["N0"], d["level_max"], hist, rec.get("cls", {}).get("kind", "replay"))
