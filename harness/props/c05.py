"""C05 — Multilevel estimator = sum of per-level means over exactly the simulated samples (DESIGN.md §4 C05)."""
from __future__ import annotations

import math
import types
import warnings
from fractions import Fraction as F

import numpy as np

from .. import fake_engine as fe
from ..common import w, rd, rdl, rdll, close, fr

RULE = ("oracle histories for the real Engine.price driven by a scripted coupling process (unique dyadic sample values) and a "
        "scripted public ConvergenceCriteria: random (initial level 0..4, N0 1..230, max level <= 8, 1..7 iterations, sizes that "
        "grow / stall / shrink, verdicts, convergence rates from a set of 5 with 2^rate exact) + the directed families 'level added at "
        "iteration t whose first pass has dN in {0,1,2,5}' and 'return with a top-up within the 1 % rule'; fixed-level variant for max "
        "level 0..5; with control variates: the same random histories on a second scripted process (non-monotone dyadic values) with one or "
        "two scripted controls (square / call / forward of the terminal value, own notional and price) + one-level cases whose control mean "
        "equals its price exactly. Every read point of every history is checked (rows, control rows, adjusted rows, what the criteria "
        "callbacks received), and at every read point every REPORTED statistic (N_l, ml, vl, mean_level_l, var_level_l, kurtosis, cl, cost, "
        "price()) is read once, read again twice, and judged against the exact rational textbook statistic of the columns the engine stored "
        "(c05.stats_from_samples). Fast-decay regime: a third scripted process (small dyadic values; mean / spread of the correction "
        "multiplied by 2^-r / 2^-q per level with r in 1..5, q in 1..3 chosen against the CONFIGURED alpha / beta so that the engine's floor "
        "for levels >= 3 exceeds the sample statistic; chosen levels with exactly zero or negative corrections) in complete plans: adaptive "
        "run from initial level 0..4 to a final L in 3..6 (new levels start with 1, 1, 2, 2, 3, 7 or 0 samples, top-up passes in between, "
        "return by verdict / at the maximum level / by an empty pass), without and with one or two controls; results also read inside "
        "the criteria and second compute_mc_paths callbacks; the RETURNED object is kept and re-read (rows and every statistic) later, "
        "after pricings on other engine objects, and after a second pricing (other process parameters, other history) on the same engine. "
        "non-trivial = at least two passes or one level addition (plans: final L >= 3); distinct = distinct (configuration, history)")
NOT_PROVED = ["numpy/scipy moment kernels (np.mean, scipy.stats.moment, np.cov) are compared with the model's exact rational moments, not proved",
              "control variates in the multilevel engine: the bookkeeping theorems (same rows, adjusted row formula, price = sum of adjusted level "
              "means, cv_mean_identity_mlmc) hold for any number of controls and any regression kernel; the kernel itself is the exact "
              "kernel as coded for one and two controls in the driver (guard, inverse, pseudo-inverse: Stats.kernelOf; three or more controls in "
              "the multilevel engine are not compared), payoff dimension 1 (the multilevel results only read payoff component 0)",
              "the cost of one simulation of a level is a constant of the scripted process (cl = that constant is proved from sum_cost = cost x N_l); "
              "a real coupling process measures it, which is outside the model",
              "regression of alpha, beta, gamma when the rates are not given (np.linalg.lstsq) is not modelled: rates are given in every run",
              "multi-process callback order is covered by C08; here nb_of_processes=1",
              "the fast-decay plans (third scripted process) are judged by the oracles only (rows = logged samples, reported statistics = "
              "textbook statistics of the stored columns, feeds); the Lean driver has no process of that family, so there is no "
              "correspondence line for them"]
ASSUMPTIONS = ["the 1% rule is compared away from its float boundary (histories with 100*dN == N are not generated)",
               "adjusted rows / level statistics with control variates are compared at 2^-40 relative to a cancellation-aware scale "
               "(rounding of cov/var amplified by 1/var); raw rows, control rows, N_l and all shapes exactly",
               "levels without samples (N_l = 0, numpy gives nan) are excluded from the comparison of the fed ml/vl/cl and counted",
               "two controls: read points where Sigma_X has an entry within a factor 10 of the 1e-12 guard or is nearly-but-not-exactly singular "
               "are don't-care points of the float guard / pseudo-inverse cut-off (excluded, counted)",
               "engine reuse: the same Engine object is re-configured through its public configuration attributes between runs",
               "reported statistics oracle: variance = mean of squares minus squared mean (1/n) of the stored corrections (vl, clipped at 0 "
               "only by rounding) / of the stored fine column (var_level_l); kurtosis = fourth central moment of the stored corrections over "
               "max(1, variance)^2, the normalisation the library declares; tolerance 2^-40 relative to the level's max(|fine|, |coarse|) "
               "(squared for variances, fourth power for the kurtosis); N_l exact; a level with N_l = 0 is skipped (nan) and counted",
               "a results object is judged where the caller can read it: inside the callbacks of the iteration that produced it and, for "
               "the returned one, at any later time; superseded intermediate results objects are not re-read after their iteration"]
TRUSTED = ["copy.deepcopy of the coupling process per level; numpy array assignment / np.pad"]


def gen_history(rng, L0, N0, level_max):
    """random oracle history that is guaranteed to end in a return"""
    hist = []
    n_levels = L0 + 1
    cur = [N0] * n_levels
    for _ in range(rng.randint(0, 6)):
        mode = rng.random()
        ns = []
        for l in range(n_levels):
            c = cur[l]
            r = rng.random()
            if mode < 0.35 or r < 0.3:
                v = c                                     # nothing to add
            elif r < 0.8:
                v = c + rng.choice([1, 1, 2, 3, 5, 10, c, 2 * c + 1])
            else:
                v = max(0, c - rng.randint(1, 3))         # optimal size below what was done
            ns.append(v)
        conv = rng.random() < 0.25
        # after a level addition the engine asks again, for n_levels + 1 levels
        ns2 = [max(a, b) if rng.random() < 0.7 else a for a, b in zip(ns, cur)] + [rng.choice([0, 0, 1, 2, 3, 7])]
        ns = _off_boundary(ns, cur)
        hist.append((ns, conv, ns2))
        newcur = [max(a, b) for a, b in zip(cur, ns)]
        small = all(100 * max(0, a - b) <= b for a, b in zip(ns, newcur_before(cur)))
        cur = newcur
        # we do not track exactly whether a level is added (the model and the engine decide); keep lengths generous
        if len(cur) <= level_max:
            cur = cur + [0]
            n_levels += 1
    hist.append(([0] * 12, True, [0] * 12))            # closing oracle: nothing to add, converged
    return hist


def newcur_before(cur):
    return cur


def _off_boundary(ns, cur):
    """avoid 100*dN == N exactly (float boundary of `dNl > 0.01 * Nl`)"""
    out = []
    for a, c in zip(ns, cur + [0] * len(ns)):
        n_after = max(c, 0)
        d = max(0, a - n_after)
        if d > 0 and 100 * d == n_after:
            a += 1
        out.append(a)
    return out


def enc_history(hist):
    return ";".join(f"{_l(ns)}|{1 if conv else 0}|{_l(ns2)}" for ns, conv, ns2 in hist) if hist else "-"


def _l(xs):
    return "[" + ",".join(str(int(x)) for x in xs) + "]"


def parse_read(block):
    t = block.split(" ")
    assert t[0] == "R", block
    return dict(L=int(t[1]), N=[int(x) for x in rdl(t[2])], sim=[int(x) for x in rdl(t[3])], cost=rdl(t[4]),
                fine=rdll(t[5]), coarse=rdll(t[6]), pad=rdll(t[7]), price=rd(t[8]), dp=rdl(t[9]), vl=rdl(t[10]),
                cl=rdl(t[11]), fm=rdl(t[12]))


def oracle_rows(ctx, probe, desc, snap, log_upto, cls, fine=None, coarse=None):
    """S: the arrays are exactly the simulated samples (independent of M): compare with the process's own log"""
    fine = fine or fe.fine_value
    coarse = coarse or fe.coarse_value
    sims = {}
    for kind, l, k in log_upto:
        if kind == "sim":
            sims.setdefault(l, []).append(k)
    for l, arr in enumerate(snap["rows"]):
        ks = sims.get(l, [])
        exp_f = [fe.DF * fine(l, k) for k in ks]
        exp_c = [0.0 if l == 0 else fe.DF * coarse(l, k) for k in ks]
        got_f = arr[:, 0, 0].tolist()
        got_c = arr[:, 0, 1].tolist()
        what = None
        if snap["Nl"][l] != len(ks):
            what = f"reported N_l={snap['Nl'][l]} but {len(ks)} samples were simulated at level {l}"
        elif len(got_f) != len(ks):
            what = f"array of level {l} has {len(got_f)} rows for {len(ks)} simulated samples (placeholder counted / sample dropped)"
        elif got_f != exp_f or got_c != exp_c:
            what = f"rows of level {l} are not the simulated samples in simulation order"
        if what:
            ctx.fail("oracle", probe, desc, {"what": what, "level": l, "rows_fine": got_f[:8], "expected_fine": exp_f[:8],
                                              "Nl": snap["Nl"]}, cls=cls)
            return False
    # the price is the sum of per-level means over exactly those samples
    price = 0.0
    for l, ks in sims.items():
        if ks and l < len(snap["rows"]):
            price += float(np.mean([fe.DF * fine(l, k) for k in ks])) - (0.0 if l == 0 else float(np.mean([fe.DF * coarse(l, k) for k in ks])))
    if not math.isclose(price, snap["price"], rel_tol=1e-12, abs_tol=1e-12):
        ctx.fail("oracle", probe, desc, {"what": "price is not the sum of per-level sample means", "price": snap["price"], "expected": price}, cls=cls)
        return False
    return True


def compare_read(ctx, desc, snap, m, cls, where):
    """C: model read point vs implementation snapshot"""
    nl = len(snap["rows"])
    ok = (m["L"] + 1 == nl and m["N"] == snap["Nl"])
    detail = None
    if not ok:
        detail = {"what": "levels / N_l", "impl": snap["Nl"], "model": m["N"]}
    else:
        for l in range(nl):
            gf = [fr(x) for x in snap["rows"][l][:, 0, 0]]
            gc = [fr(x) for x in snap["rows"][l][:, 0, 1]]
            if gf != m["fine"][l] or gc != m["coarse"][l]:
                detail = {"what": "rows differ", "level": l, "impl": [float(x) for x in gf[:6]], "model": [float(x) for x in m["fine"][l][:6]]}
                break
            if m["N"][l] > 0:
                sc = max(abs(float(x)) for x in gf) if gf else 1.0
                if not (close(snap["ml"][l], abs(m["dp"][l]), scale=sc) and close(snap["vl"][l], m["vl"][l], scale=sc * sc)
                        and close(snap["cl"][l], m["cl"][l]) and close(snap["mean_level"][l], m["fm"][l], scale=sc)):
                    detail = {"what": "level statistics differ", "level": l,
                              "impl": {k: snap[k][l] for k in ("ml", "vl", "cl", "mean_level")},
                              "model": {"ml": float(abs(m["dp"][l])), "vl": float(m["vl"][l]), "cl": float(m["cl"][l]), "mean": float(m["fm"][l])}}
                    break
        if detail is None and all(n > 0 for n in m["N"]) and not close(snap["price"], m["price"], scale=16 * nl):
            detail = {"what": "price", "impl": snap["price"], "model": float(m["price"])}
    if detail:
        detail["name"] = f"Drivers/C05 price trace vs Engine.price ({where})"
        ctx.fail("corr", "c05.model", desc, detail, cls=cls)
        return False
    return True


# ------------------------------------------------------------------------------------------------ reported statistics
# S (independent of M): every statistic the results object REPORTS, at every point where it is read, is the textbook statistic
# of the rows the engine stored (which `oracle_rows` / `oracle_cv` tie to the harness's own log of simulated samples)
STAT_NAMES = ("Nl", "ml", "vl", "mean_level", "var_level", "kurtosis", "cl", "cost", "price")


def read_stats(statistics):
    """ONE reading of every reported statistic of a (live or kept) MLMCStatistics object; nothing is cached by the harness"""
    res = statistics.mlmc_results
    return dict(Nl=[int(x) for x in res.Nl], ml=[float(x) for x in res.ml], vl=[float(x) for x in res.vl],
                cl=[float(x) for x in res.cl], mean_level=[float(x) for x in res.mean_level_l],
                var_level=[float(x) for x in res.var_level_l], kurtosis=[float(x) for x in res.kurtosis],
                cost=float(res.cost), price=float(np.ravel(statistics.price())[0]))


def reported_rows(statistics):
    """the (fine, coarse) columns the results are reported from: the adjusted arrays when control variates are configured, the raw
    arrays otherwise (MLMCStatistics.simulation_payoff_with_*_process, public)"""
    n = len(statistics.mc_statistics)
    return [(np.array(statistics.simulation_payoff_with_fine_process(level=l), dtype=float).copy(),
             np.array(statistics.simulation_payoff_with_coarse_process(level=l), dtype=float).copy()) for l in range(n)]


def _ints(xs):
    """exact: floats -> (integers, D) with x = i / D"""
    pairs = [float(x).as_integer_ratio() for x in xs]
    D = max([d for _, d in pairs] + [1])
    return [p * (D // d) for p, d in pairs], D


def textbook_level(f, c):
    """exact rational textbook statistics of one level from its stored (fine, coarse) columns: mean / variance (1/n) / fourth central
    moment of the corrections fine - coarse, mean / variance of the fine column"""
    n = len(f)
    fi, Df = _ints(f)
    ci, Dc = _ints(c)
    D = max(Df, Dc)
    fi = [x * (D // Df) for x in fi]
    di = [a - b * (D // Dc) for a, b in zip(fi, ci)]
    s1, s2 = sum(di), sum(x * x for x in di)
    s3, s4 = sum(x * x * x for x in di), sum(x * x * x * x for x in di)
    m1 = F(s1, n * D)
    var = F(s2, n * D * D) - m1 * m1
    mu4 = F(s4, n * D ** 4) - 4 * m1 * F(s3, n * D ** 3) + 6 * m1 * m1 * F(s2, n * D * D) - 3 * m1 ** 4
    fm = F(sum(fi), n * D)
    fvar = F(sum(x * x for x in fi), n * D * D) - fm * fm
    sc = max(float(np.max(np.abs(f))), float(np.max(np.abs(c))), 1e-300)
    return dict(dp=m1, ml=abs(m1), vl=var, mu4=mu4, kurtosis=mu4 / max(F(1), var) ** 2, mean_level=fm, var_level=fvar, sc=sc,
                sd=max(float(np.max(np.abs(np.asarray(f) - np.asarray(c)))), 1e-300))


def oracle_stats(ctx, desc, reading, rows, nsim, cls, where, cache=None, cost_per_sample=lambda l: float(2 ** l)):
    """`reading`: one `read_stats`; `rows`: the stored columns it must be the statistics of; `nsim[l]`: number of samples the
    harness's own log says were simulated at level l.  Tolerance: 2^-40 relative to the level's magnitude (max |fine|, |coarse|; its
    square for variances; fourth power for the kurtosis), N_l exact."""
    nl = len(rows)

    def bad(stat, level, got, exp, what=None):
        ctx.fail("oracle", "c05.stats_from_samples", dict(desc, read=where),
                 {"what": what or f"reported {stat} of level {level} is not the {stat} of the samples stored for that level",
                  "statistic": stat, "level": level, "reported": got, "expected": exp, "read": where,
                  "Nl_reported": reading["Nl"], "samples_simulated": list(nsim)}, cls=cls)
        return False

    for k in ("Nl", "ml", "vl", "mean_level", "var_level", "kurtosis", "cl"):
        if len(reading[k]) != nl:
            return bad(k, None, len(reading[k]), nl, what=f"reported {k} has {len(reading[k])} entries for {nl} levels")
    if reading["Nl"] != [int(x) for x in nsim[:nl]]:
        return bad("Nl", None, reading["Nl"], list(nsim[:nl]), what="reported N_l are not the numbers of samples simulated per level")
    price, price_sc, complete = F(0), 0.0, True
    for l, (f, c) in enumerate(rows):
        n = int(nsim[l])
        if len(f) != n or len(c) != n:
            return bad("rows", l, len(f), n, what=f"level {l} stores {len(f)} rows for {n} simulated samples")
        if n == 0:
            complete = False
            ctx.branches["c05.stats:level_without_samples_skipped"] += 1
            continue
        key = (l, f.tobytes(), c.tobytes())
        tb = cache.get(key) if cache is not None else None
        if tb is None:
            tb = textbook_level(f, c)
            if cache is not None:
                cache[key] = tb
        sc = tb["sc"]
        for stat, scale in (("ml", sc), ("vl", sc * sc), ("mean_level", sc), ("var_level", sc * sc),
                            ("kurtosis", max(sc, tb["sd"]) ** 4)):
            if not close(reading[stat][l], tb[stat], scale=scale):
                return bad(stat, l, reading[stat][l], float(tb[stat]))
        if not close(reading["cl"][l], F(cost_per_sample(l))):
            return bad("cl", l, reading["cl"][l], cost_per_sample(l), what=f"reported cost per sample of level {l} is not cost / N_l")
        price += tb["dp"]
        price_sc += sc
    total = sum(F(cost_per_sample(l)) * int(nsim[l]) for l in range(nl))
    if not close(reading["cost"], total):
        return bad("cost", None, reading["cost"], float(total), what="reported total cost is not the sum over levels of N_l x cost per sample")
    if complete and not close(reading["price"], price, scale=price_sc):
        return bad("price", None, reading["price"], float(price), what="price() is not the sum over levels of the mean stored correction")
    ctx.branches["c05.stats:readings_judged"] += 1
    return True


def with_stats(base):
    """snapshot function = `base` (which reads the results once) + the columns the results are reported from + the results READ
    AGAIN, twice"""
    def fn(engine):
        s = base(engine)
        st = engine.statistics
        s["rep_rows"] = reported_rows(st)
        s["stats"] = [read_stats(st), read_stats(st)]
        return s
    return fn


SNAP = with_stats(fe.snapshot)
SNAP_CV = with_stats(fe.snapshot_cv)


def _nsim(log_upto, nl):
    cnt = {}
    for kind, l, _ in log_upto:
        if kind == "sim":
            cnt[l] = cnt.get(l, 0) + 1
    return [cnt.get(l, 0) for l in range(nl)]


def judge_stats(ctx, desc, snap, log_upto, cls, where, cache=None):
    """the first reading of the results (taken by the base snapshot) and the later readings of the same object, each against the
    textbook statistics of the stored columns; the public sample accessors return the stored arrays"""
    cv = "adj" in snap
    stored = snap["adj"] if cv else snap["rows"]
    rep = snap["rep_rows"]
    if len(rep) != len(stored) or any(not (np.array_equal(f, a[:, 0, 0]) and np.array_equal(c, a[:, 0, 1])) for (f, c), a in zip(rep, stored)):
        ctx.fail("oracle", "c05.stats_from_samples", dict(desc, read=where),
                 {"what": "simulation_payoff_with_fine_process / _coarse_process do not return the stored sample arrays"}, cls=cls)
        return False
    first = {k: snap[k] for k in ("Nl", "ml", "vl", "cl", "mean_level", "var_level", "kurtosis", "cost")}
    first["price"] = snap["price_cv"] if cv else snap["price"]
    nsim = _nsim(log_upto, len(rep))
    for j, reading in enumerate([first] + list(snap["stats"])):
        if not oracle_stats(ctx, desc, reading, rep, nsim, cls, f"{where}, reading {j + 1}", cache=cache):
            return False
    return True


RATES = [(1.0, 2.0, 1.0), (2.0, 1.0, 1.0), (1.0, 1.0, 2.0), (3.0, 2.0, 0.0), (2.0, 3.0, 1.0)]


def group_calls(calls):
    """calls recorded by fe.run_mlmc_hooked -> one dict per loop iteration: vl, cl (first compute_mc_paths), ml (criteria, if
    reached), vl2, cl2 (second compute_mc_paths, if a level was appended)"""
    its = []
    for c in calls:
        if c[0] == "mc_paths":
            its.append({"vl": c[1], "cl": c[2]})
        elif c[0] == "criteria":
            its[-1]["ml"] = c[2]
        else:
            its[-1]["vl2"], its[-1]["cl2"] = c[1], c[2]
    return its


def parse_feeds(tok5):
    return dict(ml=rdl(tok5[0]), vl=rdl(tok5[1]), cl=rdl(tok5[2]), vl2=rdl(tok5[3]), cl2=rdl(tok5[4]))


def _workaround(xs, q):
    xs = list(xs)
    for l in range(3, len(xs)):
        xs[l] = max(xs[l], 0.5 * xs[l - 1] / q)
    return xs


def oracle_feeds(ctx, desc, r, rates, cls, fine=None, coarse=None):
    """S (independent of M): what the criteria callbacks received at every iteration is computed from exactly the samples
    simulated so far (taken from the process's own log), and cl from the accumulated cost"""
    fine = fine or fe.fine_value
    coarse = coarse or fe.coarse_value
    qa, qb, qg = (2.0 ** x for x in rates)
    its = group_calls(r["calls"])
    if len(its) != len(r["reads"]):
        ctx.fail("oracle", "c05.feeds_from_samples", desc, {"what": "callback protocol", "iterations": len(its), "reads": len(r["reads"])}, cls=cls)
        return False
    for i, (it, snap) in enumerate(zip(its, r["reads"])):
        sims = {}
        for kind, l, k in r["log"][:snap["loglen"]]:
            if kind == "sim":
                sims.setdefault(l, []).append(k)
        nl = len(it["vl"])
        if any(len(sims.get(l, [])) == 0 for l in range(nl)):
            ctx.branches["c05.feeds:level_without_samples_skipped"] += 1
            continue
        ml, vl, cl, sc = [], [], [], 0.0
        for l in range(nl):
            ks = sims[l]
            dp = np.array([fe.DF * fine(l, k) - (0.0 if l == 0 else fe.DF * coarse(l, k)) for k in ks])
            sc = max(sc, float(np.max(np.abs(dp))))
            ml.append(abs(float(np.mean(dp))))
            vl.append(max(0.0, float(np.mean(dp * dp)) - float(np.mean(dp)) ** 2))
            cl.append(float(2 ** l))
        ml, vl = _workaround(ml, qa), _workaround(vl, qb)
        bad = None
        if not np.allclose(it["vl"], vl, rtol=0, atol=1e-9 * sc * sc) or not np.allclose(it["cl"], cl, rtol=1e-12, atol=0):
            bad = {"what": "vl / cl handed to compute_mc_paths are not those of the samples simulated so far", "got": [it["vl"], it["cl"]], "expected": [vl, cl]}
        elif "ml" in it and not np.allclose(it["ml"], ml, rtol=0, atol=1e-9 * sc):
            bad = {"what": "ml handed to the bias test is not that of the samples simulated so far", "got": it["ml"], "expected": ml}
        elif "vl2" in it and (not np.allclose(it["vl2"], vl + [vl[-1] / qb], rtol=0, atol=1e-9 * sc * sc)
                              or not np.allclose(it["cl2"], cl + [cl[-1] * qg], rtol=1e-12, atol=0)):
            bad = {"what": "extrapolated vl / cl of the second compute_mc_paths call", "got": [it["vl2"], it["cl2"]]}
        if bad:
            bad["iteration"] = i
            ctx.fail("oracle", "c05.feeds_from_samples", desc, bad, cls=cls)
            return False
    return True


def compare_feeds(ctx, desc, r, feeds_m, cls, scale, name):
    """C: Mlmc.mlFed / vlFed / clFed (+ the extrapolated second call) vs the arguments the real callbacks received"""
    its = group_calls(r["calls"])
    if len(its) != len(feeds_m):
        ctx.fail("corr", name, desc, {"name": "Drivers/C05 feeds vs callback arguments (number of iterations)", "impl": len(its), "model": len(feeds_m)}, cls=cls)
        return False
    for i, (it, m, snap) in enumerate(zip(its, feeds_m, r["reads"])):
        if any(n == 0 for n in snap["Nl"]):
            continue
        def same(a, b, sc):
            return len(a) == len(b) and all(close(x, y, scale=sc) for x, y in zip(a, b))
        ok = same(it["vl"], m["vl"], scale * scale) and same(it["cl"], m["cl"], None)
        ok = ok and ("ml" not in it or same(it["ml"], m["ml"], scale))
        ok = ok and ("vl2" not in it or (same(it["vl2"], m["vl2"], scale * scale) and same(it["cl2"], m["cl2"], None)))
        if not ok:
            ctx.fail("corr", name, desc, {"name": "Drivers/C05 feeds vs the arguments received by compute_mc_paths / criteria", "iteration": i,
                                          "impl": it, "model": {k: [float(x) for x in v] for k, v in m.items()}}, cls=cls)
            return False
        ctx.branches["c05.feeds:iterations_compared"] += 1
        if "ml" in it:
            ctx.branches["c05.feeds:criteria_calls_compared"] += 1
        if "vl2" in it:
            ctx.branches["c05.feeds:second_calls_compared"] += 1
        if len(it["vl"]) >= 4:
            ctx.branches["c05.feeds:workaround_levels_ge3"] += 1
    return True


def one_history(ctx, L0, N0, level_max, hist, tag, rates=(1.0, 2.0, 1.0), engine=None, prefix=None):
    """`engine`: an existing Engine object that has already priced the runs of `prefix` (engine reuse); the run is judged exactly
    like a fresh one.  Returns the run record (or None)."""
    desc = dict(L0=L0, N0=N0, level_max=level_max, history=[[list(a), bool(b), list(c)] for a, b, c in hist])
    if tuple(rates) != (1.0, 2.0, 1.0):
        desc["rates"] = list(rates)
    cls = dict(kind=tag)
    if engine is not None:
        desc["reuse_prefix"] = prefix or []
        cls["engine_reused"] = True
    with warnings.catch_warnings():
        warnings.simplefilter("ignore")
        with np.errstate(all="ignore"):
            try:
                r = fe.run_mlmc_hooked(hist, L0, N0, level_max, rates=rates, engine=engine, snap_fn=SNAP)
            except Exception as e:  # the engine crashed on this history
                ctx.fail("oracle", "c05.engine_raises", desc, {"what": f"{type(e).__name__}: {e}"}, cls=cls)
                return None
    out = ctx.lean(f"price {L0} {N0} {level_max} 0 {enc_history(hist)}")
    blocks = out.split(" # ")
    reads_m = [parse_read(b) for b in blocks[:-1]]
    end = blocks[-1].split(" ")
    nontrivial = len(r["reads"]) >= 2 or any(k == "next_level" and l > L0 for k, l, _ in r["log"])
    ctx.count("c05.history", desc, nontrivial=nontrivial, branch=tag)
    _judge_history(ctx, desc, cls, r, reads_m, end, hist, L0, N0, level_max, rates)
    return r


def _judge_history(ctx, desc, cls, r, reads_m, end, hist, L0, N0, level_max, rates):
    # S: at every read point the arrays are exactly the simulated samples so far
    cache = {}
    for i, snap in enumerate(r["reads"]):
        if not oracle_rows(ctx, "c05.rows_are_samples", dict(desc, read=i), snap, r["log"][:snap["loglen"]], cls):
            return
        if not judge_stats(ctx, desc, snap, r["log"][:snap["loglen"]], cls, f"iteration {i}", cache):
            return
    if r["final"] is not None:
        if not oracle_rows(ctx, "c05.rows_are_samples", dict(desc, read="final"), r["final"], r["log"], cls):
            return
        if not judge_stats(ctx, desc, r["final"], r["log"], cls, "returned object", cache):
            return
    # S: along the run nothing is ever discarded: levels and N_l never decrease and the rows present at one read point are
    # still there, in place, at the next one (theorems run_mono / run_keeps_samples)
    seq = r["reads"] + ([r["final"]] if r["final"] is not None else [])
    for i, (a, b) in enumerate(zip(seq, seq[1:])):
        bad = None
        if len(b["Nl"]) < len(a["Nl"]) or any(nb < na for na, nb in zip(a["Nl"], b["Nl"])):
            bad = "the number of levels or some N_l decreased"
        elif any(not np.array_equal(ra, rb[:ra.shape[0]]) for ra, rb in zip(a["rows"], b["rows"])):
            bad = "rows present at one read point were dropped, moved or overwritten before the next one"
        if bad:
            ctx.fail("oracle", "c05.samples_kept", dict(desc, read=i), {"what": bad, "Nl_before": a["Nl"], "Nl_after": b["Nl"]}, cls=cls)
            return
    # C: same trace from the model
    if end[0] != r["outcome"] or len(reads_m) != len(r["reads"]):
        ctx.fail("corr", "c05.model", desc, {"name": "Drivers/C05 price trace vs Engine.price (outcome)", "impl": [r["outcome"], len(r["reads"])],
                                             "model": [end[0], len(reads_m)]}, cls=cls)
        return
    for i, (snap, m) in enumerate(zip(r["reads"], reads_m)):
        if not compare_read(ctx, desc, snap, m, cls, f"read {i}"):
            return
    if r["final"] is not None:
        if [int(x) for x in rdl(end[2])] != r["final"]["Nl"] or [int(x) for x in rdl(end[4])] != [len(a) for a in r["final"]["rows"]]:
            ctx.fail("corr", "c05.model", desc, {"name": "Drivers/C05 final state vs Engine.price", "impl": r["final"]["Nl"], "model": end}, cls=cls)
            return
    # every iteration: what the criteria callbacks received (S: from the simulated samples; C: Mlmc.mlFed/vlFed/clFed)
    if not oracle_feeds(ctx, desc, r, rates, cls):
        return
    q = [w(2.0 ** x) for x in rates]
    fb = ctx.lean(f"feeds {L0} {N0} {level_max} {q[0]} {q[1]} {q[2]} {enc_history(hist)}").split(" # ")[1:]
    compare_feeds(ctx, desc, r, [parse_feeds(b.split(" ")[1:6]) for b in fb], cls, 16.0 * (level_max + 1), "c05.feeds.model")


def _ctl_enc(specs):
    return ";".join(f"{k}:{w(a)}:{w(n)}:{w(pr)}" for k, a, n, pr in specs)


def parse_read_cv(block, k):
    t = block.split(" ")
    assert t[0] == "V", block[:80]
    d = dict(L=int(t[1]), N=[int(x) for x in rdl(t[2])], err=[int(x) for x in rdl(t[3])], fine=rdll(t[4]), coarse=rdll(t[5]),
             adjf=rdll(t[6]), adjc=rdll(t[7]), price_cv=rd(t[8]), price=rd(t[9]), dp=rdl(t[10]), vl=rdl(t[11]), cl=rdl(t[12]),
             fm=rdl(t[13]), xf=[], xc=[])
    for j in range(k):
        d["xf"].append(rdll(t[14 + 2 * j]))
        d["xc"].append(rdll(t[15 + 2 * j]))
    assert t[14 + 2 * k] == "F", block[:80]
    d["feeds"] = parse_feeds(t[15 + 2 * k:20 + 2 * k])
    return d


def _b_ref(X, y):
    """regression coefficients of one column as the statement words them (sample regression coefficients; 0 when the guard of
    helper_compute_coefficients fires): X of shape (k, n)"""
    k = X.shape[0]
    cov = np.atleast_2d(np.cov(X, y, bias=True))
    sx, sxy = cov[:-1, :-1], cov[:-1, -1]
    if float(np.amin(np.abs(sx))) < 1e-12:
        return np.zeros(k)
    return np.linalg.pinv(sx, hermitian=True) @ sxy


def _col_info(X, y, pr):
    """(scale, cond, dont_care) of one column: cancellation-aware magnitude of Y - b (X - price) (rounding of cov / var is amplified by
    1/var, for two controls by cond(Sigma_X)); dont_care = an entry of Sigma_X within a factor 10 of the 1e-12 guard, or Sigma_X nearly but
    not exactly singular (the float pseudo-inverse cut-off decides)"""
    from fractions import Fraction as F
    k, n = X.shape
    if n == 0:
        return 1.0, 1.0, False
    sc = float(np.max(np.abs(y)))
    sx = np.atleast_2d(np.cov(X, bias=True))
    dont_care = bool(np.any((np.abs(sx) > 1e-13) & (np.abs(sx) < 1e-11)))
    cond = 1.0
    if float(np.amin(np.abs(sx))) >= 1e-12:
        dy = float(np.max(np.abs(y - np.mean(y))))
        for j in range(k):
            dx = float(np.max(np.abs(X[j] - np.mean(X[j]))))
            vx = float(np.var(X[j]))
            sc += n * (dx * dy / vx) * (1.0 + dx * dx / vx) * float(np.max(np.abs(X[j] - pr[j])))
        if k == 2:
            with np.errstate(all="ignore"):
                cond = float(np.linalg.cond(sx))
            Xq = [[F(float(v)) for v in X[j]] for j in range(2)]
            m = [sum(r) / n for r in Xq]
            cvq = lambda p_, q_: sum((a_ - m[p_]) * (b_ - m[q_]) for a_, b_ in zip(Xq[p_], Xq[q_]))
            exact_singular = cvq(0, 0) * cvq(1, 1) - cvq(0, 1) ** 2 == 0
            if exact_singular:
                ev = np.abs(np.linalg.eigvalsh(sx))
                dont_care = dont_care or float(ev.min()) > 1e-16 * float(ev.max())       # kept by the float cut-off (finding C07-pinv-cutoff) or too close to it
                cond = 1.0
            elif cond > 1e10:
                dont_care = True
            sc *= max(1.0, cond / 1e3)
    return sc + 1e-300, cond, dont_care


def _cv_columns(snap, l, k):
    """(y_fine, y_coarse, X_fine (k, n), X_coarse (k, n)) of level l as float arrays; the level-0 control array has no coarse part"""
    Y, X = snap["rows"][l], snap["xrows"][l]
    n = Y.shape[0]
    xf = np.array([X[:, j, 0] if X.ndim == 3 else X[:, j, 0, 0] for j in range(k)]).reshape(k, n)
    xc = np.array([np.zeros(n) if X.ndim == 3 else X[:, j, 0, 1] for j in range(k)]).reshape(k, n)
    return Y[:, 0, 0], Y[:, 0, 1], xf, xc


def oracle_cv(ctx, desc, snap, log_upto, specs, cls, fine=None, coarse=None):
    """S (independent of M) for the control-variate path at one read point"""
    fine = fine or fe.fine_value_v
    coarse = coarse or fe.coarse_value_v
    sims = {}
    for kind, l, k_ in log_upto:
        if kind == "sim":
            sims.setdefault(l, []).append(k_)
    k = len(specs)
    pr = np.array([float(sp[3]) for sp in specs])
    total, total_raw, centred, scale, dont_care = 0.0, 0.0, True, 0.0, False
    for l, Y in enumerate(snap["rows"]):
        ks = sims.get(l, [])
        n = Y.shape[0]
        A, X = snap["adj"][l], snap["xrows"][l]
        what = None
        if snap["Nl"][l] != len(ks) or n != len(ks):
            what = f"level {l}: N_l={snap['Nl'][l]}, {n} raw rows, {len(ks)} samples simulated"
        elif A.shape != Y.shape or X.shape[0] != n or X.shape[1] != k:
            what = f"level {l}: adjusted {A.shape} / control {X.shape} arrays do not have the rows of the raw array {Y.shape}"
        if what:
            ctx.fail("oracle", "c05.cv_rows", desc, {"what": what}, cls=cls)
            return False
        yf, yc, xf, xc = _cv_columns(snap, l, k)
        exp_yf = [fe.DF * fine(l, i) for i in ks]
        exp_yc = [0.0 if l == 0 else fe.DF * coarse(l, i) for i in ks]
        if yf.tolist() != exp_yf or yc.tolist() != exp_yc:
            ctx.fail("oracle", "c05.rows_are_samples", desc, {"what": f"raw rows of level {l} are not the simulated samples in order"}, cls=cls)
            return False
        for j, (kind, par, notional, _) in enumerate(specs):
            exp_xf = [fe.DF * notional * fe.control_value(kind, par, fine(l, i)) for i in ks]
            exp_xc = [0.0 if l == 0 else fe.DF * notional * fe.control_value(kind, par, coarse(l, i)) for i in ks]
            if xf[j].tolist() != exp_xf or xc[j].tolist() != exp_xc:
                ctx.fail("oracle", "c05.cv_rows", desc, {"what": f"control rows of level {l} (control {j}) are not the controls of the simulated samples in order",
                                                        "got": xf[j][:6].tolist(), "expected": exp_xf[:6]}, cls=cls)
                return False
        if n == 0:
            continue
        for col, (y, x) in enumerate(((yf, xf), (yc, xc))):
            sc, _, dc = _col_info(x, y, pr)
            scale += sc
            dont_care = dont_care or dc
            if dc:
                continue
            with np.errstate(all="ignore"):
                b = _b_ref(x, y)
            exp = y - (x.T - pr) @ b
            if float(np.max(np.abs(A[:, 0, col] - exp))) > 1e-9 * sc:
                ctx.fail("oracle", "c05.cv_rows", desc, {"what": "adjusted rows are not Y - b*(X - price_X) over the simulated samples with the level's / column's "
                                                                  "own sample regression coefficients", "level": l, "column": col,
                                                        "adjusted": A[:4, 0, col].tolist(), "expected": exp[:4].tolist()}, cls=cls)
                return False
            if col == 0 or l > 0:
                centred = centred and all(abs(float(np.mean(x[j])) - pr[j]) <= 1e-15 * max(1.0, abs(pr[j])) for j in range(k))
        total += float(np.mean(A[:, 0, 0])) - float(np.mean(A[:, 0, 1]))
        total_raw += float(np.mean(yf)) - float(np.mean(yc))
    if dont_care:
        ctx.excluded_small_margin += 1
    if all(Y.shape[0] > 0 for Y in snap["rows"]):
        if abs(snap["price_cv"] - total) > 1e-9 * scale:
            ctx.fail("oracle", "c05.cv_price", desc, {"what": "price with control variates is not the sum of the per-level adjusted means",
                                                     "price": snap["price_cv"], "expected": total}, cls=cls)
            return False
        if centred and not dont_care and abs(snap["price_cv"] - total_raw) > 1e-9 * scale:
            ctx.fail("oracle", "c05.cv_mean_identity", desc, {"what": "controls' sample means equal their prices on every level but the adjusted price "
                                                                      "differs from the raw one", "adjusted": snap["price_cv"], "raw": total_raw}, cls=cls)
            return False
        if centred:
            ctx.branches["c05.cv:identity_premise_holds"] += 1
    return True


def compare_read_cv(ctx, desc, snap, m, specs, cls, where):
    """C: model read point (Model/MlmcCv.lean) vs implementation snapshot"""
    nl = len(snap["rows"])
    k = len(specs)
    detail = None
    pr = np.array([float(sp[3]) for sp in specs])
    if m["L"] + 1 != nl or m["N"] != snap["Nl"] or any(m["err"]):
        detail = {"what": "levels / N_l / shape error flag", "impl": snap["Nl"], "model": [m["N"], m["err"]]}
    scales, dont_care = [], False
    for l in range(nl if detail is None else 0):
        yf, yc, xf, xc = _cv_columns(snap, l, k)
        A = snap["adj"][l]
        if [fr(v) for v in yf] != m["fine"][l] or [fr(v) for v in yc] != m["coarse"][l]:
            detail = {"what": "raw rows differ", "level": l}
        elif any([fr(v) for v in xf[j]] != m["xf"][j][l] or [fr(v) for v in xc[j]] != m["xc"][j][l] for j in range(k)):
            detail = {"what": "control rows differ", "level": l, "impl": xf[:, :6].tolist(), "model": [[float(v) for v in m["xf"][j][l][:6]] for j in range(k)]}
        elif A.shape[0] != len(m["adjf"][l]):
            detail = {"what": "adjusted array: number of rows", "level": l, "impl": A.shape[0], "model": len(m["adjf"][l])}
        if detail:
            break
        (sf, _, d1), (sc_, _, d2) = _col_info(xf, yf, pr), _col_info(xc, yc, pr)
        scales.append(sf + sc_)
        if d1 or d2:
            dont_care = True
            continue
        if not (all(close(a, b, scale=sf) for a, b in zip(A[:, 0, 0], m["adjf"][l])) and
                all(close(a, b, scale=sc_) for a, b in zip(A[:, 0, 1], m["adjc"][l]))):
            detail = {"what": "adjusted rows differ", "level": l, "impl": A[:4, 0, :].tolist(),
                      "model": [[float(a), float(b)] for a, b in zip(m["adjf"][l][:4], m["adjc"][l][:4])]}
            break
        if m["N"][l] > 0:
            s_ = sf + sc_
            if not (close(snap["ml"][l], abs(m["dp"][l]), scale=s_) and close(snap["vl"][l], m["vl"][l], scale=s_ * s_)
                    and close(snap["cl"][l], m["cl"][l]) and close(snap["mean_level"][l], m["fm"][l], scale=s_)):
                detail = {"what": "level statistics read from the adjusted arrays differ", "level": l,
                          "impl": {k_: snap[k_][l] for k_ in ("ml", "vl", "cl", "mean_level")},
                          "model": {"ml": float(abs(m["dp"][l])), "vl": float(m["vl"][l]), "cl": float(m["cl"][l]), "mean": float(m["fm"][l])}}
                break
    if detail is None and not dont_care and all(n > 0 for n in m["N"]):
        if not close(snap["price_cv"], m["price_cv"], scale=sum(scales)) or not close(snap["price"], m["price"], scale=16 * nl):
            detail = {"what": "price", "impl": [snap["price_cv"], snap["price"]], "model": [float(m["price_cv"]), float(m["price"])]}
    if detail:
        detail["name"] = f"Drivers/C05 pricecv trace vs Engine.price with control variates ({where})"
        ctx.fail("corr", "c05.cv.model", desc, detail, cls=cls)
        return None
    return "dont_care" if dont_care else "ok"


def cv_trace(ctx, L0, N0, level_max, hist, specs, tag="cv", rates=(1.0, 2.0, 1.0)):
    """control variates: at EVERY read point the control and adjusted arrays have exactly the rows of the raw arrays and hold
    Y - b*(X - price_X) with the level's/column's sample regression coefficient (S), and agree with Model/MlmcCv.lean (C)"""
    desc = dict(L0=L0, N0=N0, level_max=level_max, control_variates=[list(x) for x in specs],
                history=[[list(a), bool(b), list(c)] for a, b, c in hist])
    if tuple(rates) != (1.0, 2.0, 1.0):
        desc["rates"] = list(rates)
    cls = dict(kind="control_variates", ncontrols=len(specs))
    with warnings.catch_warnings():
        warnings.simplefilter("ignore")
        with np.errstate(all="ignore"):
            try:
                r = fe.run_mlmc_hooked(hist, L0, N0, level_max, coupling=fe.FakeCouplingV(), control_variates=fe.make_controls(specs),
                                       snap_fn=SNAP_CV, rates=rates)
            except Exception as e:
                ctx.fail("oracle", "c05.engine_raises", desc, {"what": f"{type(e).__name__}: {e}"}, cls=cls)
                return
    ctx.count("c05.cv_history", desc, nontrivial=len(r["reads"]) >= 1, branch=f"{tag}:k{len(specs)}")
    cache = {}
    for i, snap in enumerate(r["reads"]):
        if not oracle_cv(ctx, dict(desc, read=i), snap, r["log"][:snap["loglen"]], specs, cls):
            return
        if not judge_stats(ctx, desc, snap, r["log"][:snap["loglen"]], cls, f"iteration {i}", cache):
            return
    if r["final"] is not None:
        if not oracle_cv(ctx, dict(desc, read="final"), r["final"], r["log"], specs, cls):
            return
        if not judge_stats(ctx, desc, r["final"], r["log"], cls, "returned object", cache):
            return
    q = [w(2.0 ** x) for x in rates]
    out = ctx.lean(f"pricecv {L0} {N0} {level_max} {enc_history(hist)} {_ctl_enc(specs)} {q[0]} {q[1]} {q[2]}")
    blocks = out.split(" # ")
    end = blocks[-1].split(" ")
    reads_m = [parse_read_cv(b, len(specs)) for b in blocks[:-1]]
    final_m = reads_m.pop() if end[0] == "ret" and reads_m else None
    if end[0] != r["outcome"] or len(reads_m) != len(r["reads"]):
        ctx.fail("corr", "c05.cv.model", desc, {"name": "Drivers/C05 pricecv trace vs Engine.price (outcome)", "impl": [r["outcome"], len(r["reads"])],
                                                "model": [end[0], len(reads_m)]}, cls=cls)
        return
    verdicts = []
    for i, (snap, m) in enumerate(zip(r["reads"], reads_m)):
        verdicts.append(compare_read_cv(ctx, desc, snap, m, specs, cls, f"read {i}"))
        if verdicts[-1] is None:
            return
    if r["final"] is not None and final_m is not None:
        if compare_read_cv(ctx, desc, r["final"], final_m, specs, cls, "final") is None:
            return
    if "dont_care" in verdicts:
        return
    # every iteration: the callbacks received ml, vl, cl read from the ADJUSTED arrays
    pr = np.array([float(sp[3]) for sp in specs])
    sc = 1.0
    for sn in r["reads"]:
        for l in range(len(sn["rows"])):
            if sn["rows"][l].shape[0] > 0:
                yf, yc, xf, xc = _cv_columns(sn, l, len(specs))
                sc = max(sc, _col_info(xf, yf, pr)[0] + _col_info(xc, yc, pr)[0])
    compare_feeds(ctx, desc, r, [m["feeds"] for m in reads_m], cls, sc, "c05.cv.feeds.model")


def gen_controls(rng):
    out = []
    for _ in range(rng.choice([1, 1, 2])):
        kind = rng.choice(["sq", "sq", "call", "call", "fwd"])
        par = {"sq": 0.0, "call": rng.choice([0.5, 1.0, 2.0]), "fwd": rng.choice([1.5, 10.0])}[kind]
        out.append((kind, par, rng.choice([1.0, 2.0, 0.5]), rng.choice([0.0, 0.5, 3.25, -1.0, 7.0])))
    return out


# ------------------------------------------------------------------------------------------------ fast-decay regime
# A third scripted process whose corrections decay by prescribed powers of two per level (so that they can decay much faster than
# the CONFIGURED rates alpha / beta, be exactly zero on chosen levels, be negative), small values (so that the 2^-40 rule relative to
# max |fine| resolves corrections of size 2^-25), and complete plans: adaptive run reaching L >= 3 -> returned object read, read again,
# read after pricing on other engine objects, read after a second pricing on the SAME engine.
def _t(k):
    return ((37 * k + 11) % 64) / 16.0              # [0, 4), non-monotone in k


def _u(k):
    return (((29 * k + 5) % 32) - 16) / 16.0        # [-1, 1), non-monotone in k


def d_values(ps):
    """(fine, coarse) value functions of the process `ps` = {a0, r, q, zero: [levels], neg: [levels]}: level 0 fine = a0 t(k)/4;
    level l >= 1: coarse = c(k) in [0, 2), fine = coarse +- (2^(2 - r l) + 2^(-q l) u(k)), or fine = coarse on the `zero` levels"""
    zero, neg, a0, r_, q_ = set(ps["zero"]), set(ps["neg"]), float(ps["a0"]), int(ps["r"]), int(ps["q"])

    def coarse(l, k):
        return ((29 * k + 5) % 64) / 32.0

    def fine(l, k):
        if l == 0:
            return a0 * _t(k) / 4.0
        c = coarse(l, k)
        if l in zero:
            return c
        d = 2.0 ** (2 - r_ * l) + 2.0 ** (-q_ * l) * _u(k)
        return c - d if l in neg else c + d

    return fine, coarse


class FakeCouplingD(fe.FakeCoupling):
    """fe.FakeCoupling with the values `d_values(ps)`; `ps` is a public attribute (re-assigned between two pricings of one engine)"""

    def __init__(self, ps, log=None):
        super().__init__(log)
        self.ps = ps

    def __deepcopy__(self, memo):
        c = FakeCouplingD(self.ps, self.log)
        c.level, c.count = self.level, self.count
        return c

    def _next(self):
        k = self.count
        self.count += 1
        self.log.append(("sim", self.level, k))
        return k

    def simulate_one_path(self):
        k = self._next()
        fine, _ = d_values(self.ps)
        return fe.StochasticJumpPath(np.array([0.0, fe.T]), np.array([0.0, fine(self.level, k)]), np.zeros(2))

    def simulate_one_path_with_coupling(self):
        k = self._next()
        fine, coarse = d_values(self.ps)
        diff = np.array([[0.0, fine(self.level, k)], [0.0, coarse(self.level, k)]])
        return fe.StochasticJumpPath(np.array([0.0, fe.T]), diff, np.zeros((2, 2)))


def run_plan(run, ps, specs, engine=None):
    """`fe.run_mlmc_hooked` for the process `ps` (fresh engine, or an existing `engine` re-configured through its public configuration
    attributes) that additionally reads the results inside EVERY callback of an iteration (first compute_mc_paths: full snapshot;
    criteria and second compute_mc_paths: the reported statistics and the columns they are reported from)"""
    from rpylib.montecarlo.configuration import ConfigurationMultiLevel, ConvergenceRates
    from rpylib.montecarlo.multilevel.criteria import ConvergenceCriteria
    from rpylib.montecarlo.multilevel.engine import Engine as MLMCEngine
    from rpylib.product.product import NoControlVariates
    history, rates = [tuple(h) for h in run["history"]], run["rates"]
    snap_fn = SNAP_CV if specs else SNAP
    reads, calls = [], []
    st = {"i": 0, "state": "idle"}
    holder = {}

    def fit(ns, n):
        ns = list(ns) + [0] * max(0, n - len(ns))
        return np.array(ns[:n], dtype=int)

    def light(at):
        s = holder["engine"].statistics
        reads[-1].setdefault("later", []).append(dict(at=at, rep_rows=reported_rows(s), stats=[read_stats(s)], loglen=len(holder["log"])))

    def compute_mc_paths(rmse, vl, cl):
        if st["state"] == "crit_done":
            calls.append(("mc_paths2", [float(x) for x in vl], [float(x) for x in cl]))
            light("second compute_mc_paths")
            ns = history[st["i"]][2]
            st["i"] += 1
            st["state"] = "idle"
            return fit(ns, len(vl))
        if st["state"] == "first_done":
            st["i"] += 1
        if st["i"] >= len(history):
            raise fe.Exhausted()
        calls.append(("mc_paths", [float(x) for x in vl], [float(x) for x in cl]))
        snap = snap_fn(holder["engine"])
        snap["loglen"] = len(holder["log"])
        reads.append(snap)
        st["state"] = "first_done"
        return fit(history[st["i"]][0], len(vl))

    def criteria(alpha, ml, rmse):
        calls.append(("criteria", float(alpha), [float(x) for x in ml]))
        light("criteria")
        st["state"] = "crit_done"
        return bool(history[st["i"]][1])

    cr = ConvergenceRates(alpha=rates[0], beta=rates[1], gamma=rates[2])
    cc = ConvergenceCriteria(criteria=criteria, compute_mc_paths=compute_mc_paths)
    controls = fe.make_controls(specs) if specs else None
    if engine is not None:
        eng, cfg = engine, engine.configuration
        log = eng.coupling_process.log
        del log[:]
        eng.coupling_process.ps = ps
        cfg.convergence_rates, cfg.convergence_criteria = cr, cc
        cfg.initial_level, cfg.maximum_level, cfg.initial_mc_paths = run["L0"], run["level_max"], run["N0"]
        cfg.control_variates = controls or NoControlVariates()
    else:
        log = []
        cfg = ConfigurationMultiLevel(convergence_rates=cr, convergence_criteria=cc, initial_level=run["L0"], maximum_level=run["level_max"],
                                      initial_mc_paths=run["N0"], seed=None, nb_of_processes=1, control_variates=controls)
        eng = MLMCEngine(configuration=cfg, coupling_process=FakeCouplingD(ps, log))
    holder["engine"], holder["log"] = eng, log
    outcome = "ret"
    try:
        eng.price(fe.identity_product(), rmse=0.01)
    except fe.Exhausted:
        outcome = "cont"
    final = snap_fn(eng) if outcome == "ret" else None
    return dict(outcome=outcome, reads=reads, final=final, log=log, engine=eng, calls=calls)


def _tb(cache, l, f, c):
    key = (l, f.tobytes(), c.tobytes())
    if key not in cache:
        cache[key] = textbook_level(f, c)
    return cache[key]


def oracle_feeds_rows(ctx, desc, r, rates, cls, cache):
    """S (independent of M), with and without control variates: what the callbacks received at every iteration are the statistics of
    the columns stored at that moment (after the engine's declared floor for levels >= 3), cl = cost per sample, and the second
    compute_mc_paths call gets them extended by the declared rates"""
    qa, qb, qg = (2.0 ** x for x in rates)
    its = group_calls(r["calls"])
    if len(its) != len(r["reads"]):
        ctx.fail("oracle", "c05.feeds_from_samples", desc, {"what": "callback protocol", "iterations": len(its), "reads": len(r["reads"])}, cls=cls)
        return False
    for i, (it, snap) in enumerate(zip(its, r["reads"])):
        rows = snap["rep_rows"]
        if len(rows) != len(it["vl"]) or any(len(f) == 0 for f, _ in rows):
            ctx.branches["c05.feeds:level_without_samples_skipped"] += 1
            continue
        tbs = [_tb(cache, l, f, c) for l, (f, c) in enumerate(rows)]
        sc = max(t["sc"] for t in tbs)
        ml = _workaround([float(t["ml"]) for t in tbs], qa)
        vl = _workaround([max(0.0, float(t["vl"])) for t in tbs], qb)
        cl = [float(2 ** l) for l in range(len(rows))]
        tol1, tol2 = sc * 2.0 ** -40, sc * sc * 2.0 ** -40
        bad = None
        if not np.allclose(it["vl"], vl, rtol=0, atol=tol2) or not np.allclose(it["cl"], cl, rtol=1e-12, atol=0):
            bad = {"what": "vl / cl handed to compute_mc_paths are not those of the samples stored so far", "got": [it["vl"], it["cl"]], "expected": [vl, cl]}
        elif "ml" in it and not np.allclose(it["ml"], ml, rtol=0, atol=tol1):
            bad = {"what": "ml handed to the bias test is not that of the samples stored so far", "got": it["ml"], "expected": ml}
        elif "vl2" in it and (not np.allclose(it["vl2"], vl + [vl[-1] / qb], rtol=0, atol=tol2)
                              or not np.allclose(it["cl2"], cl + [cl[-1] * qg], rtol=1e-12, atol=0)):
            bad = {"what": "extrapolated vl / cl of the second compute_mc_paths call", "got": [it["vl2"], it["cl2"]]}
        if bad:
            bad["iteration"] = i
            ctx.fail("oracle", "c05.feeds_from_samples", desc, bad, cls=cls)
            return False
    return True


def _judge_plan_run(ctx, desc, cls, r, specs, ps, rates, cache, label):
    """every read point of one run of a plan: rows = the logged samples (S), every reported statistic = textbook statistic of the
    stored columns at the first reading, at the repeated readings and inside the later callbacks of the same iteration"""
    fine, coarse = d_values(ps)

    def rows_ok(snap, log_upto, where):
        if specs:
            return oracle_cv(ctx, dict(desc, read=where), snap, log_upto, specs, cls, fine=fine, coarse=coarse)
        return oracle_rows(ctx, "c05.rows_are_samples", dict(desc, read=where), snap, log_upto, cls, fine=fine, coarse=coarse)

    for i, snap in enumerate(r["reads"]):
        where = f"{label}, iteration {i}"
        log_upto = r["log"][:snap["loglen"]]
        if not rows_ok(snap, log_upto, where) or not judge_stats(ctx, desc, snap, log_upto, cls, where, cache):
            return False
        for lt in snap.get("later", []):
            if lt["loglen"] != snap["loglen"] or len(lt["rep_rows"]) != len(snap["rep_rows"]) or any(
                    not (np.array_equal(a, c) and np.array_equal(b, d)) for (a, b), (c, d) in zip(lt["rep_rows"], snap["rep_rows"])):
                ctx.fail("oracle", "c05.samples_kept", dict(desc, read=where),
                         {"what": f"the stored samples changed between the callbacks of one iteration ({lt['at']}) although nothing was simulated"}, cls=cls)
                return False
            if not oracle_stats(ctx, desc, lt["stats"][0], lt["rep_rows"], _nsim(log_upto, len(lt["rep_rows"])), cls,
                                f"{where}, inside {lt['at']}", cache=cache):
                return False
    if r["final"] is not None:
        where = f"{label}, returned object"
        if not rows_ok(r["final"], r["log"], where) or not judge_stats(ctx, desc, r["final"], r["log"], cls, where, cache):
            return False
    return oracle_feeds_rows(ctx, desc, r, rates, cls, cache)


def _floor_bites(snap, rates, cache):
    """(ml, vl): does the engine's floor for levels >= 3 exceed the sample statistic of some level at this read point?"""
    rows = snap["rep_rows"]
    if len(rows) < 4 or any(len(f) == 0 for f, _ in rows):
        return False, False
    tbs = [_tb(cache, l, f, c) for l, (f, c) in enumerate(rows)]
    ml, vl = [float(t["ml"]) for t in tbs], [max(0.0, float(t["vl"])) for t in tbs]
    return _workaround(ml, 2.0 ** rates[0]) != ml, _workaround(vl, 2.0 ** rates[1]) != vl


def stats_case(ctx, plan):
    """one complete plan (JSON): {plan: "stats", process, control_variates, first: run, other: bool, second: {process, run} | None}
    with run = {L0, N0, level_max, rates, history}"""
    plan = {k: v for k, v in plan.items() if k != "read"}
    ps, first = plan["process"], plan["first"]
    specs = [tuple(x) for x in (plan.get("control_variates") or [])]
    cls = dict(kind="fast_decay", control_variates=bool(specs))
    cache = {}

    def guarded(fn, *a, **k):
        with warnings.catch_warnings():
            warnings.simplefilter("ignore")
            with np.errstate(all="ignore"):
                try:
                    return fn(*a, **k)
                except Exception as e:
                    ctx.fail("oracle", "c05.engine_raises", plan, {"what": f"{type(e).__name__}: {e}"}, cls=cls)
                    return None

    r = guarded(run_plan, first, ps, specs)
    if r is None:
        return
    last = r["final"] or (r["reads"][-1] if r["reads"] else None)
    nl = len(last["Nl"]) if last else 0
    bm, bv = _floor_bites(last, first["rates"], cache) if last else (False, False)
    ctx.count("c05.stats_history", plan, nontrivial=nl >= 4, branch=f"fast_decay:{'cv' if specs else 'raw'}:{r['outcome']}:L{nl - 1}")
    if bm:
        ctx.branches["c05.stats:floor_above_sample_ml_at_last_read"] += 1
    if bv:
        ctx.branches["c05.stats:floor_above_sample_vl_at_last_read"] += 1
    if last and nl >= 4 and any(n in (1, 2) for n in last["Nl"][3:]):
        ctx.branches["c05.stats:level_ge3_with_1_or_2_samples"] += 1
    if last and any(l < nl and last["Nl"][l] > 0 for l in ps["zero"]):
        ctx.branches["c05.stats:level_with_exactly_zero_corrections"] += 1
    if not _judge_plan_run(ctx, plan, cls, r, specs, ps, first["rates"], cache, "first pricing"):
        return
    if r["final"] is None:
        return
    # the RETURNED object is kept by the caller and read again later
    eng, kept, log1 = r["engine"], r["engine"].statistics, list(r["log"])
    fine, coarse = d_values(ps)

    def reread(where):
        with warnings.catch_warnings():
            warnings.simplefilter("ignore")
            with np.errstate(all="ignore"):
                snap = (SNAP_CV if specs else SNAP)(types.SimpleNamespace(statistics=kept))
        if specs:
            ok = oracle_cv(ctx, dict(plan, read=where), snap, log1, specs, cls, fine=fine, coarse=coarse)
        else:
            ok = oracle_rows(ctx, "c05.rows_are_samples", dict(plan, read=where), snap, log1, cls, fine=fine, coarse=coarse)
        if ok and len(snap["rows"]) == len(r["final"]["rows"]) and not all(np.array_equal(a, b) for a, b in zip(snap["rows"], r["final"]["rows"])):
            ctx.fail("oracle", "c05.samples_kept", dict(plan, read=where), {"what": "the samples of the returned object changed after the return"}, cls=cls)
            return False
        return ok and judge_stats(ctx, plan, snap, log1, cls, where, cache)

    if not reread("returned object of the first pricing, read again later"):
        return
    ctx.branches["c05.stats:returned_object_reread"] += 1
    if plan.get("other"):
        ok = guarded(lambda: (fe.run_mlmc_fixed(2, 3), run_plan(dict(first, L0=min(first["L0"], 3), N0=2, level_max=max(3, min(first["L0"], 3))),
                                                                dict(ps, r=1, q=1, zero=[], neg=[3]), specs)))
        if ok is None or not reread("returned object of the first pricing, after pricings on other engine objects"):
            return
        ctx.branches["c05.stats:returned_object_reread_after_other_engines"] += 1
    sec = plan.get("second")
    if sec:
        r2 = guarded(run_plan, sec["run"], sec["process"], specs, engine=eng)
        if r2 is None:
            return
        if not _judge_plan_run(ctx, plan, dict(cls, engine_reused=True), r2, specs, sec["process"], sec["run"]["rates"], {}, "second pricing on the same engine"):
            return
        if not reread("returned object of the first pricing, after a second pricing on the same engine"):
            return
        ctx.branches["c05.stats:returned_object_reread_after_second_pricing"] += 1


def gen_deep_history(rng, L0, N0, level_max, target):
    """script that makes the adaptive loop add levels until `target` (new levels start with 1, 1, 2, 2, 3 or 7 samples), with
    top-up passes in between, and then return"""
    hist, cur = [], [N0] * (L0 + 1)
    for _ in range(14):
        if len(cur) - 1 >= target:
            break
        if rng.random() < 0.35:                                   # top-up pass
            ns = _off_boundary([c + rng.choice([0, 1, 2, 5, c + 1]) for c in cur], cur)
            new = [max(a, b) for a, b in zip(ns, cur)]
            dn = rng.choice([1, 2, 3])
            hist.append((ns, False, new + [dn]))
            big = any(100 * (a - b) > b for a, b in zip(ns, cur) if a > b)
            cur = new if big else new + [dn]                      # within the 1 % rule the bias test runs and a level is added
            continue
        dn = rng.choice([1, 1, 2, 2, 3, 7])
        if len(cur) - 1 == target - 1 and rng.random() < 0.06:
            dn = 0                                                # a level that never gets a sample: the loop ends
        hist.append((list(cur), False, list(cur) + [dn]))
        cur = cur + [dn]
    if rng.random() < 0.4:
        ns = _off_boundary([c + rng.choice([0, 0, 1, 3]) for c in cur], cur)
        hist.append((ns, True, [max(a, b) for a, b in zip(ns, cur)] + [1]))
    # closing oracle: nothing to add; at the maximum level the run returns whatever the verdict
    hist.append(([0] * 12, not (len(cur) - 1 == level_max and rng.random() < 0.5), [0] * 12))
    return [[list(a), bool(b), list(c)] for a, b, c in hist]


def gen_process(rng, rates, fast=True):
    a, b, _ = rates
    if fast:      # the floor ratio of the engine is 2^-(alpha+1) for means and 2^-(beta+1) for variances
        r_, q_ = min(5, int(a) + rng.choice([2, 3])), rng.choice([2, 3, 3]) if b < 3 else 3
    else:
        r_, q_ = 1, 1
    zero = sorted(rng.sample([2, 3, 4, 5, 6], rng.choice([0, 0, 1, 1, 2])))
    neg = sorted(rng.sample([1, 2, 3, 4, 5, 6], rng.choice([0, 1, 2])))
    return dict(a0=rng.choice([4.0, 16.0]), r=r_, q=q_, zero=zero, neg=neg)


def gen_run(rng, deep=True):
    rates = list(rng.choice(RATES))
    level_max = rng.randint(3, 6)
    L0 = rng.randint(0, min(4, level_max))
    N0 = rng.choice([2, 3, 5, 10, 20, 40])
    if deep:
        hist = gen_deep_history(rng, L0, N0, level_max, rng.randint(max(3, L0), level_max))
    else:
        hist = [[list(a), bool(b), list(c)] for a, b, c in gen_history(rng, L0, N0, level_max)]
    return dict(L0=L0, N0=N0, level_max=level_max, rates=rates, history=hist)


def gen_stats_plan(rng, cv):
    first = gen_run(rng)
    plan = dict(plan="stats", process=gen_process(rng, first["rates"], fast=rng.random() < 0.85),
                control_variates=[list(x) for x in gen_controls(rng)] if cv else [], first=first, other=rng.random() < 0.5, second=None)
    if rng.random() < 0.6:
        run2 = gen_run(rng, deep=rng.random() < 0.7)
        plan["second"] = dict(process=gen_process(rng, run2["rates"], fast=rng.random() < 0.7), run=run2)
    return plan


def fixed_on(ctx, eng, max_level, mc, prefix):
    """price_with_constant_mc_paths_and_level on an engine object that has priced before"""
    desc = dict(fixed=True, max_level=max_level, mc=mc, reuse_prefix=prefix)
    cls = dict(kind="fixed", engine_reused=True)
    cfg = eng.configuration
    cfg.maximum_level, cfg.initial_mc_paths, cfg.initial_level = max_level, mc, max_level
    log = eng.coupling_process.log
    del log[:]
    with warnings.catch_warnings():
        warnings.simplefilter("ignore")
        with np.errstate(all="ignore"):
            try:
                eng.price_with_constant_mc_paths_and_level(fe.identity_product())
            except Exception as e:
                ctx.fail("oracle", "c05.engine_raises", desc, {"what": f"{type(e).__name__}: {e}"}, cls=cls)
                return
    snap = SNAP(eng)
    ctx.count("c05.fixed", desc, nontrivial=max_level >= 1, branch="engine_reuse")
    if oracle_rows(ctx, "c05.rows_are_samples", desc, snap, list(log), cls) and judge_stats(ctx, desc, snap, list(log), cls, "returned object"):
        compare_read(ctx, desc, snap, parse_read(ctx.lean(f"fixed {max_level} {mc}")), cls, "fixed after price on the same engine")


def reuse_mlmc(ctx, rng):
    """ONE multilevel Engine object: price(), price() again with a smaller initial sample size / fewer levels, then the fixed-level
    variant — every run judged like a fresh one (rows = exactly the samples of THIS run)"""
    level_max = rng.randint(2, 6)
    L0 = rng.randint(1, min(3, level_max))
    N0 = rng.choice([5, 10, 20, 40])
    h1 = gen_history(rng, L0, N0, level_max)
    r = one_history(ctx, L0, N0, level_max, h1, "reuse:first")
    if r is None:
        return
    eng = r["engine"]
    prefix = [[L0, N0, level_max, [[list(a), bool(b), list(c)] for a, b, c in h1]]]
    L0b = rng.randint(0, L0)
    N0b = rng.choice([1, 2, 3, N0 // 2 + 1, N0])
    lmb = rng.randint(L0b, level_max) if rng.random() < 0.7 else level_max + 1
    h2 = gen_history(rng, L0b, N0b, lmb)
    r2 = one_history(ctx, L0b, N0b, lmb, h2, "reuse:second", engine=eng, prefix=prefix)
    if r2 is None:
        return
    prefix = prefix + [[L0b, N0b, lmb, [[list(a), bool(b), list(c)] for a, b, c in h2]]]
    fixed_on(ctx, eng, rng.randint(0, 3), rng.choice([1, 2, 7]), prefix)


def run(ctx):
    rng = ctx.rng
    for _ in range(ctx.n(10, 150)):
        reuse_mlmc(ctx, rng)
    for _ in range(ctx.n(16, 200)):
        level_max = rng.randint(1, 5)
        L0 = rng.randint(0, min(2, level_max))
        N0 = rng.choice([3, 5, 10, 20])
        cv_trace(ctx, L0, N0, level_max, gen_history(rng, L0, N0, level_max), gen_controls(rng), rates=rng.choice(RATES))
    # fast-decay regime: complete plans (adaptive run to L >= 3, returned object kept and re-read), without / with control variates
    for _ in range(ctx.n(36, 400)):
        stats_case(ctx, gen_stats_plan(rng, cv=False))
    for _ in range(ctx.n(20, 200)):
        stats_case(ctx, gen_stats_plan(rng, cv=True))
    # directed: one level, the control's sample mean equals its price exactly -> the adjusted price must equal the raw one
    for N0, kind, par in ((4, "sq", 0.0), (8, "call", 1.0), (16, "sq", 0.0)):
        xs = [fe.DF * 2.0 * fe.control_value(kind, par, fe.fine_value_v(0, k)) for k in range(N0)]
        cv_trace(ctx, 0, N0, 0, [([N0], True, [])], [(kind, par, 2.0, float(np.mean(xs)))], tag="identity")
    for _ in range(ctx.n(120, 3000)):
        level_max = rng.randint(1, 8)
        L0 = rng.randint(0, min(4, level_max))
        N0 = rng.choice([1, 2, 3, 5, 10, 20, 40, 100, 230])
        one_history(ctx, L0, N0, level_max, gen_history(rng, L0, N0, level_max), "random", rates=rng.choice(RATES))
    # directed: a level added at iteration t whose first pass has dN in {0,1,2}
    for L0 in (0, 1, 2):
        for N0 in (1, 3, 20):
            for t in (0, 1, 2):
                for dn in (0, 1, 2, 5):
                    n = L0 + 1
                    hist = [([N0 + 3 * (i + 1)] * n, False, []) for i in range(t)]
                    top = N0 + 3 * t
                    hist += [([top] * n, False, [top] * n + [dn]), ([top] * n + [dn], True, [])]
                    hist.append(([0] * 12, True, [0] * 12))
                    one_history(ctx, L0, N0, L0 + 3, hist, "late_level")
    # directed: the run returns while some level still has a non-zero top-up within the 1 % rule (needs N_l >= 100): the
    # arrays must not have been padded for samples that are never simulated
    for L0 in (0, 1, 2):
        for N0 in (100, 200, 350):
            n = L0 + 1
            for delta in (1, 2, N0 // 100):
                one_history(ctx, L0, N0, L0 + 2, [([N0 + delta] * n, True, [])], "small_topup")
                one_history(ctx, L0, N0, L0, [([N0 + delta] + [N0] * (n - 1), False, [])], "small_topup_maxlevel")
            hist = [([N0] * n, False, [N0] * n + [150]), ([N0 + 1] * n + [151], True, [])]
            one_history(ctx, L0, N0, L0 + 2, hist, "small_topup_after_level")
    # fixed-level variant
    for max_level in range(0, ctx.n(4, 6)):
        for mc in (1, 2, 7):
            desc = dict(fixed=True, max_level=max_level, mc=mc)
            r = fe.run_mlmc_fixed(max_level, mc)
            ctx.count("c05.fixed", desc, nontrivial=max_level >= 1)
            r["final"] = SNAP(r["engine"])
            if (oracle_rows(ctx, "c05.rows_are_samples", desc, r["final"], r["log"], dict(kind="fixed"))
                    and judge_stats(ctx, desc, r["final"], r["log"], dict(kind="fixed"), "returned object")):
                m = parse_read(ctx.lean(f"fixed {max_level} {mc}"))
                compare_read(ctx, desc, r["final"], m, dict(kind="fixed"), "fixed")


def replay(ctx, rec):
    d = rec["input"]
    if d.get("plan") == "stats":
        stats_case(ctx, d)
        return
    if "reuse_prefix" in d:
        eng = None
        for L0, N0, lm, h in d["reuse_prefix"]:
            with warnings.catch_warnings():
                warnings.simplefilter("ignore")
                with np.errstate(all="ignore"):
                    eng = fe.run_mlmc_hooked([(a, b, c) for a, b, c in h], L0, N0, lm, engine=eng)["engine"]
        if d.get("fixed"):
            fixed_on(ctx, eng, d["max_level"], d["mc"], d["reuse_prefix"])
        else:
            one_history(ctx, d["L0"], d["N0"], d["level_max"], [(a, b, c) for a, b, c in d["history"]], rec.get("cls", {}).get("kind", "replay"),
                        rates=tuple(d.get("rates", (1.0, 2.0, 1.0))), engine=eng, prefix=d["reuse_prefix"])
        return
    if d.get("fixed"):
        r = fe.run_mlmc_fixed(d["max_level"], d["mc"])
        r["final"] = SNAP(r["engine"])
        if oracle_rows(ctx, "c05.rows_are_samples", d, r["final"], r["log"], dict(kind="fixed")):
            judge_stats(ctx, d, r["final"], r["log"], dict(kind="fixed"), "returned object")
        return
    hist = [(a, b, c) for a, b, c in d["history"]]
    rates = tuple(d.get("rates", (1.0, 2.0, 1.0)))
    if d.get("control_variates"):
        cv_trace(ctx, d["L0"], d["N0"], d["level_max"], hist, [tuple(x) for x in d["control_variates"]], rates=rates)
        return
    one_history(ctx, d["L0"], d["N0"], d["level_max"], hist, rec.get("cls", {}).get("kind", "replay"), rates=rates)
