"""C06 — Sample allocation meets the variance budget; runs stop only on stated criteria (DESIGN.md §4 C06)."""
from __future__ import annotations

import math
import warnings
from fractions import Fraction
import numpy as np

from .. import fake_engine as fe
from .. import common as cm
from ..common import w, wl, rd, rdl, close, fr
from . import c05

LEAN_TARGETS = ["RpylibModel.Proofs.C06"]
LEAN_GEN_TARGETS = ["RpylibModel.ProofsGen.C06Budget"]   # imports Generated/C06.lean: re-checked against the measured constants
RULE = ("allocation: variance/cost vectors given by their dyadic roots (so float sqrt is exact), lengths 1..8, zeros, huge ratios, "
        "rmse on a dyadic grid, N compared exactly away from ceil boundaries; bias test: directed + random remainders around the "
        "threshold; loop: the oracle histories of C05 with the return reason classified; generated constants: bias share and variance "
        "share measured on the running code; rates: all 8 None/given patterns of the public ConvergenceRates with the real Giles criteria; "
        "histories: SEQUENCES of 2..4 pricings in one interpreter (each sequence forked from a process that imported the library and priced "
        "nothing), every pricing set up the way a user does — rates omitted (library default argument) / None / a new ConvergenceRates / the "
        "user's own shared ConvergenceRates object, None, partial or given; criteria object omitted or passed; new objects, the previous "
        "configuration, or the previous engine; initial level / paths omitted, set, or left as set before — with a different decay regime "
        "(rate, amplitude, spread) in every pricing; every pricing judged as a single pricing against the rates the USER asked for in it, "
        "compared with the same pricing done first in a new interpreter, and followed by a check that configuration, user objects and the "
        "shared default ConvergenceRates() are unchanged. numeric carriers: the property is about VALUES, so every numeric argument of the "
        "public functions / configuration objects (alpha, beta, gamma, rmse, initial / maximum level, initial paths; the vectors ml, vl, cl) is "
        "also handed over in every carrier that holds the same value exactly — Python int / float, numpy int8..int64 / uint8 / float32 / "
        "float64 scalars, 0-d arrays; vectors as lists, tuples, int / float32 / float64 arrays (allocation: ndarray dtypes only, as declared) — "
        "in criteria_giles (incl. all-integral means / rmse), compute_mc_paths_giles, single pricings and the pricings of the sequences; "
        "the same oracles judge them and the result is tied to the one obtained with float / float64 carriers (c06.numeric_type). non-trivial = at least two levels with positive variance / at least one loop "
        "iteration / at least two pricings")
NOT_PROVED = ["regression of alpha, beta, gamma (np.linalg.lstsq) is an oracle input of the loop model (the vectors ml, vl, cl the criteria "
              "receive at every iteration ARE modelled and proved to come from exactly the simulated samples: feeds_from_samples; compared "
              "with the arguments of the real callbacks by the C05 check)",
              "float rounding of sqrt/ceil (inputs within 2^-30 of a ceil boundary are excluded and counted)",
              "termination is proved under the hypothesis that the optimal sizes returned by the criteria are bounded (run_terminates); "
              "that the real Giles allocation is bounded along a run depends on the simulated variances and is not proved",
              "that a pricing does not depend on the pricings done before it in the same process (the model's price is a pure function of "
              "configuration and samples) is not a theorem about the implementation: it is checked on generated sequences of pricings "
              "(c06.sequence: oracle per pricing; c06.sequence.fresh / c06.sequence.mutation as ties)",
              "that a result depends only on the VALUES of the numeric arguments, not on the Python / numpy type that carries them (the model "
              "works on rationals) is not a theorem about the implementation: it is checked on generated carriers (oracles on the typed calls; "
              "c06.numeric_type as tie); float32 carriers are compared within float32 rounding (decision margin 2^-18, sizes within 1 + 1e-5 N)"]
ASSUMPTIONS = ["theorem alloc_budget_partial is over the reals with exact sqrt and ceil",
               "sequences of pricings: the process state at the start of a sequence is that of an interpreter that has imported rpylib and the "
               "harness (os.fork of such a process); if fork is unavailable the sequences run inside the harness process (noted in the evidence)"]
TRUSTED = ["numpy sqrt/ceil"]
GEN_FILE = cm.LEAN_DIR / "RpylibModel" / "Generated" / "C06.lean"


def measure():
    from rpylib.montecarlo.multilevel.criteria import compute_mc_paths_giles, criteria_giles
    rmse = 2.0 ** -10
    n = int(compute_mc_paths_giles(rmse, np.array([1.0]), np.array([1.0]))[0])
    var_upper = Fraction(2 ** 20, n - 1)            # (1 - theta) < 2^20/(n-1)
    var_lower = Fraction(2 ** 20, n)
    # largest rem/rmse accepted by the bias test, alpha = 1 so that rem = ml[-1]
    lo, hi = 0.0, 4.0
    assert criteria_giles(1.0, np.array([0.0, 0.0, lo]), 1.0) and not criteria_giles(1.0, np.array([0.0, 0.0, hi]), 1.0)
    for _ in range(60):
        mid = 0.5 * (lo + hi)
        if criteria_giles(1.0, np.array([0.0, 0.0, mid]), 1.0):
            lo = mid
        else:
            hi = mid
    t = Fraction(lo)
    return dict(N_unit=n, var_upper=var_upper, var_lower=var_lower, bias_threshold=t, bias_share=t * t)


def generate_lean(ctx):
    try:
        m = measure()
    except Exception as e:
        ctx.fail("proof", "c06.generated_obligation", {}, {"name": "measurement of the budget constants failed", "error": repr(e)})
        return None
    text = f"""/- GENERATED by harness/props/c06.py from measurements on the running implementation — do not edit by hand.
   biasShare: (largest rem/rmse accepted by criteria_giles, by bisection)²; varShare: upper bound of the variance share
   (1-θ) recovered from compute_mc_paths_giles on unit inputs; slack: measurement resolution. -/
namespace Rpylib.Generated.C06
def biasShare : Rat := {m['bias_share'].numerator}/{m['bias_share'].denominator}
def varShare : Rat := {m['var_upper'].numerator}/{m['var_upper'].denominator}
def slack : Rat := 1/262144
end Rpylib.Generated.C06
"""
    if not GEN_FILE.exists() or GEN_FILE.read_text() != text:
        GEN_FILE.write_text(text)
    ctx.gen = m
    return {k: str(v) for k, v in m.items()}


# ------------------------------------------------------------------------------------------------ numeric carriers of equal values
# The property quantifies over VALUES (rates, rmse, level numbers, sample numbers, vectors of means / variances / costs).  Python
# has many carriers of one value: int, float, numpy integer / floating scalars of several widths, 0-d arrays; lists, tuples and arrays
# of several dtypes for vectors.  A `num` dict names, per argument, the carrier in which the value is handed to the library (absent =
# the carrier the generators always used: Python float / int, float64 array).  A carrier is used only if it holds the value EXACTLY,
# so every oracle (which works on the values) applies unchanged, and the result must be the one obtained with the canonical carriers.
REAL_KINDS = ["float", "int", "np.int64", "np.int32", "np.int8", "np.uint8", "np.float64", "np.float32", "0d.float", "0d.int"]
INT_KINDS = ["int", "np.int64", "np.int32", "np.int8", "np.uint8"]           # arguments declared `int` (levels, numbers of paths)
VECTOR_KINDS = ["np.float64", "np.float32", "np.int64", "np.int32", "np.uint16", "list", "tuple", "list.int"]
NDARRAY_KINDS = ["np.float64", "np.float32", "np.int64", "np.int32", "np.uint16"]     # arguments declared np.array and used as such
_IRANGE = {"np.int8": (-128, 127), "np.uint8": (0, 255), "np.uint16": (0, 65535), "np.int32": (-2 ** 31, 2 ** 31 - 1)}


def _is_int_kind(kind):
    return kind is not None and (kind in ("int", "0d.int", "list.int") or kind.startswith("np.int") or kind.startswith("np.uint"))


def _holds(x, kind):
    """the carrier `kind` represents the real number x exactly"""
    x = float(x)
    if kind is None or kind in ("float", "np.float64", "0d.float", "list", "tuple"):
        return True
    if kind == "np.float32":
        return float(np.float32(x)) == x
    lo, hi = _IRANGE.get(kind, (-2 ** 62, 2 ** 62))
    return x.is_integer() and lo <= x <= hi


def _typed(x, kind):
    """the value x in the carrier `kind` (None: as generated)"""
    if x is None or kind is None:
        return x
    if kind == "float":
        return float(x)
    if kind == "int":
        return int(x)
    if kind.startswith("0d."):
        return np.array(int(x) if kind == "0d.int" else float(x))
    return getattr(np, kind[3:])(int(x) if _is_int_kind(kind) else x)


def _typed_vector(xs, kind):
    if kind is None or kind == "np.float64":
        return np.array(xs, dtype=float)
    if kind == "list":
        return [float(x) for x in xs]
    if kind == "tuple":
        return tuple(float(x) for x in xs)
    if kind == "list.int":
        return [int(x) for x in xs]
    return np.array([int(x) for x in xs] if _is_int_kind(kind) else xs, dtype=getattr(np, kind[3:]))


def _pick(rng, x, kinds):
    xs = x if isinstance(x, (list, tuple)) else [x]
    return rng.choice([k for k in kinds if all(_holds(v, k) for v in xs)])


def _gen_num(rng, rates=None, rmse=None, **ints):
    """random carriers for the arguments of one pricing: the three rates, rmse, and the integer arguments given by keyword"""
    num = {}
    if rates is not None:
        num["rates"] = [None if r is None else _pick(rng, r, REAL_KINDS) for r in rates]
    if rmse is not None:
        num["rmse"] = _pick(rng, rmse, REAL_KINDS)
    for name, val in ints.items():
        if val is not None:
            num[name] = _pick(rng, val, INT_KINDS)
    return num


def _has_float32(num):
    return "np.float32" in json_flat(num)


def json_flat(x):
    if isinstance(x, dict):
        return [z for v in x.values() for z in json_flat(v)]
    if isinstance(x, (list, tuple)):
        return [z for v in x for z in json_flat(v)]
    return [x]


def alloc_probe(ctx, v, c, rmse, tag):
    from rpylib.montecarlo.multilevel.criteria import compute_mc_paths_giles
    V = np.array([x * x for x in v], dtype=float)
    C = np.array([x * x for x in c], dtype=float)
    desc = dict(v=v, c=c, rmse=rmse)
    cls = dict(kind=tag, zero_cost_positive_variance=bool(any(ci == 0 and vi > 0 for vi, ci in zip(v, c))))
    with np.errstate(all="ignore"):
        try:
            N = [int(x) for x in compute_mc_paths_giles(rmse, V, C)]
        except Exception as e:
            ctx.fail("oracle", "c06.alloc_raises", desc, {"what": repr(e)}, cls=cls)
            return
    ctx.count("c06.alloc", desc, nontrivial=sum(1 for x in v if x > 0) >= 2, branch=tag)
    theta = 1 - ctx.gen["var_lower"] if getattr(ctx, "gen", None) else Fraction(1, 4)
    share = float(ctx.gen["var_upper"]) if getattr(ctx, "gen", None) else 0.75
    # S: the property itself: sum V_l/N_l <= variance share * rmse^2 (levels with V>0 must have N>=1)
    tot, bad = 0.0, None
    for Vl, Nl in zip(V, N):
        if Vl > 0:
            if Nl < 1:
                bad = "a level with positive variance got no sample"
                break
            tot += Vl / Nl
    if bad is None and tot > share * rmse * rmse * (1 + 1e-9):
        bad = f"estimator variance {tot} exceeds the variance share {share}*rmse^2 = {share * rmse * rmse}"
    if bad:
        ctx.fail("oracle", "c06.alloc_budget", desc, {"what": bad, "N": N, "V": V.tolist(), "C": C.tolist()}, cls=cls,
                 mirrors_model=None)
    # C: against M, exactly, away from ceil boundaries
    out = ctx.lean(f"giles 1/4 {w(rmse)} {wl(v)} {wl(c)}")
    M = [int(x) for x in rdl(out)]
    S = sum(Fraction(a) * Fraction(b) for a, b in zip(v, c))
    B = Fraction(3, 4) * Fraction(rmse) ** 2
    margins_ok = True
    for a, b_ in zip(v, c):
        ra = Fraction(a) / (Fraction(b_) if b_ != 0 else Fraction(10 ** 15))
        x = ra * S / B
        if x != 0 and abs(x - round(x)) < Fraction(1, 2 ** 30) * max(1, abs(x)):
            margins_ok = False
    if not margins_ok:
        ctx.excluded_small_margin += 1
    elif M != N:
        ctx.fail("corr", "c06.alloc.model", desc, {"name": "Drivers/C06 giles vs compute_mc_paths_giles", "impl": N, "model": M}, cls=cls)


def _giles_margin_ok(V, C, rmse, share=0.75):
    """True when no N_l of the exact formula is within 1e-9 relative of a ceil boundary (float rounding could flip it)"""
    S = float(np.sum(np.sqrt(V * C)))
    B = share * rmse * rmse
    for Vl, Cl in zip(V, C):
        x = math.sqrt(Vl / Cl) * S / B if Cl > 0 else 0.0
        if x != 0 and abs(x - round(x)) < 1e-9 * max(1.0, abs(x)):
            return False
    return True


SCALES_EXACT = [2.0 ** -10, 2.0 ** -30, 2.0 ** -40, 2.0 ** 20, 2.0 ** -60]      # powers of four: float sqrt is exact, N must be identical
SCALES_ANY = [1e-9, 1e-12, 2.0 ** -41, 3.0, 1e-20, 1e6]


def alloc_scaled(ctx, v, c, rmse):
    """the allocation does not depend on the unit of cost: the same (V, rmse) with every cost multiplied by a positive factor.
    S: the budget on every scaled input (alloc_probe: also vs the model, whose invariance is theorem giles_scale_invariant);
    tie with the theorem: N identical to the unscaled N (exactly for power-of-four factors, away from ceil boundaries otherwise)."""
    from rpylib.montecarlo.multilevel.criteria import compute_mc_paths_giles
    V = np.array([x * x for x in v], dtype=float)
    C = np.array([x * x for x in c], dtype=float)
    with np.errstate(all="ignore"):
        N0 = [int(x) for x in compute_mc_paths_giles(rmse, V, C)]
    share = float(ctx.gen["var_upper"]) if getattr(ctx, "gen", None) else 0.75
    for s_ in SCALES_EXACT:
        r = math.sqrt(s_)
        alloc_probe(ctx, v, [x * r for x in c], rmse, "cost_scaled")       # budget oracle + exact model comparison
    for s_ in SCALES_EXACT + SCALES_ANY:
        desc = dict(v=v, c=c, rmse=rmse, cost_scale=s_)
        cls = dict(kind="cost_scaled", zero_cost_positive_variance=False)
        with np.errstate(all="ignore"):
            N = [int(x) for x in compute_mc_paths_giles(rmse, V, C * s_)]
        ctx.count("c06.alloc_scale", desc, nontrivial=sum(1 for x in v if x > 0) >= 2, branch="exact" if s_ in SCALES_EXACT else "any")
        tot = sum(Vl / Nl for Vl, Nl in zip(V, N) if Vl > 0 and Nl >= 1)
        if any(Vl > 0 and Nl < 1 for Vl, Nl in zip(V, N)) or tot > share * rmse * rmse * (1 + 1e-9):
            ctx.fail("oracle", "c06.alloc_budget", desc, {"what": f"estimator variance {tot} exceeds the variance share {share}*rmse^2 = {share * rmse * rmse} "
                                                                 f"after multiplying every cost by {s_}", "N": N, "N_unscaled": N0, "V": V.tolist(),
                                                         "C": (C * s_).tolist()}, cls=cls)
            continue
        if N != N0:
            if s_ in SCALES_EXACT or _giles_margin_ok(V, C, rmse):
                ctx.fail("corr", "c06.alloc_scale_invariance", desc, {"name": "theorem giles_scale_invariant / alloc_scale_invariant vs compute_mc_paths_giles: "
                                                                              "N changed under a positive rescaling of all costs", "impl": N, "model": N0}, cls=cls)
            else:
                ctx.excluded_small_margin += 1


def alloc_typed(ctx, v, c, rmse, num):
    """the allocation with the SAME values in other numeric carriers: V = v^2, C = c^2 with integer roots (every dtype holds them),
    num = dict(vl=, cl=, rmse=).  S: no exception, the variance budget on what is returned; tie: N identical to the N of the float64
    call (float32 vectors: within float32 rounding)."""
    from rpylib.montecarlo.multilevel.criteria import compute_mc_paths_giles
    V = [float(x * x) for x in v]
    C = [float(x * x) for x in c]
    desc = dict(v=v, c=c, rmse=rmse, num=num)
    cls = dict(kind="typed", zero_cost_positive_variance=bool(any(ci == 0 and vi > 0 for vi, ci in zip(v, c))),
               integer_cost_array=_is_int_kind(num.get("cl")), integer_variance_array=_is_int_kind(num.get("vl")))
    loose = _has_float32(num)
    with np.errstate(all="ignore"), warnings.catch_warnings():
        warnings.simplefilter("ignore")
        N0 = [int(x) for x in compute_mc_paths_giles(float(rmse), np.array(V), np.array(C))]
        try:
            N = [int(x) for x in compute_mc_paths_giles(_typed(rmse, num.get("rmse")), _typed_vector(V, num.get("vl")), _typed_vector(C, num.get("cl")))]
        except Exception as e:
            ctx.count("c06.alloc_typed", desc, nontrivial=False, branch="raised")
            ctx.fail("oracle", "c06.alloc_raises", desc, {"what": repr(e)}, cls=cls)
            return
    ctx.count("c06.alloc_typed", desc, nontrivial=sum(1 for x in v if x > 0) >= 2, branch="returned")
    for arg in ("vl", "cl", "rmse"):
        ctx.branches[f"c06.alloc_typed.carrier:{arg}={num.get(arg)}"] += 1
    share = float(ctx.gen["var_upper"]) if getattr(ctx, "gen", None) else 0.75
    tol = 1e-5 if loose else 1e-9
    tot = sum(Vl / Nl for Vl, Nl in zip(V, N) if Vl > 0 and Nl >= 1)
    if len(N) != len(V) or any(Vl > 0 and Nl < 1 for Vl, Nl in zip(V, N)) or tot > share * rmse * rmse * (1 + tol):
        ctx.fail("oracle", "c06.alloc_budget", desc, {"what": f"estimator variance {tot} exceeds the variance share {share}*rmse^2 = {share * rmse * rmse} when the "
                                                             f"same values are handed over as {num}", "N": N, "N_float64": N0, "V": V, "C": C}, cls=cls)
        return
    if any(abs(a - b) > ((1 + 1e-5 * b) if loose else 0) for a, b in zip(N, N0)):
        ctx.fail("corr", "c06.numeric_type", desc, {"name": "the model's allocation is a function of the values: compute_mc_paths_giles on equal values in other "
                                                            "numeric carriers", "impl": N, "model": N0}, cls=cls)


def criteria_probe(ctx, alpha, ml, rmse, num=None):
    """num = dict(alpha=, ml=, rmse=): the carriers in which the values reach criteria_giles (see `_typed`)"""
    from rpylib.montecarlo.multilevel.criteria import criteria_giles
    desc = dict(alpha=alpha, ml=ml, rmse=rmse)
    num = num or {}
    cls = dict(kind="typed" if num else "plain")
    if num:
        desc["num"] = num
        cls.update(alpha_type=num.get("alpha"), ml_type=num.get("ml"), rmse_type=num.get("rmse"))
    try:
        with np.errstate(all="ignore"), warnings.catch_warnings():
            warnings.simplefilter("ignore")
            got = bool(criteria_giles(_typed(alpha, num.get("alpha")), _typed_vector(ml, num.get("ml")), _typed(rmse, num.get("rmse"))))
    except Exception as e:
        ctx.count("c06.criteria", desc, nontrivial=False, branch="raised")
        ctx.fail("oracle", "c06.criteria_raises", desc, {"what": repr(e)}, cls=cls)
        return
    q = Fraction(2) ** int(alpha) if float(alpha).is_integer() else None
    ctx.count("c06.criteria", desc, branch=("typed_" if num else "") + ("accept" if got else "reject"))
    if num:
        for arg in ("alpha", "ml", "rmse"):
            ctx.branches[f"c06.criteria.carrier:{arg}={num.get(arg)}"] += 1
    if q is None or q <= 1:
        return
    st = ctx.gen["bias_threshold"] if getattr(ctx, "gen", None) else Fraction(1, 2)
    rem = max(Fraction(ml[-1]), Fraction(ml[-2]) / q, Fraction(ml[-3]) / (q * q)) / (q - 1)
    if abs(rem - st * Fraction(rmse)) < Fraction(1, 2 ** (18 if _has_float32(num) else 30)) * Fraction(rmse):
        ctx.excluded_small_margin += 1
        return
    out = ctx.lean(f"criteria {w(st)} {w(q)} {w(ml[-1])} {w(ml[-2])} {w(ml[-3])} {w(rmse)}")
    if (out == "1") != got:
        ctx.fail("corr", "c06.criteria.model", desc, {"name": "Drivers/C06 criteria vs criteria_giles", "impl": got, "model": out}, cls=cls)
    if num:
        ref = bool(criteria_giles(float(alpha), np.array(ml, dtype=float), float(rmse)))
        if ref != got:
            ctx.fail("corr", "c06.numeric_type", desc, {"name": "the model's bias test is a function of the values: criteria_giles on equal values in other "
                                                                "numeric carriers", "impl": got, "model": ref}, cls=cls)
    # S: the accepted squared bias never exceeds the bias share the budget theorem was checked with
    if got and float(rem) ** 2 > float(ctx.gen["bias_share"]) * float(rmse) ** 2 * (1 + 1e-9):
        ctx.fail("oracle", "c06.bias_share", desc, {"what": "accepted remainder above the measured bias tolerance" +
                                                            (f" when the values are handed over as {num}" if num else ""), "rem": float(rem)}, cls=cls)


def loop_probe(ctx, L0, N0, level_max, hist, tag):
    """S: never above the maximum level; returns only on the stated criteria"""
    desc = dict(L0=L0, N0=N0, level_max=level_max, history=[[list(a), bool(b), list(c)] for a, b, c in hist])
    with warnings.catch_warnings():
        warnings.simplefilter("ignore")
        with np.errstate(all="ignore"):
            try:
                r = fe.run_mlmc(hist, L0, N0, level_max)
            except Exception as e:
                ctx.fail("oracle", "c06.engine_raises", desc, {"what": f"{type(e).__name__}: {e}"}, cls=dict(kind=tag))
                return
    ctx.count("c06.loop", desc, nontrivial=len(r["reads"]) >= 1, branch=tag)
    # S: the loop only ever adds: levels and N_l never decrease from one iteration to the next, even when the criteria return an
    # optimal size below what has been simulated (theorems iter_mono / run_mono)
    seq = r["reads"] + ([r["final"]] if r["final"] is not None else [])
    for i, (a, b) in enumerate(zip(seq, seq[1:])):
        if len(b["Nl"]) < len(a["Nl"]) or any(nb < na for na, nb in zip(a["Nl"], b["Nl"])):
            ctx.fail("oracle", "c06.monotone", dict(desc, read=i), {"what": "the number of levels or some N_l decreased during the run",
                                                                    "before": a["Nl"], "after": b["Nl"]}, cls=dict(kind=tag))
            return
    if r["outcome"] != "ret":
        return
    fin = r["final"]
    top = len(fin["Nl"]) - 1
    simulated_levels = {l for k, l, _ in r["log"] if k == "sim"}
    if top > level_max or (simulated_levels and max(simulated_levels) > level_max):
        ctx.fail("oracle", "c06.above_max_level", desc, {"levels": top, "level_max": level_max}, cls=dict(kind=tag))
        return
    # reconstruct the return reason from the last oracle the engine consumed
    i = len(r["reads"]) - 1
    if i < 0:
        return
    ns, conv, ns2 = hist[i]
    N_read = r["reads"][i]["Nl"]
    dN = [max(0, (ns[l] if l < len(ns) else 0) - N_read[l]) for l in range(len(N_read))]
    small = all(100 * d <= n for d, n in zip(dN, N_read))
    stated = small and (conv or len(N_read) - 1 == level_max)
    if not stated:
        added_level = len(fin["Nl"]) == len(N_read) + 1
        ctx.fail("oracle", "c06.return_reason", desc,
                 {"what": "Engine.price returned although the bias test did not pass and the maximum level was not reached "
                          "(fell out of `while sum(dNl) > 0`)", "Nl_final": fin["Nl"], "level_max": level_max,
                  "converged": conv, "small": small}, cls=dict(kind=tag, fallthrough=True, level_just_added=added_level))
    # C: the model returns at the same point with the same sizes
    out = ctx.lean(f"price {L0} {N0} {level_max} 0 {c05.enc_history(hist)}").split(" # ")[-1].split(" ")
    if out[0] != "ret" or [int(x) for x in rdl(out[2])] != fin["Nl"]:
        ctx.fail("corr", "c06.loop.model", desc, {"name": "Drivers/C06 price vs Engine.price (return point)", "impl": fin["Nl"], "model": out})


# ------------------------------------------------------------------------------------------------ configured vs regressed rates
class DecayCoupling(fe.FakeCoupling):
    """scripted coupling whose level corrections have mean amp 2^(-a l) and spread s 2^(-l) (signs alternate); level 0: 10 +- s"""

    def __init__(self, a, s, log=None, cost_unit=1.0, amp=1.0):
        super().__init__(log)
        self.a, self.s, self.cost_unit, self.amp = a, s, cost_unit, amp

    def __deepcopy__(self, memo):
        c = DecayCoupling(self.a, self.s, self.log, self.cost_unit, self.amp)
        c.level, c.count = self.level, self.count
        return c

    def one_simulation_cost(self, product):
        return self.cost_unit * float(2 ** self.level)       # the unit in which costs are expressed is arbitrary

    def _z(self):
        z = 1.0 if self.count % 2 == 0 else -1.0
        self.count += 1
        return z

    def simulate_one_path(self):
        return fe.StochasticJumpPath(np.array([0.0, fe.T]), np.array([0.0, 10.0 + self.s * self._z()]), np.zeros(2))

    def simulate_one_path_with_coupling(self):
        l = self.level
        fine = 10.0 + self.amp * 2.0 ** (-self.a * l) + self.s * 2.0 ** (-l) * self._z()
        return fe.StochasticJumpPath(np.array([0.0, fe.T]), np.array([[0.0, fine], [0.0, 10.0]]), np.zeros((2, 2)))


def _regress(values, max_val=0.5):
    """the engine's estimator of a rate (engine.py:194-202): -slope of log2(values[1:]) against the level, floored at 0.5"""
    L = len(values) - 1
    mat = np.ones((L, 2))
    mat[:, 0] = range(1, L + 1)
    with np.errstate(divide="ignore"):
        x = np.linalg.lstsq(mat, np.log2(np.array(values, dtype=float)[1:]), rcond=None)[0]
    return max(max_val, -x[0])


class _Recorder:
    """records the arguments the loop hands to the two criteria callbacks (and the level statistics at that moment); the real Giles
    functions (or whatever callables the configuration carries) do the work"""

    def __init__(self):
        self.calls, self.engine = [], None

    def alloc(self, inner):
        def compute_mc_paths(rmse_, vl, cl):
            res = self.engine.statistics.mlmc_results
            ns = inner(rmse_, vl, cl)
            self.calls.append(dict(kind="alloc", vl=[float(x) for x in vl], cl=[float(x) for x in cl], ns=[int(x) for x in ns],
                                   raw_ml=[float(x) for x in res.ml], raw_vl=[float(x) for x in res.vl], raw_cl=[float(x) for x in res.cl],
                                   Nl=[int(x) for x in res.Nl]))
            return ns
        return compute_mc_paths

    def crit(self, inner):
        def criteria(alpha, ml, rmse_):
            v = bool(inner(alpha, ml, rmse_))
            self.calls.append(dict(kind="criteria", alpha=float(alpha), ml=[float(x) for x in ml], verdict=v))
            return v
        return criteria


def _rates_run(rates, decay, rmse, level_max, cost_unit=1.0, num=None):
    """one pricing with the public configuration objects and the real Giles criteria (wrapped only to record their arguments);
    num: carriers of the numeric arguments, dict(rates=[k, k, k], rmse=k, level_max=k, L0=k, N0=k)"""
    from rpylib.montecarlo.configuration import ConfigurationMultiLevel, ConvergenceRates
    from rpylib.montecarlo.multilevel.criteria import ConvergenceCriteria, compute_mc_paths_giles, criteria_giles
    from rpylib.montecarlo.multilevel.engine import Engine
    num = num or {}
    rk = num.get("rates") or [None, None, None]
    rec = _Recorder()
    with warnings.catch_warnings():
        warnings.simplefilter("ignore")
        with np.errstate(all="ignore"):
            cfg = ConfigurationMultiLevel(convergence_rates=ConvergenceRates(alpha=_typed(rates[0], rk[0]), beta=_typed(rates[1], rk[1]),
                                                                             gamma=_typed(rates[2], rk[2])),
                                          convergence_criteria=ConvergenceCriteria(criteria=rec.crit(criteria_giles),
                                                                                   compute_mc_paths=rec.alloc(compute_mc_paths_giles)),
                                          initial_level=_typed(2, num.get("L0")), maximum_level=_typed(level_max, num.get("level_max")),
                                          initial_mc_paths=_typed(20, num.get("N0")), seed=None, nb_of_processes=1)
            eng = Engine(configuration=cfg, coupling_process=DecayCoupling(decay, 1.0 / 16, cost_unit=cost_unit))
            rec.engine = eng
            st = eng.price(fe.identity_product(), rmse=_typed(rmse, num.get("rmse")))
    res = st.mlmc_results
    return rec.calls, dict(Nl=[int(x) for x in res.Nl], ml=[float(x) for x in res.ml], vl=[float(x) for x in res.vl], cl=[float(x) for x in res.cl])


def _same_pricing(calls, final, calls0, final0):
    """two records of one pricing agree: sizes, level statistics, and the weak rates / verdicts of every bias test"""
    crit = lambda cs: [(c["alpha"], c["verdict"]) for c in cs if c["kind"] == "criteria"]
    return (final["Nl"] == final0["Nl"] and all(np.allclose(final[q], final0[q], rtol=1e-12, atol=0, equal_nan=True) for q in ("ml", "vl", "cl"))
            and crit(calls) == crit(calls0))


def rates_probe(ctx, rates, decay, rmse, level_max, tag, cost_unit=1.0, num=None):
    """The PUBLIC ConvergenceRates configuration with any None/given pattern of (alpha, beta, gamma) and the real Giles criteria
    (wrapped only to record their arguments), judged by `_judge_rates`.  With `num` the same values are handed over in other numeric
    carriers: judged in the same way (the oracles work on the values), and tied to the pricing with the canonical carriers."""
    desc = dict(rates=list(rates), decay=decay, rmse=rmse, level_max=level_max)
    if cost_unit != 1.0:
        desc["cost_unit"] = cost_unit
    cls = dict(kind=tag, pattern="".join("g" if r is not None else "N" for r in rates))
    if num:
        desc["num"] = num
        cls["typed"] = True
    try:
        calls, final = _rates_run(rates, decay, rmse, level_max, cost_unit, num)
    except Exception as e:
        ctx.fail("oracle", "c06.engine_raises", desc, {"what": f"{type(e).__name__}: {e}"}, cls=cls)
        return
    ctx.count("c06.rates", desc, nontrivial=True, branch=f"{tag}:{cls['pattern']}")
    _judge_rates(ctx, desc, cls, rates, rmse, level_max, calls, final)
    if num:
        for k in json_flat(num):
            ctx.branches[f"c06.rates.carrier:{k}"] += 1
        try:
            calls0, final0 = _rates_run(rates, decay, rmse, level_max, cost_unit, None)
        except Exception:                                           # judged when generated with the canonical carriers
            return
        if not _same_pricing(calls, final, calls0, final0):
            crit = lambda cs: [[c["alpha"], c["verdict"]] for c in cs if c["kind"] == "criteria"]
            ctx.fail("corr", "c06.numeric_type", desc, {"name": "the model's price is a function of the values: Engine.price with equal values in other numeric carriers",
                                                        "impl": dict(Nl=final["Nl"], ml=final["ml"], bias_tests=crit(calls)),
                                                        "model": dict(Nl=final0["Nl"], ml=final0["ml"], bias_tests=crit(calls0))}, cls=cls)


def _judge_rates(ctx, desc, cls, rates, rmse, level_max, calls, final, br="c06.rates"):
    """S on ONE pricing, from the recorded calls of the criteria callbacks and the returned statistics.  `rates`: the (alpha, beta,
    gamma) the USER asked for in this pricing (None = to be regressed) — not what the configuration object holds when the run starts
    or ends.  Every rate the loop uses is the prescribed one — the given value when given, the regression of the vector just computed
    from THIS run's own level statistics otherwise — (a) in the work-around of ml / vl, (b) in the bias test, (c) in the extrapolation
    of vl / cl for an appended level; and every return is legitimate w.r.t. the prescribed alpha: criteria_giles(prescribed alpha, ml,
    rmse) holds or L == level_max, with every level within the 1 % rule; and the returned statistics meet the variance budget."""
    from rpylib.montecarlo.multilevel.criteria import criteria_giles
    # group the recorded calls per iteration: alloc [criteria [alloc2]]
    its = []
    for c in calls:
        if c["kind"] == "alloc" and (not its or "alloc2" in its[-1] or "crit" not in its[-1]):
            its.append({"alloc": c})
        elif c["kind"] == "criteria":
            its[-1]["crit"] = c
        else:
            its[-1]["alloc2"] = c
    if not its:
        return
    cur = [0.0 if r is None else float(r) for r in rates]        # alpha, beta, gamma as the loop holds them at its head
    flagged = []
    def bad(what, i, **kw):
        if not flagged:                                         # the first deviation of a run is reported, the judgement goes on
            ctx.fail("oracle", "c06.rates_used", dict(desc, iteration=i), dict(what=what, **kw), cls=cls)
        flagged.append(i)
    exp_ml = None
    for i, it in enumerate(its):
        a = it["alloc"]
        if any(n == 0 for n in a["Nl"]) or not np.all(np.isfinite(a["raw_ml"] + a["raw_vl"])):
            return                                              # a level without samples: nan statistics, nothing to judge
        # (a) work-around with the rates held at the loop head
        exp_ml, exp_vl = list(a["raw_ml"]), list(a["raw_vl"])
        for l in range(3, len(exp_ml)):
            exp_ml[l] = max(exp_ml[l], 0.5 * exp_ml[l - 1] / 2 ** cur[0])
            exp_vl[l] = max(exp_vl[l], 0.5 * exp_vl[l - 1] / 2 ** cur[1])
        if not np.allclose(a["vl"], exp_vl, rtol=1e-9, atol=0) or not np.allclose(a["cl"], a["raw_cl"], rtol=1e-12, atol=0):
            bad("vl / cl handed to compute_mc_paths are not the level statistics after the documented work-around with the prescribed beta",
                i, got=a["vl"], expected=exp_vl, beta=cur[1])
        # rates prescribed for the rest of this iteration: configured, else regressed on the vectors just computed
        with np.errstate(all="ignore"):
            pres = [float(rates[0]) if rates[0] is not None else float(_regress(exp_ml)),
                    float(rates[1]) if rates[1] is not None else float(_regress(exp_vl)),
                    float(rates[2]) if rates[2] is not None else float(_regress(a["raw_cl"]))]
        if not np.all(np.isfinite(pres)):
            return
        if "crit" in it:
            c = it["crit"]
            if not np.allclose(c["ml"], exp_ml, rtol=1e-9, atol=0):
                bad("ml handed to the bias test is not the level means after the work-around with the prescribed alpha", i, got=c["ml"], expected=exp_ml)
            if abs(c["alpha"] - pres[0]) > 1e-9 * max(1.0, abs(pres[0])):
                bad("the bias test was run with a weak rate that is not the prescribed one (given if given, regressed from this run's level means otherwise)",
                    i, alpha_used=c["alpha"], alpha_prescribed=pres[0], configured=rates[0])
        if "alloc2" in it:
            b = it["alloc2"]
            if abs(b["vl"][-1] - a["vl"][-1] / 2 ** pres[1]) > 1e-9 * abs(a["vl"][-1]) or abs(b["cl"][-1] - a["cl"][-1] * 2 ** pres[2]) > 1e-9 * abs(a["cl"][-1]):
                bad("variance / cost extrapolated for the appended level do not use the prescribed beta / gamma", i,
                    got=[b["vl"][-1], b["cl"][-1]], expected=[a["vl"][-1] / 2 ** pres[1], a["cl"][-1] * 2 ** pres[2]], beta=pres[1], gamma=pres[2])
        cur = pres
    # the return itself
    last = its[-1]
    L = len(last["alloc"]["Nl"]) - 1
    if "alloc2" in last:
        return                                                  # fell out of the loop after appending a level: finding C06-fallthrough-exit, judged elsewhere
    small = all(max(0, n - m) <= 0.01 * m for n, m in zip(last["alloc"]["ns"], last["alloc"]["Nl"]))
    ml_test = exp_ml if flagged or "crit" not in last else last["crit"]["ml"]     # the level means of this run, after the prescribed work-around
    legit = small and "crit" in last and (L == level_max or bool(criteria_giles(cur[0], np.array(ml_test), rmse)))
    if len(final["Nl"]) - 1 > level_max or not legit:
        ctx.fail("oracle", "c06.return_reason", desc,
                 {"what": "Engine.price returned although, with the weak rate the configuration prescribes, the bias test does not pass, the maximum "
                          "level is not reached, or a level needs more than 1 % more samples", "L": L, "level_max": level_max,
                  "alpha_prescribed": cur[0], "alpha_used": last.get("crit", {}).get("alpha"), "small": small},
                 cls=dict(cls, fallthrough=False, level_just_added=False))
    else:
        ctx.branches[f"{br}:returns_judged"] += 1
        if L < level_max:
            ctx.branches[f"{br}:returned_on_bias_test"] += 1
    # the run as a whole: every level has (within the 1 % rule) its optimal size, so the estimator variance of the returned
    # statistics is within 1 % of the variance share of rmse^2 — whatever the unit in which the coupling expresses its costs
    V, N = np.array(final["vl"], dtype=float), np.array(final["Nl"], dtype=float)
    if np.all(N > 0) and np.all(np.isfinite(V)):
        share = float(ctx.gen["var_upper"]) if getattr(ctx, "gen", None) else 0.75
        tot = float(np.sum(V / N))
        if tot > 1.0101 * share * rmse * rmse * (1 + 1e-9):
            ctx.fail("oracle", "c06.alloc_budget", desc, {"what": f"Engine.price returned with estimator variance sum V_l/N_l = {tot} above 1.01 x the variance "
                                                                 f"share {share}*rmse^2 = {share * rmse * rmse}", "N": N.tolist(), "V": V.tolist(),
                                                         "C": [float(x) for x in final["cl"]]},
                     cls=dict(cls, zero_cost_positive_variance=False))
        else:
            ctx.branches[f"{br}:run_budget_judged"] += 1


# ------------------------------------------------------------------------------------------------ sequences of pricings in one process
# A HISTORY of the property's quantifier: several pricings one after the other in ONE interpreter, each set up the way a user sets
# it up (library defaults included).  One step = dict(
#   rates  [alpha, beta, gamma]  what the user asks for in this pricing (None = to be regressed),
#   how    how the rates reach the configuration: "default" (the `convergence_rates` argument is omitted), "none" (None is passed),
#          "fresh" (a new ConvergenceRates(...)), "shared" (the user's own ConvergenceRates object, one per triple, handed to every
#          configuration of the sequence that asks for this triple),
#   reuse  "new" (new configuration, engine, process), "cfg" (the previous configuration object, new engine and process),
#          "engine" (the previous engine object, given a new process),
#   keep   with reuse != "new": the user leaves `configuration.convergence_rates` alone (rates = those of the previous step),
#   crit   who builds the criteria object: "default" (argument omitted) or "passed" (ConvergenceCriteria(criteria_giles, compute_mc_paths_giles)),
#   decay, amp, spread, cost_unit  regime of the scripted process;  rmse, level_max;  L0, N0 (None = argument omitted: library default
#          2 / 100 for a new configuration, left as the user set it before on a reused one))
# Every sequence starts in a NEW interpreter state (forked from a process that has imported the library and never priced), so a
# sequence is its own complete history and replays exactly.
SEQ_TIMEOUT = 45


def _jf(x):
    return None if x is None else float(x)


def _rates_state(cr):
    return [_jf(cr.alpha), _jf(cr.beta), _jf(cr.gamma)]


def _cfg_state(cfg):
    cc = cfg.convergence_criteria
    ji = lambda x: None if x is None else int(x)               # numpy integer scalars are not JSON-able
    return dict(initial_level=ji(cfg.initial_level), maximum_level=ji(cfg.maximum_level), initial_mc_paths=ji(cfg.initial_mc_paths), seed=ji(cfg.seed),
                nb_of_processes=ji(cfg.nb_of_processes), rates_object=id(cfg.convergence_rates), rates=_rates_state(cfg.convergence_rates),
                criteria_object=id(cc), criteria_functions=[id(cc.criteria), id(cc.compute_mc_paths)],
                control_variates=type(cfg.control_variates).__name__)


def _run_sequence(steps):
    """runs the pricings of `steps` one after the other in THIS interpreter; returns one JSON-able record per step"""
    from rpylib.montecarlo.configuration import ConfigurationMultiLevel, ConvergenceRates
    from rpylib.montecarlo.multilevel.criteria import ConvergenceCriteria, compute_mc_paths_giles, criteria_giles
    from rpylib.montecarlo.multilevel.engine import Engine
    shared, prev, out = {}, None, []
    for sp in steps:
        rates, how, reuse = list(sp["rates"]), sp["how"], sp["reuse"] if prev is not None else "new"
        nk = sp.get("num") or {}                                # carriers of the numeric arguments of this pricing (see `_typed`)
        rk = nk.get("rates") or [None, None, None]
        rec = dict(default_before=_rates_state(ConfigurationMultiLevel().convergence_rates))

        def user_rates():
            new = lambda: ConvergenceRates(alpha=_typed(rates[0], rk[0]), beta=_typed(rates[1], rk[1]), gamma=_typed(rates[2], rk[2]))
            if how == "shared":
                if repr((rates, rk)) not in shared:
                    shared[repr((rates, rk))] = new()
                return shared[repr((rates, rk))]
            return new()

        coupling = DecayCoupling(sp["decay"], sp["spread"], cost_unit=sp.get("cost_unit", 1.0), amp=sp.get("amp", 1.0))
        user_obj = None
        if reuse == "new":
            kw = dict(maximum_level=_typed(sp["level_max"], nk.get("level_max")), nb_of_processes=1)
            if sp.get("L0") is not None:
                kw["initial_level"] = _typed(sp["L0"], nk.get("L0"))
            if sp.get("N0") is not None:
                kw["initial_mc_paths"] = _typed(sp["N0"], nk.get("N0"))
            if how == "none":
                kw["convergence_rates"] = None
            elif how != "default":
                user_obj = kw["convergence_rates"] = user_rates()
            if sp.get("crit") == "passed":
                kw["convergence_criteria"] = ConvergenceCriteria(criteria=criteria_giles, compute_mc_paths=compute_mc_paths_giles)
            cfg = ConfigurationMultiLevel(**kw)
            eng = Engine(configuration=cfg, coupling_process=coupling)
        else:
            cfg = prev["cfg"]
            cfg.maximum_level = _typed(sp["level_max"], nk.get("level_max"))
            if sp.get("L0") is not None:                    # None: the user leaves what he set before
                cfg.initial_level = _typed(sp["L0"], nk.get("L0"))
            if sp.get("N0") is not None:
                cfg.initial_mc_paths = _typed(sp["N0"], nk.get("N0"))
            if not sp.get("keep"):
                user_obj = cfg.convergence_rates = user_rates()
            else:
                rates = prev["rates"]
            if reuse == "engine":
                eng = prev["eng"]
                eng.coupling_process = coupling
            else:
                eng = Engine(configuration=cfg, coupling_process=coupling)
        rec["rates"] = rates
        # what the USER last set (None = never set: library default), whatever the configuration object holds by now
        rec["L0"] = sp["L0"] if sp.get("L0") is not None or reuse == "new" else prev["L0"]
        rec["N0"] = sp["N0"] if sp.get("N0") is not None or reuse == "new" else prev["N0"]
        # recording: the two callables of the configuration's criteria object are wrapped on the live object for the time of the pricing
        r = _Recorder()
        r.engine = eng
        cc = cfg.convergence_criteria
        orig = (cc.criteria, cc.compute_mc_paths)
        cc.criteria, cc.compute_mc_paths = r.crit(orig[0]), r.alloc(orig[1])
        before = _cfg_state(cfg)
        try:
            with warnings.catch_warnings():
                warnings.simplefilter("ignore")
                with np.errstate(all="ignore"):
                    st = eng.price(fe.identity_product(), rmse=_typed(sp["rmse"], nk.get("rmse")))
            res = st.mlmc_results
            rec["final"] = dict(Nl=[int(x) for x in res.Nl], ml=[float(x) for x in res.ml], vl=[float(x) for x in res.vl], cl=[float(x) for x in res.cl])
        except Exception as e:
            rec["raised"] = f"{type(e).__name__}: {e}"
        rec["cfg_before"], rec["cfg_after"] = before, _cfg_state(cfg)
        cfg.convergence_criteria.criteria, cfg.convergence_criteria.compute_mc_paths = orig
        rec["calls"] = r.calls
        rec["user_rates_after"] = None if user_obj is None else _rates_state(user_obj)
        rec["default_after"] = _rates_state(ConfigurationMultiLevel().convergence_rates)
        out.append(rec)
        prev = dict(cfg=cfg, eng=eng, rates=rates, L0=rec["L0"], N0=rec["N0"])
    return out


def _zygote_main():
    """`python -c "from harness.props import c06; c06._zygote_main()"`: imports everything, prices NOTHING itself; for every request
    line (a JSON list of steps) forks a child that runs the sequence and hands the records back — every sequence sees the
    interpreter state of a process that has just imported the library"""
    import json, os, signal, sys, traceback
    sys.stdout.write("ready\n")
    sys.stdout.flush()
    for line in sys.stdin:
        steps = json.loads(line)
        rfd, wfd = os.pipe()
        pid = os.fork()
        if pid == 0:
            os.close(rfd)
            os.dup2(2, 1)                                   # anything the library prints goes to stderr
            signal.alarm(SEQ_TIMEOUT)                       # "a pricing run always terminates"
            try:
                data = json.dumps({"records": _run_sequence(steps)})
            except BaseException as e:                      # noqa
                data = json.dumps({"error": f"{type(e).__name__}: {e}", "traceback": traceback.format_exc()})
            with os.fdopen(wfd, "w") as f:
                f.write(data)
            os._exit(0)
        os.close(wfd)
        with os.fdopen(rfd) as f:
            data = f.read()
        _, status = os.waitpid(pid, 0)
        if not data:
            data = json.dumps({"died": status, "timeout": os.WIFSIGNALED(status) and os.WTERMSIG(status) == signal.SIGALRM})
        sys.stdout.write(data.replace("\n", " ") + "\n")
        sys.stdout.flush()


class _Fresh:
    """client of the zygote; `run(steps)` = the records of the sequence run in a new interpreter state (cached)"""
    proc, cache, broken = None, {}, False

    @classmethod
    def run(cls, ctx, steps):
        import json, subprocess, sys
        key = json.dumps(steps, sort_keys=True)
        if key in cls.cache:
            return cls.cache[key]
        ans = None
        if not cls.broken:
            try:
                if cls.proc is None or cls.proc.poll() is not None:
                    cls.proc = subprocess.Popen([sys.executable, "-c", "from harness.props import c06; c06._zygote_main()"],
                                                stdin=subprocess.PIPE, stdout=subprocess.PIPE, text=True, cwd=str(cm.ROOT))
                    if cls.proc.stdout.readline().strip() != "ready":
                        raise RuntimeError("zygote did not start")
                cls.proc.stdin.write(key + "\n")
                cls.proc.stdin.flush()
                ans = json.loads(cls.proc.stdout.readline())
                ctx.branches["c06.sequence:forked_interpreter"] += 1
            except Exception as e:                          # noqa: no fork / no subprocess here: run in this interpreter
                cls.broken = True
                ctx.notes.append(f"c06: sequences run inside the harness process (fork unavailable: {e!r})")
        if ans is None:
            ctx.branches["c06.sequence:inprocess_fallback"] += 1
            ans = {"records": _run_sequence(steps)}
        cls.cache[key] = ans
        return ans


def _as_first(sp, rec):
    """the same pricing as a user's FIRST pricing of a process"""
    rates = rec["rates"]
    d = dict(sp, rates=list(rates), reuse="new", keep=False, L0=rec["L0"], N0=rec["N0"])
    if d["how"] in ("default", "none") and any(r is not None for r in rates):
        d["how"] = "fresh"
    return d


def sequence_probe(ctx, steps, tag):
    """S: EVERY pricing of the sequence is judged exactly as a single pricing is (`_judge_rates` with the rates the user asked for in
    that pricing; engine raises; termination).  Tie: the records of pricing k equal those of the same pricing done first in a new
    interpreter (nothing of a pricing may depend on the pricings before it); no pricing changes the objects the user handed over,
    the configuration, or the library's shared default `ConvergenceRates()`."""
    desc = dict(steps=steps)
    ans = _Fresh.run(ctx, steps)
    ctx.count("c06.sequence", desc, nontrivial=len(steps) >= 2, branch=tag)
    if "records" not in ans:
        if ans.get("timeout"):
            ctx.fail("oracle", "c06.sequence.no_termination", desc, {"what": f"the sequence of pricings did not end within {SEQ_TIMEOUT} s"}, cls=dict(kind=tag))
        else:
            raise cm.Infra(f"c06 sequence runner failed: {ans}")
        return
    for k, (sp, rec) in enumerate(zip(steps, ans["records"])):
        rates = rec["rates"]
        d = dict(desc, step=k)
        cls = dict(kind=tag, pattern="".join("g" if r is not None else "N" for r in rates), step=k, first=k == 0, how=sp["how"],
                   reuse=sp["reuse"] if k else "new", keep=bool(sp.get("keep")) and k > 0)
        if sp.get("num"):
            cls["typed"] = True
        ctx.branches[f"c06.sequence.step:{cls['how']}/{cls['reuse']}/{'first' if k == 0 else 'later'}"] += 1
        if "raised" in rec:
            ctx.fail("oracle", "c06.engine_raises", d, {"what": rec["raised"]}, cls=cls)
            break
        _judge_rates(ctx, d, cls, rates, sp["rmse"], sp["level_max"], rec["calls"], rec["final"], br="c06.sequence")
        # nothing the user handed over, nothing shared, is changed by a pricing
        changed = {}
        if rec["default_after"] != rec["default_before"]:
            changed["rates of a configuration built without rates (shared default ConvergenceRates())"] = [rec["default_before"], rec["default_after"]]
        if rec["cfg_after"] != rec["cfg_before"]:
            changed["configuration"] = {a: [rec["cfg_before"][a], rec["cfg_after"][a]] for a in rec["cfg_before"] if rec["cfg_before"][a] != rec["cfg_after"][a]}
        if rec["user_rates_after"] is not None and rec["user_rates_after"] != [_jf(r) for r in rates]:
            changed["the user's ConvergenceRates object"] = [rates, rec["user_rates_after"]]
        if changed:
            ctx.fail("corr", "c06.sequence.mutation", d, {"name": "the model's price is a function of the configuration and leaves it alone; Engine.price changed "
                                                                  "objects that outlive the pricing", "impl": changed, "model": "unchanged"}, cls=cls)
        # the same VALUES in the canonical numeric carriers, as the first pricing of a new interpreter
        if sp.get("num") and "final" in rec:
            for kd in json_flat(sp["num"]):
                ctx.branches[f"c06.sequence.carrier:{kd}"] += 1
            d0 = _as_first(sp, rec)
            d0.pop("num")
            ref = _Fresh.run(ctx, [d0])
            if "records" in ref and "final" in ref["records"][0]:
                r0 = ref["records"][0]
                if _same_pricing(rec["calls"], rec["final"], r0["calls"], r0["final"]):
                    ctx.branches["c06.sequence:equals_canonical_carriers"] += 1
                else:
                    crit = lambda cs: [[c["alpha"], c["verdict"]] for c in cs if c["kind"] == "criteria"]
                    ctx.fail("corr", "c06.numeric_type", d, {"name": "the model's price is a function of the values: a pricing with equal values in other numeric carriers",
                                                             "impl": dict(Nl=rec["final"]["Nl"], ml=rec["final"]["ml"], bias_tests=crit(rec["calls"])),
                                                             "model": dict(Nl=r0["final"]["Nl"], ml=r0["final"]["ml"], bias_tests=crit(r0["calls"]))}, cls=cls)
        # the same pricing as the first pricing of a new interpreter
        if k > 0:
            ref = _Fresh.run(ctx, [_as_first(sp, rec)])
            if "records" not in ref or "final" not in ref["records"][0]:
                continue                                        # judged when it is itself generated as a one-step sequence
            r0 = ref["records"][0]
            same = (r0["final"]["Nl"] == rec["final"]["Nl"]
                    and all(np.allclose(r0["final"][q], rec["final"][q], rtol=1e-12, atol=0, equal_nan=True) for q in ("ml", "vl", "cl"))
                    and [c["alpha"] for c in r0["calls"] if c["kind"] == "criteria"] == [c["alpha"] for c in rec["calls"] if c["kind"] == "criteria"])
            if same:
                ctx.branches["c06.sequence:equals_first_pricing"] += 1
            else:
                ctx.fail("corr", "c06.sequence.fresh", d, {"name": "pricing k of a sequence vs the same pricing done first in a new interpreter",
                                                           "impl": dict(Nl=rec["final"]["Nl"], ml=rec["final"]["ml"],
                                                                        alphas=[c["alpha"] for c in rec["calls"] if c["kind"] == "criteria"]),
                                                           "model": dict(Nl=r0["final"]["Nl"], ml=r0["final"]["ml"],
                                                                         alphas=[c["alpha"] for c in r0["calls"] if c["kind"] == "criteria"])}, cls=cls)


GIVEN_RATES = [(1.0, 2.0, 1.0), (2.0, 2.0, 1.0), (1.0, 1.0, 2.0)]
DECAYS = [0.5, 0.75, 1.0, 1.5, 2.0, 2.5]


def _step(rates, how, reuse, decay, keep=False, crit="default", amp=1.0, spread=1.0 / 16, rmse=1 / 128, level_max=8, L0=None, N0=20):
    return dict(rates=list(rates), how=how, reuse=reuse, keep=keep, crit=crit, decay=decay, amp=amp, spread=spread, rmse=rmse,
                level_max=level_max, L0=L0, N0=N0)


def gen_sequence(rng, n=None, p_none=0.5, p_typed=0.5):
    """random sequence of 2..4 pricings: None / partial / given rates, every way of handing them over, new or reused configuration /
    engine objects, a different decay regime in every pricing"""
    n = n or rng.randint(2, 4)
    steps, prev = [], None
    for k in range(n):
        if rng.random() < p_none:
            rates = (None, None, None)
        else:
            g, pat = rng.choice(GIVEN_RATES), rng.randrange(1, 8)
            rates = tuple(x if (pat >> i) & 1 else None for i, x in enumerate(g))
        reuse = "new" if k == 0 else rng.choice(["new", "new", "cfg", "engine"])
        keep = reuse != "new" and rng.random() < 0.5
        if keep:
            rates = tuple(prev["rates"])
        allnone = all(r is None for r in rates)
        how = rng.choice(["fresh", "shared"] + (["none"] if allnone else []) + (["default", "default"] if allnone and reuse == "new" else []))
        decay = rng.choice([d for d in DECAYS if prev is None or d != prev["decay"]])
        sp = _step(rates, how, reuse, decay, keep=keep, crit=rng.choice(["default", "passed"]), amp=rng.choice([1.0, 1.0, 0.25, 2.0]),
                   spread=rng.choice([1.0 / 16, 1.0 / 8]), rmse=rng.choice([1 / 64, 1 / 128]), level_max=rng.randint(4, 8),
                   L0=rng.choice([None, None, 3]), N0=rng.choice([20, 20, 50, None]))
        if rng.random() < p_typed:                              # the same values in other numeric carriers
            sp["num"] = _gen_num(rng, rates=None if keep else rates, rmse=sp["rmse"], level_max=sp["level_max"], L0=sp["L0"], N0=sp["N0"])
        steps.append(sp)
        prev = sp
    return steps


def directed_sequences():
    """two pricings without rates (then with a partial pattern), fast -> slow and slow -> fast decay, for every way of handing the
    rates over x every kind of object reuse"""
    for how in ("default", "none", "fresh", "shared"):
        for reuse in ("new", "cfg", "engine"):
            for d1, d2 in ((2.0, 0.5), (0.5, 2.0)):
                for keep in ((False, True) if reuse != "new" else (False,)):
                    how2 = how if reuse == "new" or how != "default" else "none"
                    yield [_step((None, None, None), how, "new", d1, level_max=7), _step((None, None, None), how2, reuse, d2, keep=keep, level_max=7)]
    for rates in ((None, 2.0, 1.0), (1.0, None, None), (None, None, 1.0)):
        for reuse in ("new", "cfg", "engine"):
            yield [_step(rates, "shared", "new", 2.0, level_max=7), _step(rates, "shared", reuse, 0.75, keep=reuse == "cfg", level_max=7),
                   _step((None, None, None), "default", "new", 1.5, level_max=7)]


def run(ctx):
    rng = ctx.rng
    if not getattr(ctx, "gen", None):
        return
    g = ctx.gen
    # the budget split itself, on the implementation (S): bias share + variance share <= 1
    ctx.count("c06.budget", {k: str(v) for k, v in g.items()})
    if float(g["bias_share"] + g["var_lower"]) > 1 + 1e-6:
        ctx.fail("oracle", "c06.budget_split", {k: str(v) for k, v in g.items()},
                 {"what": f"accepted squared bias {float(g['bias_share'])} rmse^2 + variance share {float(g['var_lower'])} rmse^2 > rmse^2",
                  "how": "criteria_giles accepts rem = bias_threshold*rmse; compute_mc_paths_giles(2^-10,[1],[1]) = N_unit"})
    dy = lambda lo, hi, bits=6: rng.randint(lo * 2 ** bits, hi * 2 ** bits) / 2 ** bits
    for _ in range(ctx.n(300, 6000)):
        n = rng.randint(1, 8)
        v = [dy(0, 4) if rng.random() < 0.85 else 0.0 for _ in range(n)]
        c = [max(dy(0, 16), 1 / 64) for _ in range(n)]
        if rng.random() < 0.2:
            v = sorted(v, reverse=True)
            c = sorted(c)
        if rng.random() < 0.1:
            v[rng.randrange(n)] *= 2.0 ** rng.randint(5, 12)
        rmse = 2.0 ** -rng.randint(1, 8) * rng.choice([1.0, 1.5, 1.25])
        alloc_probe(ctx, v, c, rmse, "positive_cost")
    for _ in range(ctx.n(40, 400)):
        n = rng.randint(2, 6)
        v = [dy(0, 4) for _ in range(n)]
        c = [max(dy(0, 16), 1 / 64) for _ in range(n)]
        c[rng.randrange(n)] = 0.0
        alloc_probe(ctx, v, c, 2.0 ** -rng.randint(2, 7), "zero_cost")
    # the unit of cost is arbitrary: the same inputs with all costs multiplied by tiny / huge positive factors
    for _ in range(ctx.n(25, 400)):
        n = rng.randint(1, 6)
        v = [max(dy(0, 4), 1 / 64) if rng.random() < 0.85 else 0.0 for _ in range(n)]
        c = [max(dy(0, 16), 1 / 64) for _ in range(n)]
        alloc_scaled(ctx, v, c, 2.0 ** -rng.randint(1, 6) * rng.choice([1.0, 1.5]))
    for _ in range(ctx.n(200, 4000)):
        alpha = float(rng.choice([1, 1, 2, 3]))
        rmse = 2.0 ** -rng.randint(1, 8)
        base = rmse * rng.choice([0.1, 0.4, 0.5, 0.6, 1.0, 2.0]) * (2 ** alpha - 1)
        ml = [base * rng.choice([0.5, 1, 2, 4, 8]) * (1 + dy(-1, 1, 10) / 8) for _ in range(3)]
        ml = [abs(x) for x in ml]
        criteria_probe(ctx, alpha, ml, rmse)
        # the same values in other numeric carriers (the rate as int / numpy scalar / 0-d array, the means as list / tuple / float32 array ...)
        for _ in range(2):
            criteria_probe(ctx, alpha, ml, rmse, num=dict(alpha=_pick(rng, alpha, REAL_KINDS), ml=_pick(rng, ml, VECTOR_KINDS), rmse=_pick(rng, rmse, REAL_KINDS)))
    # all-integral values (every carrier holds them): means 0..16, rmse 1..8, every carrier of alpha at least once per vector kind
    for i in range(ctx.n(120, 2400)):
        alpha, rmse = rng.choice([1, 1, 2, 3]), rng.choice([1, 2, 4, 8])
        ml = [rng.randint(0, 16) for _ in range(rng.randint(3, 6))]
        num = dict(alpha=REAL_KINDS[i % len(REAL_KINDS)], ml=_pick(rng, ml, VECTOR_KINDS), rmse=_pick(rng, rmse, REAL_KINDS))
        criteria_probe(ctx, alpha, ml, rmse, num=num)
    # the allocation on equal values in other dtypes (declared np.array: ndarray carriers only), rmse integral or dyadic
    for _ in range(ctx.n(150, 3000)):
        n = rng.randint(1, 6)
        v = [rng.randint(0, 12) if rng.random() < 0.85 else 0 for _ in range(n)]
        c = [rng.randint(1, 15) for _ in range(n)]
        if rng.random() < 0.1:
            c[rng.randrange(n)] = 0
        rmse = rng.choice([1, 2, 2.0 ** -rng.randint(1, 4), 1.5])
        V, C = [x * x for x in v], [x * x for x in c]
        alloc_typed(ctx, v, c, rmse, dict(vl=_pick(rng, V, NDARRAY_KINDS), cl=_pick(rng, C, NDARRAY_KINDS if rng.random() < 0.3 else ["np.float64", "np.float32"]),
                                         rmse=_pick(rng, rmse, REAL_KINDS)))
    for _ in range(ctx.n(80, 1500)):
        level_max = rng.randint(1, 8)
        L0 = rng.randint(0, min(4, level_max))
        N0 = rng.choice([1, 2, 3, 5, 10, 20, 40])
        loop_probe(ctx, L0, N0, level_max, c05.gen_history(rng, L0, N0, level_max), "random")
    # all 8 None/given patterns of the public ConvergenceRates, level means decaying slower / as fast as / faster than the configured alpha
    for pat in range(8):
        for decay, given in ((1.5, (1.0, 2.0, 1.0)), (1.0, (2.0, 2.0, 1.0)), (2.5, (1.0, 1.0, 2.0)))[:ctx.n(2, 3)]:
            rates = tuple(g if (pat >> i) & 1 else None for i, g in enumerate(given))
            for rmse in ((1 / 64, 1 / 256) if ctx.thorough else (1 / 128,)):
                rates_probe(ctx, rates, decay, rmse, 8, "rates")
    # the same pricings with the numeric arguments in other carriers: the rates written as a user writes them (ConvergenceRates(1, 2, 1)),
    # as numpy integers / float32 / 0-d arrays; rmse, levels and path numbers likewise; level means decaying faster / slower than alpha
    typed = [((1.0, 2.0, 1.0), 1.5, dict(rates=["int", "int", "int"])), ((1.0, 2.0, 1.0), 2.0, dict(rates=["np.int64", "np.int64", "np.int64"])),
             ((2.0, 2.0, 1.0), 1.0, dict(rates=["int", "float", "int"], level_max="np.int64", N0="np.int32", L0="np.uint8")),
             ((1.0, None, None), 2.5, dict(rates=["int", None, None], rmse="np.float32")), ((1.0, 1.0, 2.0), 2.5, dict(rates=["0d.int", "np.float32", "np.uint8"], rmse="0d.float"))]
    for given, decay, num in typed:
        rates_probe(ctx, given, decay, 1 / 128, 8, "rates_typed", num=num)
    for _ in range(ctx.n(10, 120)):
        given, pat = rng.choice(GIVEN_RATES), rng.choice([1, 3, 5, 7, 7, rng.randrange(1, 8)])
        rates = tuple(g if (pat >> i) & 1 else None for i, g in enumerate(given))
        rmse, level_max = rng.choice([1 / 64, 1 / 128]), rng.randint(5, 8)
        rates_probe(ctx, rates, rng.choice(DECAYS), rmse, level_max, "rates_typed", num=_gen_num(rng, rates=rates, rmse=rmse, level_max=level_max, L0=2, N0=20))
    # the real loop with the real Giles criteria and a coupling that expresses its costs in tiny / huge units
    for unit in (2.0 ** -40, 1e-9, 1e-12, 2.0 ** 20, 2.0 ** -10):
        for decay in ((1.5, 1.0) if ctx.thorough else (1.5,)):
            rates_probe(ctx, (1.0, 2.0, 1.0), decay, 1 / 128, 8, "cost_unit", cost_unit=unit)
    # directed: the fall-through exit (level added whose optimal size is already met)
    for L0 in (0, 1, 2):
        hist = [([5] * (L0 + 1), False, [5] * (L0 + 1) + [0]), ([0] * 12, True, [0] * 12)]
        loop_probe(ctx, L0, 5, L0 + 3, hist, "fallthrough_directed")
    # histories: sequences of pricings in one interpreter, every pricing judged as a single one
    for steps in directed_sequences():
        sequence_probe(ctx, steps, "sequence_directed")
    for _ in range(ctx.n(30, 300)):
        sequence_probe(ctx, gen_sequence(rng), "sequence_random")


def search(ctx):
    """extended oracle-only search when only the tie broke"""
    rng = ctx.rng
    for _ in range(4000):
        n = rng.randint(1, 8)
        v = [rng.randint(0, 256) / 64 for _ in range(n)]
        c = [max(rng.randint(0, 1024) / 64, 1 / 64) for _ in range(n)]
        alloc_probe(ctx, v, c, 2.0 ** -rng.randint(1, 8), "search")
    for _ in range(150):
        sequence_probe(ctx, gen_sequence(rng, p_none=0.75), "sequence_search")


def replay(ctx, rec):
    d = rec["input"]
    if not getattr(ctx, "gen", None):
        return
    if "steps" in d:
        sequence_probe(ctx, d["steps"], rec.get("cls", {}).get("kind", "replay"))
    elif "num" in d and "v" in d:
        alloc_typed(ctx, d["v"], d["c"], d["rmse"], d["num"])
    elif "cost_scale" in d:
        alloc_scaled(ctx, d["v"], d["c"], d["rmse"])
    elif "v" in d:
        alloc_probe(ctx, d["v"], d["c"], d["rmse"], rec.get("cls", {}).get("kind", "replay"))
    elif "ml" in d:
        criteria_probe(ctx, d["alpha"], d["ml"], d["rmse"], num=d.get("num"))
    elif "decay" in d:
        rates_probe(ctx, tuple(d["rates"]), d["decay"], d["rmse"], d["level_max"], rec.get("cls", {}).get("kind", "replay"),
                    cost_unit=d.get("cost_unit", 1.0), num=d.get("num"))
    elif "history" in d:
        loop_probe(ctx, d["L0"], d["N0"], d["level_max"], [(a, b, c) for a, b, c in d["history"]], rec.get("cls", {}).get("kind", "replay"))
