"""C02 — Every state sampler realises exactly the target law, independent of call history (DESIGN.md §4 C02).

Streams: (i) dyadic probability vectors to implementation and model (tables, cells, draws: exact);
(ii) real chains through the public factory for every sampling method (law of the implementation as a function of u,
Riemann-exact on the cells predicted by M from the tables extracted from the implementation; copula chains in dimension
2, 3 (4 in thorough) for the inversion sampler, plus a lattice of uniforms independent of M's cells);
(iii) draw histories (inversion memo / storage cap / skip pointer, lru-cached adapted samplers) against fresh instances;
(iv) the batch entry point `sample(size)` against the single-uniform entry point.
"""
from __future__ import annotations

import itertools
import random as pyrandom
from fractions import Fraction

import numpy as np

from .. import zoo
from ..common import w, wl, rd, rdl, fr

from rpylib.distribution.sampling import SamplingMethod
from rpylib.distribution.samplingfactory import create_q_vector
from rpylib.distribution.variate import huffmantree as hf
from rpylib.distribution.variate import table as tablemod
from rpylib.distribution.variate.alias import AliasMethod
from rpylib.distribution.variate.binarysearchtree import BinarySearchTree
from rpylib.distribution.variate.huffmantree import HuffmanTree
from rpylib.distribution.variate.table import TableMethod
from rpylib.process.markovchain.markovchain import MarkovChainProcess
from rpylib.process.markovchain.markovchainlevycopula import MarkovChainLevyCopula

RULE = ("(i) dyadic: probability vectors with 2..64 (thorough ..512) entries that are multiples of 2^-12 (zeros, ties, one dominant entry, "
        "uniform) x {alias, table, bst, huffman}; (ii) factory: zoo.model_stream x six grid constructors x the 6 one-dimensional "
        "SamplingMethods, 2-d copula chains x {INVERSION, BINARYSEARCHTREEADAPTED} and 3-d copula chains x BINARYSEARCHTREEADAPTED "
        "(one 5^3 grid in quick, up to 9^3 in thorough), the n-d sampler against M's AdaptedNd model fed with the extracted buckets and "
        "the box masses the implementation computes; n-d INVERSION chains for d >= 3 (factory pairing = n-dimensional Rosenberg-Strong, "
        "which is not increasing along a grid line): every run one chain per copula {independent, clayton, dependent} on a 5^3 fixed-size "
        "box, a 7^3 credit grid whose origin is off the middle (4 points left / 2 right, pairing indices skipped) and a 7^3 box or 9^3 "
        "symmetric credit grid; thorough adds 5^3..9^3 boxes, both credit grids and 3^4 / 5^4 boxes for every copula; reference = C14's "
        "pure zdProject enumeration with the factory's pairing kind of that dimension, carried on until every state of the grid box has "
        "appeared (independent of the sampler's own enumeration bound); every copula chain is additionally asked, on a never-used "
        "instance and in random order, a lattice of uniforms that does not come from M's cells (odd multiples of 1/(2K), K = 192 / 1024, "
        "and 2^-k, 1 - 2^-k): state in the box, not the origin, positive probability, no `np.random.choice` fallback below the total "
        "mass, same answer as the swept instance; (iii) random interleavings with repetition of sample_with_u calls, _max_storage "
        "lowered; (iv) sample(size) with a prescribed uniform vector; (v) cross-instance histories: two to four sampler objects (same and "
        "mixed methods) built on IDENTICAL models/grids in one process (two fixed asymmetric HEM uniform grids, random chains; 2-d/3-d "
        "copula chains), the first inversion sampler draws to a pairing index past the switch 2*min(L,R) but not to the end, then a "
        "freshly built sampler is swept and judged against q/lambda, then draws are interleaved between all objects (increasing depth "
        "alternating between two new objects, then random); references are pure (M's z1dProject / zdProject enumeration, no `project` "
        "call on any pairing object); (vi) hand-built grids CTMCGrid(h, origin_coordinate, axes) whose axes have DIFFERENT numbers of points "
        "(2 or 3 axes, 2..4 points left of the origin on every axis - the constructor takes one origin coordinate - and 1..6 points on the "
        "right, pairwise different per axis, uniform or geometric spacing per axis): every run both copula samplers in 2-d once with the "
        "longest axis first and once with it last, the adapted sampler on one 3-d grid, one equal-length hand-built control (thorough: six "
        "more grids x both samplers); the target law on these grids is computed from the axis lists of the description alone (cell of a "
        "state = midpoints to its own axis' neighbours), all of streams (ii)-(v) of a copula chain apply. "
        "non-trivial = at least 3 states of positive probability; distinct = distinct (stream, method, vector / chain description)")
NOT_PROVED = [
    "alias: Alias.build_law is a theorem about the exact-arithmetic model of `create_alias`; in floats the two clean-up loops may overwrite "
    "entries that differ from 1 by rounding - covered by the extra certificate path (proved Alias.draw_spec + law_of_cells applied to the "
    "(J, q) the implementation built, 2^-40) and the exact comparison of M's `build` with the implementation's (J, q) on the dyadic stream",
    "binary search tree: Bst.build_law (in-order construction as coded gives cells of total length p_k, all K, all p >= 0 with sum 1) is now "
    "PROVED for the exact-arithmetic model; float accumulation of the thresholds is compared (cells of the implementation's array, 2^-40)",
    "table method: Table.build_law is now unconditional for the stated idealisation (slot uniform on 256 values independent of a continuous "
    "residual uniform): slot counts of `slotsOf`, 256 slots, residual vector theta/sum(theta) and its alias are all proved; the 2^32-point "
    "lattice of the real 32-bit integer is not analysed (Table.low_byte_shift bounds the shift by 2^-24); float: int(256 p) and theta "
    "are compared exactly on the dyadic stream",
    "inversion: history independence + draw spec are proved (a) when no pairing index below the frontier maximum is outside the grid, for "
    "every storage cap >= 1 (all 1-d chains, equal-sided boxes: Inversion.history_independent) and (b) for ANY pattern of skipped pairing "
    "indices when the number of admissible states is below the storage cap (Inversion.history_independent_skip / draw_spec_skip: every "
    "real grid with the default cap 10^6); NOT proved: skipped indices AND cap reached - false in general (negation witness skipEnv, "
    "known finding C02-inversion-cap-reset-with-skipped-indices), true when all skipped indices lie beyond the cap (only compared)",
    "n-dimensional adapted binary search: AdaptedNd.draw_spec / cells_cover / cells_disjoint are proved for ARBITRARY tables and box-mass "
    "function M; AdaptedNd.build_law (the tables `_pre_computation` builds - 3^d - 1 product buckets, cumulated masses, axis vectors - give "
    "every grid state other than the origin cells of total length M(point s), the origin / outside states nothing) and build_zero_never "
    "are proved in exact arithmetic under the hypotheses that M is non-negative and additive under midpoint cuts and that the origin is "
    "strictly inside every axis; additivity of the real joint mass is C01/C04/C19's subject and is only measured here on the extracted "
    "tables (branch c02.adnd.additive_and_consistent_defect); float slivers at bucket boundaries are a known finding; cross-instance "
    "independence is only tested (stream v), the model has no shared state by construction",
    "1-d adapted bisection: draw_spec proved for a cell-mass table `w` with P(l,r) = sum of w; additivity of the real mass is C01/C09",
    "n-d inversion (d >= 2): that the enumeration bound `StatesManager.max_frontier_indices` reaches the largest pairing index of a state "
    "inside the grid is NOT proved for the factory's pairings (for Rosenberg-Strong in d >= 3 the largest index of a frontier state is "
    "strictly smaller - the defect fixed in /repo 94bedf1); M takes the implementation's bound as an input and mirrors it, the oracle "
    "(law of u against joint cell mass / lambda over ALL states of the box, lattice of uniforms, fallback never reached) is what sees a "
    "bound that is too small: 2-d, 3-d every run, 4-d in thorough, measured on the grids of the run only; a lost mass below 2^-36 is not "
    "seen (e.g. dependent copula on the asymmetric 3-d credit grid: 3e-21)",
    "grids whose axes have different numbers of points: nothing new is proved - AdaptedNd.build_law is already stated for one size per axis "
    "(`os.zip ns`), the tie adnd-build / adnd-cells / adnd-draw and the law oracle are now also run on such grids (hand-built CTMCGrid, "
    "dimension 2 and 3; the cache-strategy flag `low_nb_of_pts`, which reads len(axes[0]), is mirrored, it does not change the law)",
    "floating point: thresholds are compared at cell midpoints and at boundaries +- 2^-30 width; u exactly on a boundary is a don't-care point",
]
ASSUMPTIONS = ["float sums of a probability vector differ from 1 by a few ulps: the sliver [sum p, 1) of length < 2^-40 (sent to the last leaf / last "
               "column / a frontier state by the implementations) is not judged (copula chains: lattice uniforms stop at min(1, total mass) - 2^-34, "
               "the joint masses of a copula model add up to lambda only to ~1e-15 * number of states)",
               "the uniform source (numpy.random.uniform / random.getrandbits) is uniform",
               "PairingToZ1d.project is a pure function of its index as long as the sampler is its only caller (increasing first calls); "
               "stream (v) tests exactly this across sampler objects, against the pure enumeration of M",
               "functools.lru_cache / functools.cache are memos of pure functions (tested across objects in stream v, not proved)",
               "n-d adapted sampler: cells narrower than 2^-46 (float slivers between an axis vector's last entry and the bucket mass, where "
               "the code returns the index one past the bucket) are not judged"]
TRUSTED = ["bisect.bisect_left, numpy.searchsorted (first index with entry >= u on a sorted list)",
           "C14's Lean model of PairingToZ1d / PairingToZd enumeration order (used as the pure reference of the inversion sampler; Szudzik in "
           "dimension 2, the n-dimensional Rosenberg-Strong pairing `rs` from dimension 3 on, as chosen in samplingfactory.py:148-155)"]

E30 = Fraction(1, 2 ** 30)
TOL = Fraction(1, 2 ** 40)


# ------------------------------------------------------------------------------------------------ helpers
def parse_cells(tok):
    inner = tok.strip()[1:-1]
    out = []
    if inner:
        for part in inner.split(";"):
            s, lo, hi = part.split(",")
            out.append((int(s), Fraction(lo), Fraction(hi)))
    return out


def probe_points(lo, hi):
    """floats strictly inside (lo, hi): midpoint and the two boundaries moved inside by 2^-30 width (by a quarter for
    narrow cells); [] for cells too narrow to be resolved by doubles (excluded, their length is reported)"""
    wd = hi - lo
    if wd < Fraction(1, 2 ** 46):
        return []
    off = wd * E30 if wd >= Fraction(1, 2 ** 14) else wd / 4
    pts = []
    for x in ((lo + hi) / 2, lo + off, hi - off):
        f = float(x)
        if lo < Fraction(f) < hi and f not in pts:
            pts.append(f)
    return pts


def tiles(cells, lo=Fraction(0), hi=Fraction(1), tol=Fraction(0)):
    """cells (with empty ones dropped) are contiguous from lo to hi"""
    cur = lo
    for _, a, b in cells:
        if b <= a:
            continue
        if abs(a - cur) > tol:
            return False
        cur = b
    return abs(cur - hi) <= tol


def law_from_cells(ctx, cells, impl, key=lambda s: s):
    """Riemann-exact law of the implementation: every cell predicted by M is probed at its inside points; the cell's
    length is credited to the state the *implementation* returns at the midpoint.  Parts of [0,1) not covered by M's
    cells (only when the tie is broken) are probed at their midpoint too, so that the measured law stays a law.
    Returns (law dict, mismatches, excluded length)."""
    law, bad, excluded = {}, [], Fraction(0)
    for s, lo, hi in cells:
        if hi <= lo:
            continue
        pts = probe_points(lo, hi)
        if not pts:
            excluded += hi - lo
            ctx.excluded_small_margin += 1
            continue
        got = [impl(u) for u in pts]
        law[got[0]] = law.get(got[0], Fraction(0)) + (hi - lo)
        for u, g in zip(pts, got):
            if g != key(s):
                bad.append({"u": u, "impl": str(g), "model_cell": [str(key(s)), str(lo), str(hi)]})
    cur = Fraction(0)
    for lo, hi in sorted((lo, hi) for _, lo, hi in cells if hi > lo) + [(Fraction(1), Fraction(1))]:
        if lo - cur > TOL:
            pts = probe_points(cur, lo)
            if pts:
                g = impl(pts[0])
                law[g] = law.get(g, Fraction(0)) + (lo - cur)
        cur = max(cur, hi)
    return law, bad, excluded


class Patch:
    """temporarily replace an attribute"""

    def __init__(self, obj, name, new):
        self.obj, self.name, self.new = obj, name, new

    def __enter__(self):
        self.old = getattr(self.obj, self.name)
        setattr(self.obj, self.name, self.new)

    def __exit__(self, *a):
        setattr(self.obj, self.name, self.old)


def ident(k):
    return np.array(k)


def huff_serial(node):
    shape, vals = [], []

    def rec(n):
        if n.is_leaf:
            shape.append(int(n.state))
            vals.append(float(n.value))
        else:
            shape.append(-1)
            rec(n.left_node)
            rec(n.right_node)
    rec(node)
    return shape, vals


def ilist(xs):
    return "[" + ",".join(str(int(x)) for x in xs) + "]"


# ------------------------------------------------------------------------------------------------ (i) dyadic stream
def dyadic_vector(rng, nmax):
    n = rng.choice([2, 3, 4, 5, 7, 8, 16, 33, 64] + [rng.randint(2, nmax)] * 4)
    n = min(n, nmax)
    bits = 12
    tot = 2 ** bits
    kind = rng.choice(["random", "zeros", "ties", "dominant", "uniform", "tiny"])
    if kind == "uniform" and tot % n == 0:
        ws = [tot // n] * n
    else:
        if kind == "uniform":
            kind = "random"
        raw = [rng.random() for _ in range(n)]
        if kind == "zeros":
            for i in rng.sample(range(n), max(1, n // 3)):
                raw[i] = 0.0
            if not any(raw):
                raw[0] = 1.0
        if kind == "ties":
            v = rng.random()
            for i in rng.sample(range(n), max(2, n // 2)):
                raw[i] = v
        if kind == "dominant":
            raw[rng.randrange(n)] = 20.0 * n
        if kind == "tiny":
            for i in rng.sample(range(n), max(1, n // 2)):
                raw[i] *= 1e-3
        s = sum(raw)
        ws = [int(tot * r / s) for r in raw]
        ws[max(range(n), key=lambda i: ws[i])] += tot - sum(ws)
    return kind, [wi / tot for wi in ws]


def dyadic_case(ctx, method, kind, p):
    d = {"stream": "dyadic", "method": method, "p": p}
    P = [fr(x) for x in p]
    n = len(p)
    cls = {"stream": "dyadic", "method": method, "kind": kind,
           "all_multiples_of_1_256": all((256 * x).denominator == 1 for x in P)}
    ctx.count("c02.dyadic", d, nontrivial=sum(1 for x in p if x > 0) >= 3, branch=f"{method}:{kind}")
    arr = np.array(p, dtype=float)
    # ---- build on both sides, compare tables
    try:
        if method == "alias":
            s = AliasMethod(arr, ident)
            single = lambda u: int(s._draw_with_u(u))
            mj, mq = ctx.lean(f"alias-build {wl(p)}").split(" ")
            if [int(x) for x in s.J] != [int(x) for x in rdl(mj)] or [fr(x) for x in s.q] != rdl(mq):
                ctx.fail("corr", "c02.dyadic.tables", d, {"name": "Alias.build vs create_alias", "impl": [list(map(int, s.J)), list(map(float, s.q))],
                                                         "model": [mj, mq]}, cls=cls)
            cells = parse_cells(ctx.lean(f"alias-cells {ilist(s.J)} {wl(s.q)}"))
            mdraw = lambda us: ctx.lean(f"alias-draw {ilist(s.J)} {wl(s.q)} {wl(us)}")
        elif method == "bst":
            s = BinarySearchTree(arr, ident)
            single = lambda u: int(s.sample_with_u(u))
            mb = ctx.lean(f"bst-build {wl(p)}")
            if [fr(x) for x in s.bst[:n - 1]] != rdl(mb):
                ctx.fail("corr", "c02.dyadic.tables", d, {"name": "Bst.build vs create_binary_search_tree", "impl": list(map(float, s.bst)), "model": mb}, cls=cls)
            cells = parse_cells(ctx.lean(f"bst-cells {wl(s.bst[:n - 1])}"))
            mdraw = lambda us: ctx.lean(f"bst-draw {wl(s.bst[:n - 1])} {wl(us)}")
        elif method == "huffman":
            s = HuffmanTree(arr, ident)
            single = lambda u: int(hf.sample_with_u(u, s.head)[0])
            shape, vals = huff_serial(s.head)
            ms = ctx.lean(f"huff-build {wl(p)}")
            if ilist(shape) != ms:
                ctx.fail("corr", "c02.dyadic.tables", d, {"name": "Huffman.build vs create_huffman_tree (tree shape)", "impl": shape, "model": ms}, cls=cls)
            cells = parse_cells(ctx.lean(f"huff-cells {ilist(shape)} {wl(vals)}"))
            mdraw = lambda us: ctx.lean(f"huff-draw {ilist(shape)} {wl(vals)} {wl(us)}")
        elif method == "table":
            mt = ctx.lean(f"table-build {wl(p)}")
            try:
                s = TableMethod(arr, ident)
            except ValueError as e:
                if mt != "zero":
                    ctx.fail("corr", "c02.dyadic.tables", d, {"name": "Table.build vs create_table (zero branch)", "impl": repr(e), "model": mt[:80]}, cls=cls)
                # the sampler cannot be built for a valid probability vector: the property fails on this input
                ctx.fail("oracle", "c02.dyadic.table.raises", d, {"raised": repr(e)}, cls=cls, mirrors_model=(mt == "zero"))
                return
            return table_case(ctx, d, cls, s, P, mt)
    except Exception as e:  # noqa: a sampler that cannot be built / evaluated for a valid probability vector
        ctx.fail("oracle", "c02.dyadic.raises", d, {"raised": repr(e)}, cls=cls)
        return
    # ---- cells of M tile [0,1); implementation at inside points; law; M's draw
    if not tiles(cells):
        ctx.fail("corr", "c02.dyadic.cells", d, {"name": "cells of M do not tile [0,1)", "cells": [list(map(str, c)) for c in cells][:20]}, cls=cls)
    try:
        law, bad, excl = law_from_cells(ctx, cells, single)
        # don't-care points: exactly on the boundaries only "no exception, admissible state"
        for _, lo, hi in cells[:64]:
            if Fraction(float(lo)) == lo and 0 <= lo < 1:
                r = single(float(lo))
                if not (0 <= r < n):
                    ctx.fail("oracle", "c02.dyadic.admissible", d, {"u": float(lo), "returned": r}, cls=cls)
    except Exception as e:  # noqa
        ctx.fail("oracle", "c02.dyadic.raises", d, {"raised": repr(e)}, cls=cls)
        return
    if bad:
        ctx.fail("corr", "c02.dyadic.draw", d, {"name": f"{method}: implementation at inside points of M's cells", "mismatches": bad[:5]}, cls=cls)
    wrong = {k: [str(law.get(k, Fraction(0))), str(P[k])] for k in range(n) if law.get(k, Fraction(0)) != P[k]}
    wrong.update({str(k): [str(v), "not a state"] for k, v in law.items() if not (isinstance(k, int) and 0 <= k < n)})
    if wrong and excl == 0:
        ctx.fail("oracle", "c02.dyadic.law", d, {"what": "length of u sent to state k != p_k (exact)", "state: [measured, p]": dict(list(wrong.items())[:6])}, cls=cls)
    us = [u for _, lo, hi in cells for u in probe_points(lo, hi)][:600]
    if us:
        got = [single(u) for u in us]
        if ilist(got) != mdraw(us):
            ctx.fail("corr", "c02.dyadic.draw", d, {"name": f"{method}: draw of M vs implementation on the same tables"}, cls=cls)
    # ---- (iv) batch entry point
    batch_case(ctx, d, cls, s, single, us[:40])


def table_case(ctx, d, cls, s, P, mt):
    n = len(P)
    slots = [int(x) for x in s.J]
    am = s.alias_method
    m_slots = mt.split(" ")[0]
    if ilist(slots) != m_slots:
        ctx.fail("corr", "c02.dyadic.tables", d, {"name": "Table.build slots vs create_table", "impl": slots[:40], "model": m_slots[:200]}, cls=cls)
    theta_sum = sum((256 * x) - int(256 * x) for x in P)
    if theta_sum.numerator & (theta_sum.numerator - 1) == 0:      # power of two: residual probabilities exact
        if ilist(am.J) + " " + wl(am.q) != " ".join(mt.split(" ")[1:]):
            ctx.fail("corr", "c02.dyadic.tables", d, {"name": "Table.build residual alias vs create_table", "impl": [list(map(int, am.J)), list(map(float, am.q))]}, cls=cls)
    law = rdl(ctx.lean(f"table-law {ilist(slots)} {ilist(am.J)} {wl(am.q)} {n}"))
    wrong = {k: [float(law[k]), float(P[k])] for k in range(n) if abs(law[k] - P[k]) > TOL}
    if wrong or len(slots) != 256:
        ctx.fail("oracle", "c02.dyadic.law", d, {"what": "idealised law of the extracted slot table + residual alias != p", "state: [law, p]": wrong,
                                                 "slots": len(slots)}, cls=cls)
    # the function of the 32-bit integer: every slot, and the residual alias at the inside points of its cells
    is_ = list(range(256)) + [ctx.rng.getrandbits(32) for _ in range(64)]
    minus = [b for b, j in enumerate(slots) if j < 0]
    if minus:
        for _, lo, hi in parse_cells(ctx.lean(f"alias-cells {ilist(am.J)} {wl(am.q)}")):
            if hi - lo >= Fraction(1, 2 ** 16):
                base = int(((lo + hi) / 2) * 2 ** 32)
                is_.append((base & ~255) | ctx.rng.choice(minus))
    single = lambda i: table_single(s, i)
    try:
        got = [single(i) for i in is_]
    except Exception as e:  # noqa
        ctx.fail("oracle", "c02.dyadic.raises", d, {"raised": repr(e)}, cls=cls)
        return
    if ilist(got) != ctx.lean(f"table-draw {ilist(slots)} {ilist(am.J)} {wl(am.q)} {ilist(is_)}"):
        ctx.fail("corr", "c02.dyadic.draw", d, {"name": "table: draw of M vs _sample_one on the same tables"}, cls=cls)
    zero = [g for g in got if not (0 <= g < n) or P[g] == 0]
    if zero:
        ctx.fail("oracle", "c02.dyadic.admissible", d, {"returned zero-probability / unknown states": zero[:5]}, cls=cls)
    # (iv) batch
    seq = is_[:40]
    it = iter(seq)
    with Patch(pyrandom, "getrandbits", lambda k: next(it)):
        out = s.sample(len(seq))
    ctx.count("c02.batch", dict(d, stream="batch"), nontrivial=False, branch="table")
    if [int(x) for x in out] != got[:40]:
        ctx.fail("oracle", "c02.batch", d, {"what": "TableMethod.sample(size) != _sample_one per integer"}, cls=cls)


def table_single(s, i):
    with Patch(pyrandom, "getrandbits", lambda k: i):
        return int(tablemod._sample_one(s.J, s.alias_method, s._cst, s.states))


def canon(x):
    """canonical form of a returned state (int or tuple of ints)"""
    if isinstance(x, (tuple, list)):
        return tuple(int(v) for v in x)
    a = np.asarray(x)
    if a.ndim == 0:
        return int(a)
    return tuple(int(v) for v in a.ravel())


def batch_case(ctx, d, cls, s, single, us):
    """(iv) sample(size) with the uniform generator returning a prescribed vector == single-u entry point"""
    if not us:
        return
    ctx.count("c02.batch", dict(d, stream="batch"), nontrivial=False, branch=cls.get("method"))
    try:
        expected = [canon(single(u)) for u in us]
        with Patch(np.random, "uniform", lambda low=0.0, high=1.0, size=None: np.array(us, dtype=float)):
            out = s.sample(size=len(us))
        got = [canon(x) for x in out]
    except Exception as e:  # noqa
        ctx.fail("oracle", "c02.batch.raises", d, {"raised": repr(e)}, cls=cls)
        return
    if got != expected:
        ctx.fail("oracle", "c02.batch", d, {"what": "sample(size) differs from the single-uniform entry point on the same uniforms",
                                            "us": us[:8], "batch": got[:8], "single": expected[:8]}, cls=cls)


# ------------------------------------------------------------------------------------------------ (ii) factory stream
METHODS_1D = ["ALIAS", "TABLE", "BINARYSEARCHTREE", "HUFFMANNTREE", "INVERSION", "BINARYSEARCHTREEADAPTED1D"]


def grid_kwargs(rng, kind):
    kw = {}
    h = rng.choice([0.2, 0.1, 0.05])
    if kind in ("uniform", "geometric"):
        kw["truncation_probability"] = rng.choice([0.99, 0.999])
    if kind in ("geometric", "geometric_bounds"):
        kw["nb"] = rng.choice([3, 5, 8])
    if kind == "geometric_bounds":
        kw["truncations"] = (-rng.choice([0.5, 1.0, 2.0]), rng.choice([0.75, 1.5, 3.0]))
    if kind == "fixed":
        kw["nb_of_points"] = rng.choice([5, 8, 9, 21])
    if kind == "probstep":
        kw["minimum_probability_step"] = rng.choice([0.05, 0.1, 0.2])
        h = max(h, 0.05)
    if kind == "credit":
        kw["level_a"] = -rng.choice([0.25, 0.3, 0.5])
    return h, kw


def inversion_env(chain_factory):
    """enumeration tables of an inversion sampler, taken from a *separate* instance (calling `project` on the sampler
    under test would disturb its call order): adm[xx], prob[xx], state increment of xx, maxFrontier"""
    s = chain_factory().sampling
    sm = s.state_manager
    mf = int(sm.max_frontier_indices)
    adm, prob, incs = [], [], []
    for xx in range(mf + 1):
        inc = sm.pairing.project(xx)
        inside = not sm.is_outside(inc)
        adm.append(1 if inside else 0)
        incs.append(canon(inc))
        prob.append(float(s.probability_to_jump_to_state(inc)) if inside else 0.0)
    return adm, prob, incs, mf


def pure_env_1d(ctx, s, o, n):
    """enumeration tables of a 1-d inversion sampler WITHOUT calling `project` on any pairing object: the order of the
    states is M's pure `z1dProject` (C14's model of PairingToZ1d asked in increasing order on a fresh object), the
    probabilities come from the sampler's own pure closure.  Any pairing object of the same interval that has its own
    history (or shares a memo with another object) therefore cannot influence the reference."""
    sm = s.state_manager
    mf = int(sm.max_frontier_indices)
    L, R = o, n - 1 - o
    incs = [int(x) for x in ctx.lean(f"z1d {L} {R} 1 {mf + 1}", name="C14")[1:-1].split(",")]
    adm, prob = [], []
    for inc in incs:
        inside = -L <= inc <= R and inc != 0 and not sm.is_outside(inc)
        adm.append(1 if inside else 0)
        prob.append(float(s.probability_to_jump_to_state(inc)) if inside else 0.0)
    return adm, prob, incs, mf


def factory_pairing_kind(dim):
    """name (in C14's driver) of the N^d pairing `create_sampling_inversion_method` wraps in PairingToZd(omit_zero):
    Szudzik in dimension 2, the n-dimensional Rosenberg-Strong pairing from dimension 3 on (samplingfactory.py:148-155)"""
    return "szudzik" if dim == 2 else "rs"


def pure_env_nd(ctx, s, oc, sizes):
    """same for the d-dimensional factory pairing: states from C14's `zdProject` with the factory's pairing of that
    dimension.  The enumeration is carried on, independently of the sampler's own bound, until every state of the grid
    box other than the origin has appeared; `pure_mf` is the pairing index of the last one (a pairing need not be
    increasing along a grid line, so this is NOT the largest index of a frontier state in general).  The tables handed
    to M cover max(pure bound, the implementation's bound); M is run with the implementation's bound `mf` (it mirrors the
    code), the oracle's target does not depend on either.  Returns (adm, prob, incs, mf, pure_mf)."""
    sm = s.state_manager
    dim = len(sizes)
    kind = factory_pairing_kind(dim)
    mf = int(sm.max_frontier_indices)
    n_states = 1
    for k in sizes:
        n_states *= k
    n_states -= 1
    in_box = lambda inc: all(0 <= inc[k] + oc[k] < sizes[k] for k in range(dim)) and any(inc)
    incs, seen, pure_mf = [], 0, -1
    hard_cap = (2 * max(sizes) + 2) ** dim
    chunk = max(n_states, 64)
    while (seen < n_states or len(incs) < mf + 1) and len(incs) < hard_cap:
        rows = ctx.lean(f"zdproj {kind} 1 {dim} {len(incs)} {chunk}", name="C14")[1:-1].split(";")
        for r in rows:
            inc = tuple(int(v) for v in r.split(","))
            if in_box(inc):
                seen += 1
                pure_mf = len(incs)
            incs.append(inc)
    incs = incs[:max(pure_mf, mf) + 1]
    adm, prob = [], []
    for inc in incs:
        inside = in_box(inc) and not sm.is_outside(inc)
        adm.append(1 if inside else 0)
        prob.append(float(s.probability_to_jump_to_state(inc)) if inside else 0.0)
    return adm, prob, incs, mf, pure_mf


def one_d_chain_case(ctx, fam, params, kind, h, kw, mname, desc, hist=True, pre=None, stream="factory"):
    model = zoo.make_levy(fam, params)
    method = SamplingMethod[mname]
    cls = {"stream": stream, "method": mname.lower(), "grid": kind, "dim": 1}
    P = f"c02.{stream}"
    try:
        g, gd = zoo.make_grid(kind, model, h, **kw)
    except Exception as e:  # noqa: grid constructor rejected these arguments (C13's subject)
        ctx.branches[f"c02.grid_raises:{kind}:{type(e).__name__}"] += 1
        return
    ax = [float(x) for x in g.axes[0]]
    o = int(g.origin_coordinate.value)
    n = len(ax)
    wellformed = (all(a < b for a, b in zip(ax, ax[1:])) and 1 <= o <= n - 2 and ax[o] == 0.0
                  and abs(ax[o - 1] + float(g.h)) <= 1e-12 and abs(ax[o + 1] - float(g.h)) <= 1e-12)
    if not wellformed or n > ctx.n(400, 2500):
        ctx.branches["c02.grid_skipped"] += 1          # malformed grids are C13's known findings
        return
    d = dict(desc, **gd, method=mname)
    mk_with = lambda m: MarkovChainProcess(zoo.make_levy(fam, params), SamplingMethod[m], zoo.make_grid(kind, zoo.make_levy(fam, params), h, **kw)[0])
    mk = lambda: mk_with(mname)
    others = []
    if pre is not None:                # cross-instance history: other samplers on identical grids draw first
        try:
            others = pre(ctx, mk_with, o, n, d, cls)
        except Exception as e:  # noqa
            ctx.fail("oracle", f"{P}.raises", d, {"what": "exception while other samplers on an identical grid were drawing", "raised": repr(e)}, cls=cls)
            return
    try:
        mc = MarkovChainProcess(model, method, g)
        s = mc.sampling
        lam = float(mc.intensity_of_jumps)
        q = create_q_vector(mc.model.levy_triplet.nu, g)
        target = [fr(float(x)) / fr(lam) for x in q]        # q / lambda, the chain's jump law (C01)
    except Exception as e:  # noqa
        ctx.count(P, d, nontrivial=False, branch=f"{mname}:{kind}:raises")
        ctx.fail("oracle", f"{P}.raises", d, {"raised": repr(e)}, cls=cls)
        return
    ctx.count(P, d, nontrivial=sum(1 for x in target if x > 0) >= 3, branch=f"{mname}:{kind}")
    try:
        if mname == "ALIAS":
            idx = lambda k: int(s.states(k)) + o
            single = lambda u: int(s.states(s._draw_with_u(u))) + o
            cells = [(idx(k), a, b) for k, a, b in parse_cells(ctx.lean(f"alias-cells {ilist(s.J)} {wl(s.q)}"))]
        elif mname == "BINARYSEARCHTREE":
            single = lambda u: int(s.sample_with_u(u)) + o
            cells = [(int(s.states(k)) + o, a, b) for k, a, b in parse_cells(ctx.lean(f"bst-cells {wl(s.bst[:n - 1])}"))]
        elif mname == "HUFFMANNTREE":
            single = lambda u: int(s.states(hf.sample_with_u(u, s.head)[0])) + o
            shape, vals = huff_serial(s.head)
            cells = [(int(s.states(k)) + o, a, b) for k, a, b in parse_cells(ctx.lean(f"huff-cells {ilist(shape)} {wl(vals)}"))]
        elif mname == "INVERSION":
            adm, prob, incs, mf = pure_env_1d(ctx, s, o, n)
            calls = []
            orig_choice = np.random.choice

            def single(u):
                with Patch(np.random, "choice", lambda *a, **k: (calls.append(u), orig_choice(*a, **k))[1]):
                    return canon(s.sample_with_u(u)) + o
            cells = [(incs[k] + o, a, b) for k, a, b in parse_cells(ctx.lean(f"inv-cells {ilist(adm)} {mf} {wl(prob)}"))]
        elif mname == "BINARYSEARCHTREEADAPTED1D":
            single = lambda u: int(s.sample_with_u(u)) + o
            aL = lambda l: 0.5 * (ax[max(0, l - 1)] + ax[l])
            bR = lambda r: 0.5 * (ax[r] + ax[min(n - 1, r + 1)])
            wt = [0.0 if i == o else float(s.model.mass(aL(i), bR(i)) / s.intensity_of_jumps) for i in range(n)]
            pl = float(s._proba_left_axis)
            cells = parse_cells(ctx.lean(f"ad1-cells {wl(wt)} {o} {w(pl)}"))
        elif mname == "TABLE":
            return table_factory_case(ctx, d, cls, s, target, o, n, P)
        # ---------------- S: law of the implementation as a function of u vs q/lambda; never origin / out of grid / p = 0
        total = sum((b - a for _, a, b in cells if b > a), Fraction(0))
        if not tiles(cells, hi=total, tol=TOL) or abs(total - 1) > TOL:
            ctx.fail("corr", f"{P}.cells", d, {"name": f"{mname}: cells of M from the extracted tables do not tile [0,1)", "total": float(total)}, cls=cls)
        law, bad, excl = law_from_cells(ctx, cells, single)
        if mname == "INVERSION" and calls:
            ctx.fail("oracle", f"{P}.law", d, {"what": "enumeration exhausted (random frontier state) for a uniform below the total mass",
                                                      "u": calls[:3]}, cls=cls)
    except Exception as e:  # noqa
        ctx.fail("oracle", f"{P}.raises", d, {"raised": repr(e)}, cls=cls)
        return
    if bad:
        ctx.fail("corr", f"{P}.draw", d, {"name": f"{mname}: implementation at inside points of M's cells", "mismatches": bad[:5]}, cls=cls)
    judge_law(ctx, d, cls, law, excl, target, o, n, probe=f"{P}.law")
    if mname == "INVERSION":      # on a fresh instance each boundary is first reached by the extension loop, then by the memo
        fresh = mk().sampling
        boundary_points(ctx, d, cls, s, lambda u: canon(fresh.sample_with_u(u)) + o, mname, lambda r: isinstance(r, int) and 0 <= r < n and r != o, P)
    else:
        boundary_points(ctx, d, cls, s, single, mname, lambda r: isinstance(r, int) and 0 <= r < n and r != o, P)
    us = [u for _, lo, hi in cells for u in probe_points(lo, hi)]
    ctx.rng.shuffle(us)
    batch_case(ctx, d, cls, s, lambda u: single(u) - o, us[:40])
    if hist and mname in ("INVERSION", "BINARYSEARCHTREEADAPTED1D"):
        history_case(ctx, d, cls, mk, cells, o, env=(adm, prob, incs, mf) if mname == "INVERSION" else None)
    if pre is not None:
        interleave_case(ctx, d, cls, [(mname, s, single, cells)] + others, mk_with, o, n)


def boundary_points(ctx, d, cls, s, single, mname, admissible, P="c02.factory"):
    """don't-care points (u exactly on a cell boundary): only "no exception, a state of the grid other than the origin";
    each point is asked twice (the second call of the inversion sampler takes the memoised branch)"""
    if mname == "INVERSION":
        pts = [float(c) for c in list(s._cumulative_probabilities) if c < 1.0 - 2.0 ** -40][:40]
    elif mname == "BINARYSEARCHTREE":
        pts = [float(c) for c in s.bst if 0.0 < c < 1.0 - 2.0 ** -40][:40]      # beyond: float-sum sliver [sum p, 1), not judged
    else:
        return
    try:
        for u in pts:
            for _ in range(2):
                r = single(u)
                if not admissible(r):
                    ctx.fail("oracle", f"{P}.law", d, {"what": "inadmissible state for a uniform on a cell boundary", "u": u, "returned": str(r)}, cls=cls)
                    return
    except Exception as e:  # noqa
        ctx.fail("oracle", f"{P}.raises", d, {"what": "exception for a uniform exactly on a cell boundary", "raised": repr(e)}, cls=cls)


def judge_law(ctx, d, cls, law, excl, target, o, n, key=lambda k: k, probe="c02.factory.law"):
    """oracle: measured length per state == q_k / lambda (2^-40), nothing on the origin / outside / zero-probability"""
    worst = None
    for k in range(n):
        m = law.get(key(k), Fraction(0))
        err = abs(m - target[k])
        if err > TOL + excl and (worst is None or err > worst[1]):
            worst = (k, err, m)
    outside = [str(k) for k, v in law.items() if v > 0 and not (isinstance(k, int) and 0 <= k < n)]
    zero = [k for k in range(n) if target[k] == 0 and law.get(key(k), Fraction(0)) > 0]
    if worst or outside or zero:
        ctx.fail("oracle", probe, d, {
            "what": "length of the set of u sent to a state != q_k/lambda, or a forbidden state is returned",
            "worst_state": None if not worst else {"index": worst[0], "measured": float(worst[2]), "target": float(target[worst[0]])},
            "outside_grid": outside[:5], "zero_probability_or_origin": zero[:5], "origin": o}, cls=cls)


def table_factory_case(ctx, d, cls, s, target, o, n, P="c02.factory"):
    slots = [int(x) for x in s.J]
    am = s.alias_method
    law = rdl(ctx.lean(f"table-law {ilist(slots)} {ilist(am.J)} {wl(am.q)} {n}"))
    shift = int(s.states(0))          # states(k) = k - pivot (or k): the table holds vector indices
    lawd = {k: law[k] for k in range(n)}
    tgt = target if shift == -o else None
    if tgt is None:
        ctx.branches["c02.factory.table_one_sided"] += 1
        return
    if len(slots) != 256:
        ctx.fail("oracle", f"{P}.law", d, {"what": "slot table does not have 256 entries", "len": len(slots)}, cls=cls)
    judge_law(ctx, d, cls, lawd, Fraction(0), target, o, n, probe=f"{P}.law")
    is_ = list(range(256)) + [ctx.rng.getrandbits(32) for _ in range(64)]
    minus = [b for b, j in enumerate(slots) if j < 0]
    if minus:
        for _, lo, hi in parse_cells(ctx.lean(f"alias-cells {ilist(am.J)} {wl(am.q)}")):
            if hi - lo >= Fraction(1, 2 ** 16):
                is_.append((int(((lo + hi) / 2) * 2 ** 32) & ~255) | ctx.rng.choice(minus))
    try:
        got = [table_single(s, i) for i in is_]
        it = iter(is_[:40])
        with Patch(pyrandom, "getrandbits", lambda k: next(it)):
            out = [int(x) for x in s.sample(40)]
    except Exception as e:  # noqa
        ctx.fail("oracle", f"{P}.raises", d, {"raised": repr(e)}, cls=cls)
        return
    model = [int(x) + shift for x in rdl(ctx.lean(f"table-draw {ilist(slots)} {ilist(am.J)} {wl(am.q)} {ilist(is_)}"))]
    if got != model:
        ctx.fail("corr", f"{P}.draw", d, {"name": "table: draw of M vs _sample_one on the extracted tables"}, cls=cls)
    forb = [g for g in got if not (0 <= g + o < n) or target[g + o] == 0]
    if forb:
        ctx.fail("oracle", f"{P}.law", d, {"what": "origin / out-of-grid / zero-probability state returned", "increments": forb[:5]}, cls=cls)
    ctx.count("c02.batch", dict(d, stream="batch"), nontrivial=False, branch="table")
    if out != got[:40]:
        ctx.fail("oracle", "c02.batch", d, {"what": "TableMethod.sample(size) != _sample_one per integer"}, cls=cls)


# ------------------------------------------------------------------------------------------------ (iii) histories
def history_case(ctx, d, cls, mk, cells, o, env=None, nd=False, steps=None, lower_cap=True):
    """random interleavings (with repetitions) of single-uniform draws on one instance vs a fresh instance per uniform"""
    rng = ctx.rng
    us = [u for _, lo, hi in cells for u in probe_points(lo, hi)[:1]]
    if len(us) < 2:
        return
    fresh_ref = mk().sampling                     # answers of a never-used instance, one uniform each in increasing order
    hcls = dict(cls, stream="history")
    steps = steps or ctx.n(60, 400)
    seq = [rng.choice(us) for _ in range(steps)]
    proc = mk()
    inst = proc.sampling
    # public bookkeeping calls that must not change the law: the engines reset the cost counters between runs
    resets = set(rng.sample(range(1, steps), min(steps - 1, rng.choice([0, 1, 2, 4]))))
    cap = None
    if env is not None:
        adm, prob, incs, mf = env
        nadm = sum(adm)
        cap = rng.choice([1, 2, 3, max(1, nadm // 2), max(1, nadm - 1), nadm, nadm + 1] + [rng.randint(1, nadm + 1) for _ in range(7)])
        if lower_cap:
            inst._max_storage = cap
        else:                       # expensive rate closures: the memo keeps its default size (every state is evaluated once)
            cap = int(inst._max_storage)
        # the memo index of a state equals its pairing index only without skipped indices below the cap
        adm_idx = [i for i, a in enumerate(adm) if a]
        hcls["cap_crossed_with_skipped_index"] = bool(nadm >= cap and adm_idx[cap - 1] >= cap)
    hd = dict(d, stream="history", cap=cap, seq_len=len(seq))
    ctx.count("c02.history", hd, nontrivial=len(us) >= 3, branch=cls["method"] + (":capped" if cap else ""))

    def ask(smp, u):
        if nd and env is None:
            return canon(smp.sample_with_us(np.array([u]))[0])
        return canon(smp.sample_with_u(u))
    def bookkeeping(i):
        if i in resets:
            for obj, name in ((inst, "reset_sampling_cost"), (proc, "reset_one_simulation_cost")):
                if rng.random() < 0.7 and hasattr(obj, name):
                    getattr(obj, name)()
                    ctx.branches[f"c02.history:{name}"] += 1
    try:
        got = []
        for i, u in enumerate(seq):
            bookkeeping(i)
            got.append(ask(inst, u))
        fresh = {}
        for u in sorted(set(seq)):
            fresh[u] = ask(mk().sampling if len(fresh) < 6 else fresh_ref, u)
    except Exception as e:  # noqa
        ctx.fail("oracle", "c02.history.raises", hd, {"raised": repr(e)}, cls=hcls)
        return
    diff = [{"u": u, "after_history": str(g), "fresh": str(fresh[u])} for u, g in zip(seq, got) if g != fresh[u]]
    mirrors = None
    if env is not None:
        out = ctx.lean(f"inv-run {ilist(adm)} {mf} {wl(prob)} {cap} {wl(seq)}").split(" ")
        mres = [incs[int(k)] if int(k) >= 0 else None for k in out[0][1:-1].split(",")]
        sm = inst.state_manager
        mirrors = (mres == got and int(out[1]) == len(inst._cumulative_probabilities)
                   and int(out[2]) == int(sm._last_projected_index) + 1)
        if not mirrors:
            ctx.fail("corr", "c02.history.model", hd, {"name": "Inversion.step (memo, cap, skip pointer) vs InversionMethod.sample_with_u",
                                                      "impl": [got[:12], len(inst._cumulative_probabilities), int(sm._last_projected_index) + 1],
                                                      "model": [str(mres[:12]), out[1], out[2]]}, cls=hcls)
    if diff:
        ctx.fail("oracle", "c02.history", hd, {"what": "state returned for u depends on earlier draws / differs from a fresh instance",
                                               "first": diff[:4], "count": len(diff)}, cls=hcls, mirrors_model=mirrors)


# ------------------------------------------------------------------------------------------------ (v) cross-instance histories
def sampler_single(mname, s, o):
    """single-uniform entry point of a 1-d factory sampler as a function u -> axis index (None: TABLE consumes an integer)"""
    if mname == "ALIAS":
        return lambda u: int(s.states(s._draw_with_u(u))) + o
    if mname == "HUFFMANNTREE":
        return lambda u: int(s.states(hf.sample_with_u(u, s.head)[0])) + o
    if mname in ("BINARYSEARCHTREE", "BINARYSEARCHTREEADAPTED1D"):
        return lambda u: int(s.sample_with_u(u)) + o
    if mname == "INVERSION":
        return lambda u: canon(s.sample_with_u(u)) + o
    return None


def inversion_cells_1d(ctx, s, o, n):
    adm, prob, incs, mf = pure_env_1d(ctx, s, o, n)
    return [(incs[k] + o, a, b) for k, a, b in parse_cells(ctx.lean(f"inv-cells {ilist(adm)} {mf} {wl(prob)}"))]


def partial_depth_us(rng, cells, o, n, count):
    """uniforms (cell midpoints) whose enumeration index lies past the switch index 2*min(L,R) of the 1-d pairing but
    before the end (when the grid is asymmetric enough), in increasing depth; otherwise random midpoints"""
    L, R = o, n - 1 - o
    sw = 2 * min(L, R)
    cand = [(j, c) for j, c in enumerate(cells) if sw < j < len(cells) - 1 and probe_points(c[1], c[2])]
    if not cand:
        cand = [(j, c) for j, c in enumerate(cells) if probe_points(c[1], c[2])]
    pick = sorted(rng.sample(cand, min(count, len(cand))))
    return [(probe_points(c[1], c[2])[0], c[0]) for _, c in pick]


def make_pre(firsts):
    """history on OTHER sampler objects built on identical models/grids in the same process, before the swept sampler
    is even constructed: an inversion sampler draws past the switch index but not to the end; the others draw a few
    uniforms.  Returns the objects (they take part in the interleaving afterwards)."""
    def pre(ctx, mk_with, o, n, d, cls):
        out = []
        for m in firsts:
            a = mk_with(m).sampling
            single = sampler_single(m, a, o)
            cells = None
            if m == "INVERSION":
                cells = inversion_cells_1d(ctx, a, o, n)
                for u, want in partial_depth_us(ctx.rng, cells, o, n, ctx.rng.choice([1, 1, 2, 3])):
                    got = single(u)
                    if got != want:
                        ctx.fail("corr", "c02.cross.draw", d, {"name": "first inversion sampler vs cells of the pure enumeration", "u": u, "impl": got, "model": want}, cls=cls)
            elif single is not None:
                for _ in range(5):
                    single(ctx.rng.random())
            out.append((m, a, single, cells))
        return out
    return pre


def cell_state(cells, u):
    fu = Fraction(u)
    for st, lo, hi in cells:
        if lo < fu < hi:
            return st
    return None


def cell_lookup(cells):
    """u -> state of the (non-empty) predicted cell containing u strictly inside, None on boundaries / gaps"""
    import bisect
    srt = sorted(((lo, hi, st) for st, lo, hi in cells if hi > lo), key=lambda c: c[0])
    los = [c[0] for c in srt]

    def find(u):
        fu = Fraction(u)
        i = bisect.bisect_right(los, fu) - 1
        if i >= 0 and srt[i][0] < fu < srt[i][1]:
            return srt[i][2]
        return None
    return find


def interleave_case(ctx, d, cls, samplers, mk_with, o, n):
    """draws interleaved between sampler objects living on identical grids.  Oracle: the state returned for a uniform
    by one method does not depend on which object is asked nor on what any object drew before, and the law of an object
    swept at the end is still q/lambda.  Tie: every answer is the state of M's cell containing the uniform."""
    rng = ctx.rng
    mname, s, single, cells = samplers[0]
    if single is None or not cells:
        return
    hd = dict(d, stream="cross-interleave", others=[m for m, *_ in samplers[1:]])
    ctx.count("c02.cross.history", hd, nontrivial=len(cells) >= 3, branch=mname)
    hcls = dict(cls, stream="cross-history")
    try:
        # two more objects of the swept method, built after all that history
        e, f = mk_with(mname).sampling, mk_with(mname).sampling
        pool = [(m, smp, sg, cl if cl is not None else (cells if m == mname else None)) for m, smp, sg, cl in samplers if sg is not None]
        pool += [(mname, e, sampler_single(mname, e, o), cells), (mname, f, sampler_single(mname, f, o), cells)]
        mids = [probe_points(lo, hi)[0] for _, lo, hi in cells if probe_points(lo, hi)]
        # (a) increasing depth alternating between the two new objects, (b) random interleaving over all objects
        deep = sorted(rng.sample(mids, min(len(mids), 8)))
        seq = [(len(pool) - 2 + (i % 2), u) for i, u in enumerate(deep)]
        seq += [(rng.randrange(len(pool)), rng.choice(mids)) for _ in range(ctx.n(30, 150))]
        seen, diff, off = {}, [], []
        for i, u in seq:
            m, smp, sg, cl = pool[i]
            got = sg(u)
            if m == mname:
                if seen.setdefault(u, got) != got:
                    diff.append({"u": u, "object": i, "returned": got, "earlier": seen[u]})
            if cl is not None and m in (mname, "INVERSION"):
                want = cell_state(cl, u)
                if want is not None and got != want:
                    off.append({"u": u, "object": i, "method": m, "impl": got, "model": want})
        # (c) one of the new objects swept at every cell midpoint: its law
        g = pool[-1][2]
        law = {}
        for st, lo, hi in cells:
            pts = probe_points(lo, hi)
            if pts:
                k = g(pts[0])
                law[k] = law.get(k, Fraction(0)) + (hi - lo)
        wrong = {st: [float(law.get(st, 0)), float(sum((hi - lo for s2, lo, hi in cells if s2 == st and probe_points(lo, hi)), Fraction(0)))]
                 for st in set(law) | {c[0] for c in cells}}
        wrong = {k: v for k, v in wrong.items() if abs(v[0] - v[1]) > 2.0 ** -40}
    except Exception as ex:  # noqa
        ctx.fail("oracle", "c02.cross.raises", hd, {"raised": repr(ex)}, cls=hcls)
        return
    if off:
        ctx.fail("corr", "c02.cross.draw", hd, {"name": f"{mname}: interleaved objects vs M's cells", "mismatches": off[:5]}, cls=hcls)
    if diff:
        ctx.fail("oracle", "c02.cross.history", hd, {"what": "the state returned for u depends on which sampler object is asked / on earlier draws of any object",
                                                     "first": diff[:4], "count": len(diff)}, cls=hcls)
    if wrong:
        ctx.fail("oracle", "c02.cross.law", hd, {"what": "after interleaved draws on objects living on identical grids, the length of u sent to a state by a further "
                                                         "object differs from the length of that state's cells (= q_k/lambda, judged on the swept object)",
                                                 "state: [measured, cells]": dict(list(wrong.items())[:6])}, cls=hcls)


def interleave_2d(ctx, d, cls, mname, objs, mk, cells):
    """2-d version of the interleaving: objects on identical 2-d grids asked in random order; same method => same state
    for the same uniform, equal to the state of the predicted cell"""
    rng = ctx.rng
    hd = dict(d, stream="cross-interleave", others=[m for m, _ in objs[1:]])
    hcls = dict(cls, stream="cross-history")
    ctx.count("c02.cross.history", hd, branch=mname + ":2d")
    ask = lambda m, smp, u: canon(smp.sample_with_u(u)) if m == "INVERSION" else canon(smp.sample_with_us(np.array([u]))[0])
    try:
        pool = list(objs) + [(mname, mk().sampling)]
        mids = [(probe_points(lo, hi)[0], st) for st, lo, hi in cells if hi > lo and probe_points(lo, hi)]
        seen, diff, off = {}, [], []
        for _ in range(ctx.n(40, 200)):
            i = rng.randrange(len(pool))
            u, want = rng.choice(mids)
            m, smp = pool[i]
            got = ask(m, smp, u)
            if m == mname:
                if seen.setdefault(u, got) != got:
                    diff.append({"u": u, "object": i, "returned": str(got), "earlier": str(seen[u])})
                if got != want:
                    off.append({"u": u, "object": i, "impl": str(got), "model": str(want)})
    except Exception as ex:  # noqa
        ctx.fail("oracle", "c02.cross.raises", hd, {"raised": repr(ex)}, cls=hcls)
        return
    if off:
        ctx.fail("corr", "c02.cross.draw", hd, {"name": f"{mname} 2-d: interleaved objects vs predicted cells", "mismatches": off[:5]}, cls=hcls)
    if diff:
        ctx.fail("oracle", "c02.cross.history", hd, {"what": "the state returned for u depends on which sampler object is asked / on earlier draws of any object",
                                                     "first": diff[:4], "count": len(diff)}, cls=hcls)


def cross_stream(ctx, models):
    """(v) 1-d: samplers of the same and of mixed methods on identical (asymmetric and symmetric) grids"""
    rng = ctx.rng
    asym = [("hem", {"sigma": 0.1, "p": 0.6, "eta1": 10.0, "eta2": 60.0, "intensity": 5.0}),
            ("hem", {"sigma": 0.1, "p": 0.3, "eta1": 40.0, "eta2": 8.0, "intensity": 3.0})]
    plans = [(["INVERSION"], "INVERSION"), (["INVERSION", "INVERSION"], "INVERSION"), (["BINARYSEARCHTREEADAPTED1D", "INVERSION"], "INVERSION"),
             (["INVERSION"], "BINARYSEARCHTREEADAPTED1D"), (["ALIAS", "INVERSION"], "BINARYSEARCHTREE"), (["INVERSION", "TABLE"], "HUFFMANNTREE"),
             (["BINARYSEARCHTREEADAPTED1D"], "BINARYSEARCHTREEADAPTED1D"), (["HUFFMANNTREE"], "ALIAS")]
    cases = []
    for fam, params in asym:
        cases.append((fam, params, "uniform", rng.choice([0.02, 0.05]), {"truncation_probability": rng.choice([0.99, 0.999])}))
    for fam, params in models[:ctx.n(3, 10)]:
        kind = rng.choice(["uniform", "geometric", "geometric_bounds", "fixed", "credit"])
        h, kw = grid_kwargs(rng, kind)
        cases.append((fam, params, kind, h, kw))
    for i, (fam, params, kind, h, kw) in enumerate(cases):
        chosen = [plans[0], plans[1 + i % 2]] + rng.sample(plans[2:], ctx.n(1, 4))
        for firsts, swept in chosen:
            one_d_chain_case(ctx, fam, params, kind, h, kw, swept, dict(stream="cross", family=fam, params=params, h=h, kw=kw, grid=kind, firsts=firsts),
                             hist=False, pre=make_pre(firsts), stream="cross")


# ------------------------------------------------------------------------------------------------ 2-d copula chains
def nd_tables(s):
    """wire form of the tables of a BinarySearchTreeAdapted: buckets (index boxes, `_cum_ps`, `_is_axis`, precomputed axis
    vectors) and the finite part of the box-mass function `M` the search can consult: every box `result` with one axis cut to
    its lower half that `sample_one_bucket` can reach (axes are split cyclically, skipping degenerate ones), evaluated with
    the sampler's own `_compute_probability` on the cell edges the code uses."""
    from rpylib.grid.grid import Coordinates
    grid = s.grid
    keys, vals = [], []
    seen = set()
    defect = [0.0, 0.0]       # hypothesis `Additive M` of AdaptedNd.law_of_cells, measured on the boxes the search visits

    def mass_of(box):
        a_c, b_c = zip(*box)
        a_cc, b_cc = Coordinates(a_c), Coordinates(b_c)
        a = grid.middle(grid.left_point(a_cc), grid[a_cc])
        bb = grid.middle(grid[b_cc], grid.right_point(b_cc))
        return float(s._compute_probability(a, bb))

    def rec(box, kstart):
        if all(l == r for l, r in box):
            return
        dim = len(box)
        k = kstart
        while box[k][0] == box[k][1]:
            k = (k + 1) % dim
        left, right = box[k]
        middle = (right + left) // 2
        lres = list(box)
        lres[k] = (left, middle)
        key = tuple(lres)
        if key not in seen:
            seen.add(key)
            keys.append([v for lr in lres for v in lr])
            vals.append(mass_of(lres))
        rres = list(box)
        rres[k] = (min(right, middle + 1), right)
        whole, lo_half, hi_half = mass_of(box), mass_of(lres), mass_of(rres)
        defect[0] = max(defect[0], abs(whole - lo_half - hi_half))
        rec(lres, (k + 1) % dim)
        rec(rres, (k + 1) % dim)

    boxes, isax, axc = [], [], []
    for b, coords in enumerate(s._buckets_coordinates):
        box = [(int(l), int(r)) for l, r in coords]
        boxes.append([v for lr in box for v in lr])
        ax = bool(s._is_axis[b])
        isax.append(1 if ax else 0)
        axc.append([float(x) for x in s._precomputed_cum_p_for_axes[b]] if ax else [])
        # hypothesis `Consistent` of AdaptedNd.law_of_cells, measured: `_cum_ps` increments = box mass, axis vector non-decreasing, ends at the box mass
        mb = mass_of(box)
        inc = float(s._cum_ps[b]) - (float(s._cum_ps[b - 1]) if b else 0.0)
        defect[1] = max(defect[1], abs(inc - mb))
        if ax:
            v = axc[-1]
            defect[1] = max(defect[1], abs(v[-1] - mb), max([0.0] + [x - y for x, y in zip([0.0] + v[:-1], v)]))
        if not ax:
            rec(box, 0)
    wbox = lambda rows: "[" + ";".join(",".join(str(v) for v in r) for r in rows) + "]"
    wrat = lambda rows: "[" + ";".join(",".join(w(v) for v in r) for r in rows) + "]"
    return " ".join([wbox(boxes), wl([float(x) for x in s._cum_ps]), ilist(isax), wrat(axc), wbox(keys), wl(vals)]), len(keys), max(defect)


def nd_boundary_points(ctx, d, cls, s, T, oc, sizes, single):
    """don't-care points of the n-d adapted sampler: a uniform exactly on the upper boundary `_cum_ps[b]` of a bucket (and the
    float just below), and the largest uniform `Uniform(high=sum(ps))` can produce.  Rule (README): no exception, a state of
    the grid other than the origin."""
    dim = len(oc)
    pts = []
    for b in range(len(s._cum_ps)):
        for u in (float(s._cum_ps[b]), float(np.nextafter(float(s._cum_ps[b]), 0.0))):
            sel = int(np.searchsorted(s._cum_ps, u))          # the bucket this uniform is sent to (zero-mass buckets share boundaries)
            if sel < len(s._cum_ps):
                pts.append((u, "axis_bucket_upper_boundary" if s._is_axis[sel] else "bucket_upper_boundary"))
    hi = float(np.nextafter(float(s.uniform.high), 0.0))
    if hi > float(s._cum_ps[-1]):
        pts.append((hi, "above_last_cumulated_probability"))
    pts = [(u, k) for u, k in pts if 0.0 < u]
    try:
        model = ctx.lean(f"adnd-draw {T} {wl([u for u, _ in pts])}")[1:-1].split(",")
    except Exception:  # noqa
        model = [None] * len(pts)
    for (u, kind), mtok in zip(pts, model):
        ctx.branches[f"c02.factory.boundary:{kind}"] += 1
        mstate = None if mtok in (None, "X") else tuple(int(v) - o for v, o in zip(mtok.split(":"), oc))
        try:
            r = single(u)
            ok = all(0 <= r[k] + oc[k] < sizes[k] for k in range(dim)) and any(r)
            what = None if ok else ("origin" if not any(r) else "outside_grid")
        except Exception as e:  # noqa
            r, ok, what = repr(e), False, "raises"
        if not ok:
            ctx.fail("oracle", "c02.factory.boundary", d,
                     {"what": "inadmissible result for a uniform on a bucket boundary (don't-care point: any grid state other than the origin would do)",
                      "u": u, "returned": str(r), "model": str(mstate)},
                     cls=dict(cls, point=kind, returned=what), mirrors_model=(mstate == r) if what != "raises" else (mtok == "X"))


def nd_build_check(ctx, d, cls, s, oc, sizes):
    """tie of M's `AdaptedNd.build` (model of `_pre_computation`) to the implementation: bucket boxes and axis flags exactly,
    cumulated probabilities and axis vectors to 2^-40 (float cumsum against exact sums of the same box masses)"""
    from rpylib.grid.grid import Coordinates
    grid = s.grid

    def mass_of(box):
        a_c, b_c = zip(*box)
        a_cc, b_cc = Coordinates(a_c), Coordinates(b_c)
        return float(s._compute_probability(grid.middle(grid.left_point(a_cc), grid[a_cc]), grid.middle(grid[b_cc], grid.right_point(b_cc))))
    keys, vals = [], []
    for b, coords in enumerate(s._buckets_coordinates):
        box = [(int(l), int(r)) for l, r in coords]
        keys.append([v for lr in box for v in lr])
        vals.append(mass_of(box))
        if s._is_axis[b]:
            k = next(i for i, (l, r) in enumerate(box) if l != r)
            for c in range(box[k][0], box[k][1] + 1):
                pt = list(box)
                pt[k] = (c, c)
                keys.append([v for lr in pt for v in lr])
                vals.append(mass_of(pt))
    low = 1 if len(grid.axes) * len(grid.axes[0]) < 10_001 else 0
    wbox = lambda rows: "[" + ";".join(",".join(str(v) for v in r) for r in rows) + "]"
    out = ctx.lean(f"adnd-build {ilist(oc)} {ilist(sizes)} {low} {wbox(keys)} {wl(vals)}").split(" ")
    impl_boxes = wbox([[int(v) for lr in coords for v in lr] for coords in s._buckets_coordinates])
    impl_flags = ilist([1 if x else 0 for x in s._is_axis])
    ctx.branches["c02.adnd.build"] += 1
    if out[0] != impl_boxes or out[1] != impl_flags:
        ctx.fail("corr", "c02.factory.tables", d, {"name": "AdaptedNd.build vs _pre_computation (bucket boxes / axis flags)", "impl": [impl_boxes[:300], impl_flags],
                                                   "model": [out[0][:300], out[1]]}, cls=cls)
        return
    mcum = rdl(out[2])
    if any(abs(fr(float(x)) - y) > TOL for x, y in zip(s._cum_ps, mcum)):
        ctx.fail("corr", "c02.factory.tables", d, {"name": "AdaptedNd.build vs _pre_computation (cumulated bucket probabilities)"}, cls=cls)
    rows = out[3][1:-1].split(";")
    for b, row in enumerate(rows):
        if s._is_axis[b]:
            mv = [Fraction(x) for x in row.split(",")]
            iv = [fr(float(x)) for x in s._precomputed_cum_p_for_axes[b]]
            if len(mv) != len(iv) or any(abs(x - y) > TOL for x, y in zip(iv, mv)):
                ctx.fail("corr", "c02.factory.tables", d, {"name": "AdaptedNd.build vs _pre_computation (precomputed axis vector)", "bucket": b}, cls=cls)
                return


def lattice_case(ctx, d, cls, mk, mname, swept_single, cells, target):
    """(a) the sampler as a function of u on a lattice of uniforms that does NOT come from M's predicted cells (odd
    multiples of 1/(2K), and 2^-k / 1 - 2^-k towards both ends), asked in random order on a never-used instance.
    Oracle, exactly the property: the returned state is a state of the grid box other than the origin with positive
    probability; the inversion sampler's `np.random.choice` fallback (enumeration exhausted -> random frontier state) is not
    reached for a uniform below the total mass; the answer equals the one of the instance swept before (history).
    Tie: the answer is the state of M's cell containing u."""
    rng = ctx.rng
    K = ctx.n(192, 1024)
    total = float(sum(target.values()))
    top = min(1.0, total) - 2.0 ** -34           # the float-sum sliver [sum p, 1) is not judged (ASSUMPTIONS)
    us = [(2 * i + 1) / (2.0 * K) for i in range(K)] + [2.0 ** -k for k in range(2, 40, 3)] + [1.0 - 2.0 ** -k for k in range(2, 34)]
    us = sorted({u for u in us if 0.0 < u < top})
    rng.shuffle(us)
    ctx.count("c02.lattice", dict(d, stream="lattice", K=K), nontrivial=sum(1 for v in target.values() if v > 0) >= 3,
              branch=f"{mname}:{cls['dim']}d:{cls['grid']}")
    fallback, forbidden, differs, off = [], [], [], []
    orig_choice = np.random.choice
    predicted = cell_lookup(cells)
    try:
        fresh = mk().sampling
        for u in us:
            hit = []
            with Patch(np.random, "choice", lambda *a, **k: (hit.append(u), orig_choice(*a, **k))[1]):
                r = canon(fresh.sample_with_u(u)) if mname == "INVERSION" else canon(fresh.sample_with_us(np.array([u]))[0])
            if hit:
                fallback.append({"u": u, "returned": str(r)})
            if r not in target or target[r] <= 0:
                forbidden.append({"u": u, "returned": str(r), "why": "origin" if (isinstance(r, tuple) and not any(r)) else
                                  "outside_grid" if r not in target else "zero_probability"})
            if (r2 := swept_single(u)) != r:
                differs.append({"u": u, "fresh_random_order": str(r), "swept_instance": str(r2)})
            want = predicted(u)
            if want is not None and want != r:
                off.append({"u": u, "impl": str(r), "model": str(want)})
    except Exception as e:  # noqa
        ctx.fail("oracle", "c02.lattice.raises", d, {"raised": repr(e)}, cls=cls)
        return
    if off:
        ctx.fail("corr", "c02.lattice.draw", d, {"name": f"{mname}: lattice of uniforms vs M's cells", "mismatches": off[:5], "count": len(off)}, cls=cls)
    if fallback or forbidden:
        ctx.fail("oracle", "c02.lattice.admissible", d,
                 {"what": "a uniform below the total mass is sent to a state of probability zero / the origin / a state outside the grid, "
                          "or the enumeration of the inversion sampler is exhausted (random frontier state)",
                  "forbidden": forbidden[:5], "forbidden_count": len(forbidden), "fallback": fallback[:5], "fallback_count": len(fallback),
                  "lattice_points": len(us), "total_mass": total}, cls=cls)
    if differs:
        ctx.fail("oracle", "c02.lattice.history", d, {"what": "a never-used instance asked the lattice in random order answers differently from the instance swept before",
                                                      "first": differs[:4], "count": len(differs)}, cls=dict(cls, stream="history"))


def parse_nd_cells(tok, oc):
    """cells of M's n-d model `[i:j,lo,hi;…]` as (state increment, lo, hi)"""
    out = []
    inner = tok.strip()[1:-1]
    if inner:
        for part in inner.split(";"):
            st, lo, hi = part.split(",")
            out.append((tuple(int(v) - o for v, o in zip(st.split(":"), oc)), Fraction(lo), Fraction(hi)))
    return out


def copula_case(ctx, margins_desc, cop, gkind, gkw, mname, firsts=()):
    rng = ctx.rng
    dim = len(margins_desc)
    mk_model = lambda: zoo.make_copula_model([zoo.make_levy(f, p) for f, p in margins_desc], zoo.make_copula(cop))
    if gkind == "credit":
        mk_grid = lambda: zoo.CTMCCredit(h=gkw["h"], level_a=gkw["a"], model=mk_model(), symmetric_grid=gkw["sym"])
    elif gkind == "hand":     # the base constructor CTMCGrid(h, origin_coordinate, axes): one explicit axis per margin, lengths may differ
        mk_grid = lambda: zoo.CTMCGrid(h=gkw["h"], origin_coordinate=gkw["o"], axes=[np.array(a, dtype=float) for a in gkw["axes"]])
    else:
        mk_grid = lambda: zoo.make_grid("fixed", None, gkw["h"], dimension=len(margins_desc), nb_of_points=gkw["nb"])[0]
    method = SamplingMethod[mname]
    d = {"stream": "factory2d", "margins": margins_desc, "copula": cop, "grid": gkind, "gkw": gkw, "method": mname}
    if firsts:
        d["firsts"] = list(firsts)
    cls = {"stream": "factory", "method": mname.lower(), "grid": gkind, "dim": len(margins_desc)}
    mk = lambda: MarkovChainLevyCopula(mk_model(), mk_grid(), method)
    try:
        g = mk_grid()
    except Exception as e:  # noqa: grid constructor rejected these arguments (C13's subject)
        ctx.branches[f"c02.grid_raises:{gkind}2d:{type(e).__name__}"] += 1
        return
    try:
        oc = tuple(int(c) for c in g.origin_coordinate)
        sizes = [len(a) for a in g.axes]
        cls["unequal_axes"] = len(set(sizes)) > 1
        ref_proc = MarkovChainLevyCopula(mk_model(), mk_grid(), SamplingMethod.INVERSION)
        ref = ref_proc.sampling
        states = [st for st in itertools.product(*[range(k) for k in sizes]) if st != oc]
        if gkind == "hand":
            # pure target: the cell of a state is cut at the midpoints to ITS OWN axis' neighbours (clamped at that axis' ends),
            # read from the axis lists of the description - no call of grid.left_point / right_point / middle / outside
            axl = [[float(x) for x in a] for a in gkw["axes"]]
            lo_c = lambda st: tuple(0.5 * (axl[k][max(0, c - 1)] + axl[k][c]) for k, c in enumerate(st))
            hi_c = lambda st: tuple(0.5 * (axl[k][c] + axl[k][min(len(axl[k]) - 1, c + 1)]) for k, c in enumerate(st))
            lam = float(ref_proc.intensity_of_jumps)
            target = {tuple(a - b for a, b in zip(st, oc)): fr(max(float(ref_proc.model.mass(lo_c(st), hi_c(st))), 0.0) / lam) for st in states}
            ctx.branches["c02.hand.axis_lengths:" + ("unequal" if len(set(sizes)) > 1 else "equal")] += 1
            if len(set(sizes)) > 1:
                ctx.branches["c02.hand.longest_axis:" + ("first" if sizes[0] == max(sizes) else "last" if sizes[-1] == max(sizes) else "inner")] += 1
        else:
            target = {tuple(a - b for a, b in zip(st, oc)): fr(float(ref.probability_to_jump_to_state(tuple(a - b for a, b in zip(st, oc)))))
                      for st in states}                          # joint mass of the cell / lambda (C01)
        # (v) cross-instance history in 2-d: other samplers on identical grids draw before the swept one is built
        others = []
        for m in firsts:
            a = MarkovChainLevyCopula(mk_model(), mk_grid(), SamplingMethod[m]).sampling
            for _ in range(6):
                u = rng.random() * 0.98
                canon(a.sample_with_u(u)) if m == "INVERSION" else canon(a.sample_with_us(np.array([u]))[0])
            others.append((m, a))
        s = mk().sampling
    except Exception as e:  # noqa
        ctx.count("c02.factory", d, nontrivial=False, branch=f"{mname}:2d:raises")
        ctx.fail("oracle", "c02.factory.raises", d, {"raised": repr(e)}, cls=cls)
        return
    ctx.count("c02.factory", d, branch=f"{mname}:{len(margins_desc)}d:{gkind}")
    env = None
    try:
        if mname == "INVERSION":
            adm, prob, incs, mf, pure_mf = pure_env_nd(ctx, s, oc, sizes)
            env = (adm, prob, incs, mf)
            ctx.branches[f"c02.inversion.bound:{dim}d:" + ("implementation_below_last_inside_index" if mf < pure_mf else
                                                          "equal" if mf == pure_mf else "implementation_above")] += 1
            ctx.branches[f"c02.inversion.skipped_indices:{dim}d:" + ("yes" if 0 in adm[:pure_mf + 1] else "no")] += 1
            calls = []
            orig_choice = np.random.choice

            def single(u):
                with Patch(np.random, "choice", lambda *a, **k: (calls.append(u), orig_choice(*a, **k))[1]):
                    return canon(s.sample_with_u(u))
            cells = [(incs[k], a, b) for k, a, b in parse_cells(ctx.lean(f"inv-cells {ilist(adm)} {mf} {wl(prob)}"))]
        else:
            single = lambda u: canon(s.sample_with_us(np.array([u]))[0])
            T, nkeys, defect = nd_tables(s)
            ctx.branches[f"c02.adnd.mass_table_entries:{min(nkeys // 100, 20) * 100}+"] += 1
            ctx.branches["c02.adnd.additive_and_consistent_defect:" + ("<=2^-40" if defect <= 2.0 ** -40 else "<=2^-30" if defect <= 2.0 ** -30 else ">2^-30")] += 1
            cells = parse_nd_cells(ctx.lean(f"adnd-cells {T}"), oc)
            nd_build_check(ctx, d, cls, s, oc, sizes)
        total = sum((b - a for _, a, b in cells if b > a), Fraction(0))
        law, bad, excl = law_from_cells(ctx, cells, single)
        if mname == "INVERSION" and calls:
            ctx.fail("oracle", "c02.factory.law", d, {"what": "enumeration exhausted (random frontier state) for a uniform below the total mass", "u": calls[:3]}, cls=cls)
    except Exception as e:  # noqa
        ctx.fail("oracle", "c02.factory.raises", d, {"raised": repr(e)}, cls=cls)
        return
    if abs(total - 1) > Fraction(1, 2 ** 36):
        ctx.fail("corr", "c02.factory.cells", d, {"name": f"{mname} {dim}-d: predicted cells do not fill [0,1)", "total": float(total)}, cls=cls)
    if bad:
        ctx.fail("corr", "c02.factory.draw", d, {"name": f"{mname} {dim}-d: implementation at inside points of the predicted cells", "mismatches": bad[:5]}, cls=cls)
    worst = None
    for st, t in target.items():
        err = abs(law.get(st, Fraction(0)) - t)
        if err > Fraction(1, 2 ** 36) + excl and (worst is None or err > worst[1]):     # sums of ~10 float masses per state
            worst = (st, err)
    forb = [str(k) for k, v in law.items() if v > 0 and (k not in target or target[k] == 0)]
    if worst or forb:
        ctx.fail("oracle", "c02.factory.law", d, {"what": "length of the set of u sent to a state != joint cell mass / lambda, or a forbidden state is returned",
                                                  "worst_state": None if not worst else {"increment": list(worst[0]), "measured": float(law.get(worst[0], 0)), "target": float(target[worst[0]])},
                                                  "forbidden": forb[:5]}, cls=cls)
    us = [u for _, lo, hi in cells for u in probe_points(lo, hi)[:1]]
    rng.shuffle(us)
    if mname != "INVERSION" and us:
        try:
            sub = us[:400]
            got = [single(u) for u in sub]
            mod = [None if t == "X" else tuple(int(v) - o for v, o in zip(t.split(":"), oc))
                   for t in ctx.lean(f"adnd-draw {T} {wl(sub)}")[1:-1].split(",")]
            if got != mod:
                i = next(i for i, (a, b) in enumerate(zip(got, mod)) if a != b)
                ctx.fail("corr", "c02.factory.draw", d, {"name": "AdaptedNd.draw vs sample_with_us on the extracted tables", "u": sub[i], "impl": str(got[i]), "model": str(mod[i])}, cls=cls)
        except Exception as e:  # noqa
            ctx.fail("oracle", "c02.factory.raises", d, {"raised": repr(e)}, cls=cls)
    batch_case(ctx, d, cls, s, single, us[:30])
    lattice_case(ctx, d, cls, mk, mname, single, cells, target)
    if mname != "INVERSION":
        nd_boundary_points(ctx, d, cls, s, T, oc, sizes, single)
    # (a 4-d joint mass costs ~10 times a 3-d one and a capped memo re-enumerates the states at every draw: fewer draws from
    # dimension 3 on, and the default memo size on 4-d grids with more than 200 states)
    history_case(ctx, d, cls, mk, cells, None, env=env, nd=True, steps=None if dim <= 2 else ctx.n(60, 150) if dim == 3 else ctx.n(20, 60),
                 lower_cap=not (dim >= 4 and len(target) > 200))
    if firsts:
        interleave_2d(ctx, d, cls, mname, [(mname, s)] + others, mk, cells)


def hand_grid_kw(rng, dim, lengths="unequal"):
    """arguments of a hand-built CTMCGrid(h, origin_coordinate, axes): every axis has `o` points left of 0 (the constructor takes
    ONE origin coordinate for all axes) spaced h next to the origin, and its own number of points on the right.  `lengths`:
    "unequal" = the numbers of points per axis are pairwise different where possible and the LONGEST axis is at a random position
    (first, last or in between - code that reads len(axes[0]) for every axis is wrong in one direction when axes[0] is short and
    in the other when it is long); "equal" = the same pattern with equal lengths (control).  Beyond the first step the spacing is
    uniform or geometric per axis, so the axes differ in values as well."""
    h = rng.choice([0.1, 0.05, 0.025])
    o = rng.choice([2, 3, 4] if dim == 2 else [2, 3])
    if lengths == "equal":
        rights = [rng.choice([2, 3, 4])] * dim
    else:
        rights = rng.sample([1, 2, 3, 4, 5, 6] if dim == 2 else [1, 2, 3, 4], dim)
    axes = []
    for r in rights:
        ratio = rng.choice([1.0, 1.0, 1.5, 2.0])
        steps = [h * ratio ** j for j in range(max(o, r))]
        left = [-sum(steps[:j]) for j in range(o, 0, -1)]
        right = [sum(steps[:j]) for j in range(1, r + 1)]
        axes.append([float(x) for x in left + [0.0] + right])
    return "hand", {"h": h, "o": o, "axes": axes}


def nd_inversion_plan(ctx):
    """(dimension, copula, grid kind, grid arguments) of the n-d INVERSION chains of a run"""
    rng = ctx.rng
    fixed = lambda dim, nbs: ("fixed", {"h": rng.choice([0.1, 0.05, 0.025]), "nb": rng.choice(nbs)})
    levels = lambda dim: [-rng.choice([0.2, 0.3, 0.4]) for _ in range(dim)]

    def credit(dim, sym):
        return "credit", {"h": 0.1, "a": levels(dim), "sym": sym}
    cops = list(zoo.COPULAS)
    rng.shuffle(cops)
    # quick: three 3-d chains, one per copula: a 5^3 box, a credit grid with the origin off the middle (7^3, 4 points left / 2 right),
    # and one of {7^3 box, symmetric credit grid 9^3}
    plan = [(3, cops[0], *fixed(3, [5])), (3, cops[1], *credit(3, False)),
            (3, cops[2], *(fixed(3, [7]) if rng.random() < 0.5 else credit(3, True)))]
    if ctx.thorough:
        for cop in zoo.COPULAS:
            plan += [(3, cop, *fixed(3, [5, 7, 9])), (3, cop, *fixed(3, [9])), (3, cop, *credit(3, False)), (3, cop, *credit(3, rng.choice([True, False]))),
                     (4, cop, *fixed(4, [3]))]
        plan += [(4, cops[0], *fixed(4, [5])), (4, cops[1], *fixed(4, [5]))]
    return plan


# ------------------------------------------------------------------------------------------------ driver
def run(ctx):
    rng = ctx.rng
    # (i) dyadic stream
    for _ in range(ctx.n(140, 500)):
        kind, p = dyadic_vector(rng, ctx.n(64, 512))
        for method in ("alias", "bst", "huffman", "table"):
            if len(p) > 128 and method == "alias" and rng.random() < 0.5:
                continue
            dyadic_case(ctx, method, kind, p)
    # fixed edge vectors (every run)
    for p in ([0.5, 0.5], [1.0, 0.0], [0.0, 1.0, 0.0], [0.25] * 4, [1 / 256] * 256, [0.0, 0.0, 0.5, 0.5, 0.0], [0.999755859375, 0.000244140625]):
        for method in ("alias", "bst", "huffman", "table"):
            dyadic_case(ctx, method, "edge", p)
    # (ii)+(iii)+(iv) factory stream, one-dimensional chains
    models = zoo.model_stream(rng, ctx.n(14, 30))
    # (v) cross-instance histories (before anything else has touched pairings of these intervals)
    cross_stream(ctx, models)
    for fam, params in models:
        kinds = list(zoo.GRID_KINDS) if ctx.thorough else rng.sample(zoo.GRID_KINDS, 3)
        if "probstep" not in kinds and rng.random() < 0.5:
            kinds[0] = "probstep"
        for kind in kinds:
            h, kw = grid_kwargs(rng, kind)
            for mname in METHODS_1D:
                one_d_chain_case(ctx, fam, params, kind, h, kw, mname, dict(stream="factory", family=fam, params=params, h=h, kw=kw, grid=kind))
    # 2-d copula chains: one fixed unequal-sided credit grid (pairing indices are skipped), then random ones
    for mname in ("INVERSION", "BINARYSEARCHTREEADAPTED"):
        copula_case(ctx, [("hem", {}), ("merton", {})], "clayton", "credit", {"h": 0.1, "a": [-0.3, -0.4], "sym": False}, mname,
                    firsts=("INVERSION", "BINARYSEARCHTREEADAPTED"))
    for _ in range(ctx.n(3, 10)):
        margins = [(rng.choice(["hem", "merton"]), {}) for _ in range(2)]
        cop = rng.choice(zoo.COPULAS)
        if rng.random() < 0.5:
            gkind, gkw = "fixed", {"h": rng.choice([0.1, 0.05]), "nb": rng.choice([5, 7])}
        else:
            gkind, gkw = "credit", {"h": 0.1, "a": [-rng.choice([0.3, 0.4]), -rng.choice([0.3, 0.4])], "sym": rng.choice([True, False])}
        for mname in ("INVERSION", "BINARYSEARCHTREEADAPTED"):
            copula_case(ctx, margins, cop, gkind, gkw, mname, firsts=rng.choice([(), (mname,), ("INVERSION", "BINARYSEARCHTREEADAPTED")]))
    # 3-d chains for the n-d adapted sampler (one small one in quick, more and larger ones in thorough)
    for i in range(ctx.n(1, 6)):
        margins = [(rng.choice(["hem", "merton"]), {}) for _ in range(3)]
        gkw = {"h": rng.choice([0.1, 0.05]), "nb": 5 if i == 0 else rng.choice([5, 7, 9])}
        copula_case(ctx, margins, rng.choice(zoo.COPULAS), "fixed", gkw, "BINARYSEARCHTREEADAPTED",
                    firsts=rng.choice([(), ("BINARYSEARCHTREEADAPTED",)]))
    # hand-built grids CTMCGrid(h, origin_coordinate, axes) whose axes have DIFFERENT numbers of points (no shipped constructor
    # produces them, the base constructor accepts them): both copula samplers in 2-d with the longest axis first and last, the
    # adapted sampler in 3-d, an equal-length hand-built control; thorough adds more of each and 3-d INVERSION chains
    hand = []
    for first_longest in (True, False):
        while True:
            gk = hand_grid_kw(rng, 2)
            if (len(gk[1]["axes"][0]) > len(gk[1]["axes"][1])) == first_longest:
                break
        hand += [(2, m, gk) for m in ("INVERSION", "BINARYSEARCHTREEADAPTED")]
    hand.append((3, "BINARYSEARCHTREEADAPTED", hand_grid_kw(rng, 3)))
    hand.append((2, "BINARYSEARCHTREEADAPTED", hand_grid_kw(rng, 2, lengths="equal")))
    for _ in range(ctx.n(0, 6)):
        dim = rng.choice([2, 2, 3])
        gk = hand_grid_kw(rng, dim)
        hand += [(dim, m, gk) for m in ("INVERSION", "BINARYSEARCHTREEADAPTED")]
    for dim, mname, (gkind, gkw) in hand:
        margins = [(rng.choice(["hem", "merton"]), {}) for _ in range(dim)]
        copula_case(ctx, margins, rng.choice(zoo.COPULAS), gkind, gkw, mname,
                    firsts=rng.choice([(), (mname,), ("INVERSION", "BINARYSEARCHTREEADAPTED")]) if dim == 2 else ())
    # n-d chains (d >= 3: the factory's pairing is the n-dimensional Rosenberg-Strong one, not increasing along a grid line) for the
    # INVERSION sampler: every copula once per run, on equal-sided fixed-size boxes and on credit grids whose origin is not the
    # middle of the axes (pairing indices skipped), small in quick; larger ones and d = 4 in thorough
    for dim, cop, gkind, gkw in nd_inversion_plan(ctx):
        margins = [(rng.choice(["hem", "merton"]), {}) for _ in range(dim)]
        copula_case(ctx, margins, cop, gkind, gkw, "INVERSION",
                    firsts=rng.choice([(), ("INVERSION",), ("INVERSION", "BINARYSEARCHTREEADAPTED")]))


def replay(ctx, rec):
    d = rec["input"]
    st = d.get("stream")
    if st == "dyadic" or ("p" in d and "method" in d and st in (None, "batch")):
        dyadic_case(ctx, d["method"], rec.get("cls", {}).get("kind", "replay"), d["p"])
    elif st == "factory2d" or "margins" in d:
        copula_case(ctx, [tuple(m) for m in d["margins"]], d["copula"], d["grid"], d["gkw"], d["method"],
                    firsts=tuple(d.get("firsts", ())))
    elif "family" in d:
        kw = dict(d["kw"])
        if "truncations" in kw:
            kw["truncations"] = tuple(kw["truncations"])
        # histories are random: replay them with a few draws of the seeded generator
        if "firsts" in d:          # cross-instance stream (histories are random: a few draws of the seeded generator)
            for _ in range(4):
                one_d_chain_case(ctx, d["family"], d["params"], d["grid"], d["h"], kw, d["method"],
                                 dict(stream="cross", family=d["family"], params=d["params"], h=d["h"], kw=d["kw"], grid=d["grid"], firsts=d["firsts"]),
                                 hist=False, pre=make_pre(d["firsts"]), stream="cross")
            return
        for _ in range(1 if st != "history" else 8):
            one_d_chain_case(ctx, d["family"], d["params"], d["grid"], d["h"], kw, d["method"],
                             dict(stream="factory", family=d["family"], params=d["params"], h=d["h"], kw=d["kw"], grid=d["grid"]))


def search(ctx):
    """extended oracle-only search when only the tie broke: more chains / vectors through the oracles"""
    for _ in range(ctx.n(100, 400)):
        kind, p = dyadic_vector(ctx.rng, 64)
        for method in ("alias", "bst", "huffman", "table"):
            dyadic_case(ctx, method, kind, p)

import logging as _logging
_logging.getLogger().setLevel(_logging.CRITICAL)     # create_table logs an error before raising; keep the run's output clean
