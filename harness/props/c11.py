"""C11 — the Lévy copulas are Lévy copulas: grounded, d-increasing, uniform margins (DESIGN.md §4 C11)."""
from __future__ import annotations

import copy
import itertools
import math
import pickle
import warnings

import numpy as np

from rpylib.distribution.levycopula import ClaytonCopula, IndependentComponentsCopula, DependentComponentsCopula
from rpylib.model import levycopulamodel as lcm
from rpylib.model import utils as model_utils

from ..common import w, wl, close, fr

RULE = ("copulas: Clayton (theta log-uniform in [0.2,5] or exactly 1; eta uniform in [0,1], dyadic, or an end point 0/1), "
        "independent, dependent; d in {2,3}; argument entries: random sign, magnitude log-uniform in [1e-4,1e4] or small dyadic, "
        "+-inf with probability ~0.15, 0 with probability ~0.05; rectangles: per coordinate two such values sorted, -inf / +inf ends, "
        "a few degenerate finite sides; every sign pattern is forced in turn. construction histories: about half of the copula objects of "
        "EVERY probe (oracles and comparisons with M alike) are not built by the class constructor at the target parameters but reach them "
        "through a second history - class constructor or model helper factory (create_clayton_copula with arguments or with its defaults, "
        "create_independent_copula, create_dependent_copula) with other legal parameter values, 0-1 intermediate stations (theta and/or eta "
        "assigned to other legal values, a rejected assignment theta <= 0, an evaluation of a sibling Clayton object with other parameters, a "
        "deepcopy / pickle round trip, at most one public evaluation), then theta and eta assigned to the target values in either order (an "
        "attribute already at its target is assigned or left alone); probe c11.history plays long histories (up to 3 stations, several "
        "evaluations of __call__ / volume / margin / x_first_derivative / conditional distribution / inverse at every station, between the two "
        "final assignments and 6-10 after them) and judges every evaluation against a freshly constructed object having the parameters assigned "
        "so far, and against formula (7) in mpmath. non-trivial = at least one finite non-zero entry; "
        "distinct = distinct (probe, copula parameters, history, vectors)")
NOT_PROVED = [
    "d-increasing in d = 3 is a theorem for Clayton (abstract generator with the third-order property Slope3; Real.rpow for every theta > 0; "
    "the executable theta = 1 float model) on every box without a corner having three infinite entries, for the dependent copula on every box of "
    "(-inf,inf]^3 (dep_three_increasing_all) and for the independent copula on the extended line outside the recorded deviation corners "
    "(indep_three_increasing); Clayton boxes in d = 3 having a corner with three infinite entries (value +inf, or NaN for eta in {0,1}) are "
    "oracle-checked / compared with M only",
    "independent copula: the theorems exclude the rectangles having an all-infinite corner with at least d-1 entries +inf, where the code deviates "
    "from Kallsen-Tankov (4.2) (known finding, negation witnesses proved in d = 2 and d = 3)",
    "Clayton for general theta: the theorems are about exact real arithmetic (Real.rpow, every theta > 0, eta in [0,1]) and rectangles without a corner having two infinite entries; "
    "the float evaluation abs(u)**(-theta), s**(-1/theta) is compared with mpmath, and the value at corners with two infinite entries (inf / NaN) is modelled exactly for theta = 1 only",
    "construction histories (parameters assigned on a live object, helper factories, copies, sibling objects) are outside M and the theorems, "
    "which are about the function of (theta, eta, u): they are covered by running every probe on such objects and by c11.history only",
    "the mixed derivative (x_first_derivative) is compared with M at theta = 1 and with mpmath partial derivatives of formula (7); no derivative is proved",
    "the conditional distribution being the xi-derivative of F(xi,x)-F(xi,-inf) is oracle-checked by finite differences only; its range [0,1], its "
    "monotonicity on x != 0 and its limits 0/1 are theorems (abstract powers; Real.rpow for every theta > 0; the executable theta = 1 model), as is "
    "the inverse identity; the value at x = 0 (the code divides by zero) is outside the theorems",
]
ASSUMPTIONS = ["a copula object stands for the copula of the values its public parameter attributes (theta, eta) hold at the moment of the "
               "evaluation, whichever way they got there (constructor, helper factory, assignment on the live object: theta is a validated "
               "read/write property, eta a public attribute); two objects with equal parameters whose values differ by more than 1e-12 "
               "(relative; volumes: of the sum of the corner magnitudes) cannot both be that copula (c11.history)",
               "x_first_derivative is read as sign(prod u) * d^dF/du_1..du_d (what the code returns and what the property's "
               "'times the product of its arguments' can only mean: the literal product u_1*...*u_d fails at every input)",
               "magnitudes are kept in [1e-4,1e4] so that abs(u)**(-theta) neither overflows nor underflows for theta <= 5"]
TRUSTED = ["mpmath (50 digits) evaluation and differentiation of Tankov's formula (7) as independent oracle for general theta"]

INF = math.inf


def guarded(probe):
    """an exception coming out of rpylib on a generated (valid) input is a failure of the property on the implementation;
    an exception of the harness itself stays an infrastructure error"""
    def deco(fn):
        def wrapped(ctx, inp):
            try:
                return fn(ctx, inp)
            except Exception as e:  # noqa
                import traceback
                frames = traceback.extract_tb(e.__traceback__)
                if not any("/rpylib/" in fr_.filename for fr_ in frames):
                    raise
                ctx.fail("oracle", probe, inp, {"what": "the implementation raises on this input", "exception": repr(e)[:300],
                                                "where": f"{frames[-1].filename}:{frames[-1].lineno}"}, cls={})
        wrapped.__name__ = fn.__name__
        return wrapped
    return deco


# ------------------------------------------------------------------------------------------------ helpers
def make(cd):
    """the copula object of the descriptor `cd`.  Without cd["hist"]: the class constructor called with the target
    parameters.  With cd["hist"]: the same copula reached through another construction history (see `play`)."""
    if cd.get("hist"):
        return play(cd)
    if cd["cop"] == "clayton":
        return ClaytonCopula(theta=cd["theta"], eta=cd["eta"])
    if cd["cop"] == "independent":
        return IndependentComponentsCopula()
    return DependentComponentsCopula()


def construct(kind, helper, params=None):
    """class constructor or model helper factory (rpylib.model.utils.create_*_copula); params None = the helper's defaults"""
    if kind == "clayton":
        if helper:
            return model_utils.create_clayton_copula() if params is None else model_utils.create_clayton_copula(theta=params[0], eta=params[1])
        return ClaytonCopula(theta=params[0], eta=params[1])
    if kind == "independent":
        return model_utils.create_independent_copula() if helper else IndependentComponentsCopula()
    return model_utils.create_dependent_copula() if helper else DependentComponentsCopula()


def evaluate(cop, st):
    """one public evaluation of a copula object, st = [kind, args...]; always a float"""
    k = st[0]
    with np.errstate(all="ignore"), warnings.catch_warnings():
        warnings.simplefilter("ignore")
        if k == "call":
            return float(cop(np.array(st[1], dtype=float)))
        if k == "vol":
            return float(lcm.volume(lambda u: cop(np.array(list(u), dtype=float)), st[1], st[2]))
        if k == "margin":
            return float(lcm.margin(cop, [st[1]], st[2])([st[3]]))
        if k == "mixed":
            return float(cop.x_first_derivative(np.array(st[1], dtype=float)))
        if k == "cond":
            return float(cop.conditional_distribution(st[1], np.array([st[2]], dtype=float))[0])
        if k == "inv":
            return float(cop.inverse_conditional_distribution(np.array(st[1]), np.array([st[2]]))[0])
    raise ValueError(f"unknown evaluation {st!r}")


EVALS = ("call", "vol", "margin", "mixed", "cond", "inv")


def play(cd, on_eval=None):
    """second construction history of the copula `cd` (hist = {"helper": bool, "init": [theta0, eta0] | "default" | None, "steps": [...]}):
    the object is built by the class or by the model helper factory with OTHER legal parameter values, then public evaluations,
    assignments of its public parameter attributes (theta: validated property, eta), rejected assignments (theta <= 0 raises
    and must leave the object as it was), evaluations of a sibling object with other parameters living in the same process and
    deepcopy / pickle round trips are interleaved; the generator ends every history with the assignments that bring the
    attributes to the target values cd["theta"], cd["eta"].  on_eval(step, value, (theta, eta) assigned so far) is called at
    every evaluation step."""
    h = cd["hist"]
    kind = cd["cop"]
    cur = None
    if kind == "clayton":
        init = h.get("init")
        cop = construct(kind, h.get("helper"), None if init == "default" else init)
        cur = [float(cop.theta), float(cop.eta)] if init == "default" else list(init)
    else:
        cop = construct(kind, h.get("helper"))
    for st in h["steps"]:
        k = st[0]
        if k == "set":
            setattr(cop, st[1], st[2])
            cur[0 if st[1] == "theta" else 1] = st[2]
        elif k == "reject":
            try:
                cop.theta = st[1]
            except ValueError:
                pass
            else:                       # not rejected: theta <= 0 is outside the property; put the legal value back
                cop.theta = cur[0]
        elif k == "sibling":
            other = construct("clayton", st[1], st[2])
            evaluate(other, st[3])
            v = evaluate(cop, st[3])      # same arguments, right after the sibling: a value remembered per class / module shows here
            evaluate(other, st[3])
            if on_eval:
                on_eval(st[3], v, tuple(cur) if cur else None)
        elif k == "copy":
            cop = copy.deepcopy(cop) if st[1] == "deepcopy" else pickle.loads(pickle.dumps(cop))
        elif k in EVALS:
            v = evaluate(cop, st)
            if on_eval:
                on_eval(st, v, tuple(cur) if cur else None)
        else:
            raise ValueError(f"unknown history step {st!r}")
    return cop


def call(cop, us):
    with np.errstate(all="ignore"), warnings.catch_warnings():
        warnings.simplefilter("ignore")
        return float(cop(np.array(list(us), dtype=float)))


def lean_name(cd):
    """name of the exact model of this copula, or None (general theta)"""
    if cd["cop"] == "clayton":
        return "clayton1" if cd["theta"] == 1.0 else None
    return "indep" if cd["cop"] == "independent" else "dep"


def lean_val(tok):
    if tok == "nan":
        return math.nan
    if tok in ("inf", "-inf"):
        return INF if tok == "inf" else -INF
    from fractions import Fraction
    return Fraction(tok)


def same(py, lean, scale=None):
    """EVal comparison: nan~nan, inf~inf exactly, finite at 2^-40 relative to `scale`"""
    if isinstance(lean, float):
        if math.isnan(lean):
            return math.isnan(py)
        return py == lean
    if math.isnan(py) or math.isinf(py):
        return False
    return close(py, lean, scale=scale if scale else max(abs(lean), fr(1) / 2 ** 200))


def draw_cop(rng, exact=False):
    k = rng.random()
    if k < 0.6:
        e = rng.random()
        eta = 0.0 if e < 0.1 else 1.0 if e < 0.2 else rng.randint(1, 63) / 64 if e < 0.5 else rng.uniform(0.01, 0.99)
        theta = 1.0 if (exact or rng.random() < 0.25) else round(math.exp(rng.uniform(math.log(0.2), math.log(5.0))), 4)
        return dict(cop="clayton", theta=theta, eta=eta)
    return dict(cop="independent") if k < 0.8 else dict(cop="dependent")


def draw_val(rng, sign=None, p_inf=0.15, p_zero=0.05):
    s = sign if sign is not None else rng.choice([-1, 1])
    k = rng.random()
    if k < p_inf:
        return s * INF
    if k < p_inf + p_zero:
        return 0.0
    if k < 0.55:
        return s * rng.randint(1, 4096) / 256
    return s * math.exp(rng.uniform(math.log(1e-4), math.log(1e4)))


def draw_rect(rng, d, pattern=None):
    """a <= b per coordinate; pattern[i] in {'-','+','0'} (negative side, positive side, straddling)"""
    a, b = [], []
    for i in range(d):
        pat = pattern[i] if pattern else rng.choice("-+0")
        if pat == "0":
            lo, hi = draw_val(rng, -1, p_zero=0.1), draw_val(rng, 1, p_zero=0.1)
        else:
            s = -1 if pat == "-" else 1
            x, y = draw_val(rng, s, p_zero=0.08), draw_val(rng, s, p_zero=0.08)
            lo, hi = min(x, y), max(x, y)
        if lo == hi and math.isinf(lo):       # an empty side at infinity is not a rectangle of (-inf,inf]^d
            lo, hi = (-INF, -1.0) if lo < 0 else (1.0, INF)
        a.append(lo)
        b.append(hi)
    return a, b


def corners(a, b):
    return [tuple(ai if pi == 0 else bi for pi, ai, bi in zip(p, a, b)) for p in itertools.product([0, 1], repeat=len(a))]


def classify(cd, pts):
    """classification used by the known findings: which recorded fault (if any) the argument vectors `pts` can reach"""
    cls = dict(copula=cd["cop"], d=len(pts[0]) if pts else 0)
    allinf = [p for p in pts if all(math.isinf(x) for x in p)]
    if cd["cop"] == "clayton":
        eta = cd["eta"]
        cls["eta_boundary"] = eta in (0.0, 1.0)
        # inf * factor with factor == 0: eta=0 and an even number of -inf, or eta=1 and an odd number
        cls["nan_corner"] = any((eta == 0.0 and sum(x < 0 for x in p) % 2 == 0) or (eta == 1.0 and sum(x < 0 for x in p) % 2 == 1)
                                for p in allinf)
    if cd["cop"] == "independent":
        # F(all infinite, at least d-1 entries +inf) is 0 in the code, +-inf in Kallsen-Tankov (4.2)
        cls["allinf_corner_dm1_pos"] = any(sum(x > 0 for x in p) >= len(p) - 1 for p in allinf)
    return cls


def draw_eval(rng, cd, params=None):
    """one public evaluation step for a history; params = (theta, eta) the object has at that moment (Clayton)"""
    kinds = ["call", "call", "vol", "margin"]
    if cd["cop"] == "clayton":
        kinds += ["mixed", "cond"] + (["inv"] if 0.0 < params[1] < 1.0 else [])
    k = rng.choice(kinds)
    d = rng.choice([2, 3])
    if k == "call":
        return ["call", [draw_val(rng) for _ in range(d)]]
    if k == "vol":
        a, b = draw_rect(rng, d)
        return ["vol", a, b]
    if k == "margin":
        return ["margin", rng.randrange(d), d, draw_val(rng, p_zero=0)]
    if k == "mixed":
        m = math.exp(rng.uniform(math.log(1e-2), math.log(1e2)))
        return ["mixed", [rng.choice([-1, 1]) * m * math.exp(rng.uniform(-2, 2)) for _ in range(d)]]
    e = rng.choice([-1, 1]) * math.exp(rng.uniform(math.log(1e-2), math.log(1e2)))
    if k == "cond":
        return ["cond", e, rng.choice([-1, 1]) * abs(e) * math.exp(rng.uniform(-3, 3))]
    return ["inv", e, rng.uniform(0.01, 0.99)]


def draw_hist(rng, cd, long=False):
    """a second construction history ending at the parameters of cd (see `play`).  short: 0-1 intermediate stations and at
    most one evaluation per station (attached to the inputs of every other probe); long: up to 3 stations, several
    evaluations at every station, between the two final assignments and after them (probe c11.history)."""
    h = dict(helper=rng.random() < 0.5, steps=[])
    steps = h["steps"]
    clay = cd["cop"] == "clayton"

    def other():
        o = draw_cop(rng)
        while o["cop"] != "clayton":
            o = draw_cop(rng)
        return o["theta"], o["eta"]

    def evals(cur, lo, hi):
        for _ in range(rng.randint(lo, hi)):
            steps.append(draw_eval(rng, cd, cur))

    def extras(cur):
        k = rng.random()
        if k < 0.15 and clay:
            steps.append(["reject", rng.choice([0.0, -1.0, -cur[0]])])
        elif k < 0.35:
            steps.append(["sibling", rng.random() < 0.5, list(other()), draw_eval(rng, cd, (1.0, 0.5))])
        elif k < 0.45:
            steps.append(["copy", rng.choice(["deepcopy", "pickle"])])

    cur = None
    if clay:
        if h["helper"] and rng.random() < 0.3:
            h["init"] = "default"
            cur = [0.7, 0.3]          # only used to choose evaluation kinds; `play` reads the actual defaults from the object
        else:
            t0, e0 = other()
            k = rng.random()          # sometimes only one of the two parameters differs from the target
            cur = [cd["theta"] if k < 0.2 else t0, cd["eta"] if 0.2 <= k < 0.4 else e0]
            h["init"] = list(cur)
    evals(cur, 0, 3 if long else 1)
    for _ in range(rng.randint(0, 3) if long else rng.choice([0, 0, 1])):
        extras(cur)
        if clay:
            t1, e1 = other()
            for name in rng.sample(["theta", "eta"], rng.choice([1, 2, 2])):
                steps.append(["set", name, t1 if name == "theta" else e1])
                cur[0 if name == "theta" else 1] = steps[-1][2]
        evals(cur, 1 if long else 0, 3 if long else 1)
    extras(cur)
    if clay:
        names = rng.sample(["theta", "eta"], 2)
        for j, name in enumerate(names):
            tgt = cd[name]
            if cur[0 if name == "theta" else 1] == tgt and rng.random() < 0.5 and h["init"] != "default":
                continue               # already at the target value: the assignment is optional (never with the library's defaults)
            steps.append(["set", name, tgt])
            cur[0 if name == "theta" else 1] = tgt
            if j == 0 and long:
                evals(cur, 0, 2)
    if long:
        evals(cur, 6, 10)
    return h


def with_hist(rng, cd, p=0.5):
    """the descriptor itself (fresh object) or, with probability p, the same copula reached through another history"""
    return dict(cd, hist=draw_hist(rng, cd)) if rng.random() < p else cd


# ------------------------------------------------------------------------------------------------ C: implementation vs M
@guarded("c11.grounded")
def p_model_copula(ctx, inp):
    cd, us = inp["cop"], inp["us"]
    name = lean_name(cd)
    cop = make(cd)
    py = call(cop, us)
    lean = lean_val(ctx.lean(f"cop {name} {w(cd.get('eta', 0))} {wl(us)}"))
    ctx.count("c11.model.copula", inp, nontrivial=any(x != 0 and not math.isinf(x) for x in us), branch=f"{name}:d{len(us)}")
    if not same(py, lean):
        ctx.fail("corr", "c11.model.copula", inp, {"name": "Drivers/C11 cop", "impl": py, "model": str(lean)})
        return False
    return True


@guarded("c11.volume_nonneg")
def p_model_volume(ctx, inp):
    cd, a, b = inp["cop"], inp["a"], inp["b"]
    name = lean_name(cd)
    cop = make(cd)
    f = lambda u: call(cop, u)
    with np.errstate(all="ignore"):
        py = float(lcm.volume(f, a, b))
    lean = lean_val(ctx.lean(f"vol {name} {w(cd.get('eta', 0))} {wl(a)} {wl(b)}"))
    scale = sum(abs(f(c)) for c in corners(a, b) if math.isfinite(f(c)))
    ctx.count("c11.model.volume", inp, branch=f"{name}:d{len(a)}")
    if not same(py, lean, scale=max(scale, 1e-300)):
        ctx.fail("corr", "c11.model.volume", inp, {"name": "Drivers/C11 vol", "impl": py, "model": str(lean)})
        return False
    return True


@guarded("c11.margin_identity")
def p_model_margin(ctx, inp):
    cd, idx, d, u = inp["cop"], inp["idx"], inp["d"], inp["u"]
    name = lean_name(cd)
    cop = make(cd)
    with np.errstate(all="ignore"), warnings.catch_warnings():
        warnings.simplefilter("ignore")
        py = float(lcm.margin(cop, idx, d)(list(u)))
    lean = lean_val(ctx.lean(f"margin {name} {w(cd.get('eta', 0))} [{','.join(map(str, idx))}] {d} {wl(u)}"))
    scale = max([abs(x) for x in u if math.isfinite(x)] + [1e-300])
    ctx.count("c11.model.margin", inp, branch=f"{name}:d{d}:I{len(idx)}")
    if not same(py, lean, scale=scale):
        ctx.fail("corr", "c11.model.margin", inp, {"name": "Drivers/C11 margin", "impl": py, "model": str(lean)})
        return False
    return True


@guarded("c11.cond_distribution")
def p_model_cond(ctx, inp):
    eta, e, x = inp["eta"], inp["e"], inp["x"]
    cop = make(dict(cop="clayton", theta=1.0, eta=eta, hist=inp.get("hist")))
    py = float(cop.conditional_distribution(e, np.array([x]))[0])
    lean = lean_val(ctx.lean(f"cond {w(eta)} {w(e)} {w(x)}"))
    ctx.count("c11.model.cond", inp)
    if not same(py, lean, scale=1):
        ctx.fail("corr", "c11.model.cond", inp, {"name": "Drivers/C11 cond", "impl": py, "model": str(lean)})
    py2 = float(cop.x_first_derivative(np.array(inp["us"], dtype=float)))
    lean2 = lean_val(ctx.lean(f"mixed {w(eta)} {wl(inp['us'])}"))
    ctx.count("c11.model.mixed", inp, branch=f"d{len(inp['us'])}")
    if not same(py2, lean2):
        ctx.fail("corr", "c11.model.mixed", inp, {"name": "Drivers/C11 mixed", "impl": py2, "model": str(lean2)})


# ------------------------------------------------------------------------------------------------ S: the property on the implementation
@guarded("c11.grounded")
def p_grounded(ctx, inp):
    cd, us = inp["cop"], inp["us"]
    v = call(make(cd), us)
    ctx.count("c11.grounded", inp, branch=cd["cop"])
    if not v == 0.0:
        ctx.fail("oracle", "c11.grounded", inp, {"what": "F(u) != 0 although an argument is 0", "F": v}, cls=classify(cd, [tuple(us)]))


@guarded("c11.volume_nonneg")
def p_volume_nonneg(ctx, inp):
    cd, a, b = inp["cop"], inp["a"], inp["b"]
    cop = make(cd)
    f = lambda u: call(cop, u)
    cs = corners(a, b)
    with np.errstate(all="ignore"):
        v = float(lcm.volume(f, a, b))
    vals = [f(c) for c in cs]
    scale = sum(abs(x) for x in vals if math.isfinite(x))
    cls = classify(cd, cs)
    ctx.count("c11.volume_nonneg", inp, branch=f"{cd['cop']}:d{len(a)}")
    if math.isnan(v) or v < -1e-12 * scale:
        mirrors = None
        name = lean_name(cd)
        if name:
            mirrors = same(v, lean_val(ctx.lean(f"vol {name} {w(cd.get('eta', 0))} {wl(a)} {wl(b)}")), scale=max(scale, 1e-300))
        elif cls.get("nan_corner"):
            mirrors = math.isnan(v)           # the recorded behaviour is NaN; any other wrong value is new
        ctx.fail("oracle", "c11.volume_nonneg", inp, {"what": "volume of a rectangle of (-inf,inf]^d is negative or NaN",
                                                     "volume": v, "corner_values": vals}, cls=cls, mirrors_model=mirrors)


@guarded("c11.margin_identity")
def p_margin_identity(ctx, inp):
    cd, i, d, u = inp["cop"], inp["i"], inp["d"], inp["u"]
    cop = make(cd)
    with np.errstate(all="ignore"), warnings.catch_warnings():
        warnings.simplefilter("ignore")
        v = float(lcm.margin(cop, [i], d)([u]))
    pts = [tuple(p[:i]) + (u,) + tuple(p[i:]) for p in itertools.product([-INF, INF], repeat=d - 1)]
    cls = classify(cd, pts)
    ctx.count("c11.margin_identity", inp, branch=f"{cd['cop']}:d{d}")
    ok = (v == u) if math.isinf(u) else (not math.isnan(v) and abs(v - u) <= 1e-12 * abs(u))
    if not ok:
        mirrors = None
        name = lean_name(cd)
        if name:
            mirrors = same(v, lean_val(ctx.lean(f"margin {name} {w(cd.get('eta', 0))} [{i}] {d} {wl([u])}")), scale=max(abs(u), 1e-300)
                           if math.isfinite(u) else None)
        elif cls.get("nan_corner"):
            mirrors = math.isnan(v)
        ctx.fail("oracle", "c11.margin_identity", inp, {"what": "one-dimensional margin is not the identity", "margin": v, "u": u},
                 cls=cls, mirrors_model=mirrors)


def mp_clayton(theta, eta, us):
    """Tankov (7) at 50 digits: 2^(2-d) (sum |u_i|^-theta)^(-1/theta) (eta 1{prod>=0} - (1-eta) 1{prod<0})"""
    import mpmath as mp
    s = sum(abs(u) ** (-theta) for u in us)
    sg = 1
    for u in us:
        sg *= -1 if u < 0 else 1
    return mp.mpf(2) ** (2 - len(us)) * s ** (-1 / theta) * (eta if sg > 0 else -(1 - eta))


@guarded("c11.clayton_formula")
def p_clayton_formula(ctx, inp):
    """general theta: implementation vs formula (7) in mpmath, and the mixed derivative vs mpmath's partial derivative"""
    import mpmath as mp
    mp.mp.dps = 50
    theta, eta, us = mp.mpf(inp["theta"]), mp.mpf(inp["eta"]), inp["us"]
    cop = make(dict(cop="clayton", theta=inp["theta"], eta=inp["eta"], hist=inp.get("hist")))
    v = call(cop, us)
    ref = mp_clayton(theta, eta, [mp.mpf(u) for u in us])
    ctx.count("c11.clayton_formula", inp, branch=f"d{len(us)}")
    if not abs(mp.mpf(v) - ref) <= mp.mpf(10) ** -11 * abs(ref) + mp.mpf(10) ** -300:
        ctx.fail("oracle", "c11.clayton_formula", inp, {"what": "Clayton copula differs from formula (7)", "impl": v, "formula": float(ref)},
                 cls=dict(copula="clayton"))
    d = len(us)
    deriv = mp.diff(lambda *z: mp_clayton(theta, eta, z), tuple(mp.mpf(u) for u in us), (1,) * d)
    sg = 1
    for u in us:
        sg *= -1 if u < 0 else 1
    got = float(cop.x_first_derivative(np.array(us, dtype=float)))
    ctx.count("c11.mixed_derivative", inp, branch=f"d{d}")
    if not abs(mp.mpf(got) - sg * deriv) <= mp.mpf(10) ** -9 * abs(deriv):
        ctx.fail("oracle", "c11.mixed_derivative", inp, {"what": "x_first_derivative != sign(prod u) * mixed partial derivative of the copula",
                                                         "impl": got, "mixed_partial": float(deriv), "sign": sg}, cls=dict(copula="clayton"))


def cond(cop, e, x):
    with np.errstate(all="ignore"):
        return float(cop.conditional_distribution(e, np.array([x], dtype=float))[0])


@guarded("c11.cond_distribution")
def p_cond_distribution(ctx, inp):
    """x -> F_eps(x) is a distribution function: values in [0,1], non-decreasing, limits 0 and 1; it is the eps-derivative
    of F(eps,x) - F(eps,-inf); the stated inverse inverts it"""
    theta, eta, e, xs = inp["theta"], inp["eta"], inp["e"], sorted(inp["xs"])
    cop = make(dict(cop="clayton", theta=theta, eta=eta, hist=inp.get("hist")))
    cls = dict(copula="clayton", eta_boundary=eta in (0.0, 1.0))
    vals = [cond(cop, e, x) for x in xs]
    ctx.count("c11.cond_distribution", inp)
    lo, hi = cond(cop, e, -INF), cond(cop, e, INF)
    bad = None
    if abs(lo) > 1e-15 or abs(hi - 1) > 1e-15:
        bad = f"limits at -inf/+inf are {lo}, {hi}"
    elif any(not (-1e-15 <= v <= 1 + 1e-15) for v in vals):
        bad = "value outside [0,1]"
    elif any(v2 < v1 - 1e-15 for v1, v2 in zip(vals, vals[1:])):
        bad = "not non-decreasing in x"
    if bad:
        ctx.fail("oracle", "c11.cond_distribution", inp, {"what": bad, "xs": xs, "values": vals}, cls=cls)
        return
    # derivative relation (central differences in eps, relative step 1e-5)
    for x in xs:
        if x == 0 or abs(e / x) > 1e3 or abs(e / x) < 1e-3:
            continue
        h = 1e-5 * abs(e)
        g = lambda t: call(cop, [t, x]) - call(cop, [t, -INF])
        fd = (g(e + h) - g(e - h)) / (2 * h)
        ctx.count("c11.cond_is_derivative", dict(inp, x=x))
        if abs(fd - cond(cop, e, x)) > 1e-6:
            ctx.fail("oracle", "c11.cond_is_derivative", dict(inp, x=x), {"what": "conditional distribution != d/d eps [F(eps,x) - F(eps,-inf)]",
                                                                       "finite_difference": fd, "impl": cond(cop, e, x)}, cls=cls)
            return
    # inverse (eta strictly inside (0,1): for eta in {0,1} the conditional law has an atom and is not invertible)
    if 0.0 < eta < 1.0:
        for x in xs:
            if x == 0:
                continue
            r = abs(e / x)
            if not (0.05 <= r <= 20):
                continue
            u = cond(cop, e, x)
            with np.errstate(all="ignore"):
                back = float(cop.inverse_conditional_distribution(np.array(e), np.array([u]))[0])
            p = (1 + r ** theta) ** (-1 - 1 / theta)
            tol = 1e-13 * (1 + r ** (-theta) + 1 / p) / (min(eta, 1 - eta) * min(theta, 1.0))
            ctx.count("c11.cond_inverse", dict(inp, x=x))
            if not abs(back - x) <= tol * abs(x):
                ctx.fail("oracle", "c11.cond_inverse", dict(inp, x=x), {"what": "inverse_conditional_distribution(eps, F_eps(x)) != x",
                                                                     "u": u, "back": back, "x": x, "tol_rel": tol}, cls=cls)
                return


def agree(x, y, scale=0.0):
    if math.isnan(x) or math.isnan(y):
        return math.isnan(x) and math.isnan(y)
    if math.isinf(x) or math.isinf(y):
        return x == y
    return abs(x - y) <= 1e-12 * max(abs(x), abs(y), scale)


@guarded("c11.history")
def p_history(ctx, inp):
    """the copula is a function of its public parameters: at every evaluation of a construction history (parameters assigned
    on the live object, evaluations in between, helper factories, sibling objects, copies) the value is the one of a freshly
    constructed object having the parameters assigned so far, and (Clayton, finite non-zero arguments) the one of formula (7)"""
    import mpmath as mp
    mp.mp.dps = 50
    cd = inp["cop"]
    bad = []

    def on_eval(st, v, params):
        if bad:
            return
        fresh = construct(cd["cop"], False, list(params) if params else None)
        ref = evaluate(fresh, st)
        scale = 0.0
        if st[0] == "vol":
            vals = [call(fresh, c) for c in corners(st[1], st[2])]
            scale = sum(abs(x) for x in vals if math.isfinite(x))
        if not agree(v, ref, scale):
            bad.append({"what": "the value on an object whose parameters were assigned after construction differs from the value on a "
                                "freshly constructed object with the same parameters (at most one of them is the copula of these parameters)",
                        "step": st, "parameters": params, "after_history": v, "fresh": ref})
            return
        if cd["cop"] == "clayton" and st[0] == "call" and all(x != 0 and math.isfinite(x) for x in st[1]):
            f7 = mp_clayton(mp.mpf(params[0]), mp.mpf(params[1]), [mp.mpf(x) for x in st[1]])
            if not abs(mp.mpf(v) - f7) <= mp.mpf(10) ** -11 * abs(f7) + mp.mpf(10) ** -300:
                bad.append({"what": "Clayton copula differs from formula (7) at the parameters assigned on the live object",
                            "step": st, "parameters": params, "impl": v, "formula": float(f7)})

    play(cd, on_eval)
    h = cd["hist"]
    ctx.count("c11.history", inp, branch=f"{cd['cop']}:{'helper' if h.get('helper') else 'class'}")
    if bad:
        ctx.fail("oracle", "c11.history", inp, bad[0], cls=dict(copula=cd["cop"], history=True))


PROBES = {"c11.model.copula": p_model_copula, "c11.model.volume": p_model_volume, "c11.model.margin": p_model_margin,
          "c11.model.cond": p_model_cond, "c11.model.mixed": p_model_cond, "c11.grounded": p_grounded,
          "c11.volume_nonneg": p_volume_nonneg, "c11.margin_identity": p_margin_identity,
          "c11.clayton_formula": p_clayton_formula, "c11.mixed_derivative": p_clayton_formula,
          "c11.cond_distribution": p_cond_distribution, "c11.cond_is_derivative": p_cond_distribution,
          "c11.cond_inverse": p_cond_distribution, "c11.history": p_history}


# ------------------------------------------------------------------------------------------------ generation
def sign_patterns(d):
    return list(itertools.product("-+0", repeat=d))


def run(ctx, oracle_only=False, factor=1):
    rng = ctx.rng
    n = ctx.n(16, 100) * factor
    # --- every sign pattern of rectangles, every copula kind, d = 2, 3
    for rep in range(4 * n):
        for d in (2, 3):
            for pat in sign_patterns(d):
                cd = with_hist(rng, draw_cop(rng, exact=(rep % 2 == 0)))
                a, b = draw_rect(rng, d, pat)
                inp = dict(cop=cd, a=a, b=b)
                p_volume_nonneg(ctx, inp)
                if lean_name(cd) and not oracle_only:
                    p_model_volume(ctx, inp)
    # --- forced all-infinite corners (the recorded faults live there) and eta end points
    for rep in range(6 * n):
        d = rng.choice([2, 3])
        cd = draw_cop(rng, exact=rng.random() < 0.5)
        if cd["cop"] == "clayton" and rng.random() < 0.5:
            cd["eta"] = rng.choice([0.0, 1.0])
        cd = with_hist(rng, cd)
        a, b = [], []
        for i in range(d):
            k = rng.choice(["lo", "hi", "both"])
            a.append(-INF if k in ("lo", "both") else draw_val(rng, p_inf=0))
            b.append(INF if k in ("hi", "both") else draw_val(rng, p_inf=0))
            if a[-1] > b[-1]:
                a[-1], b[-1] = b[-1], a[-1]
        inp = dict(cop=cd, a=a, b=b)
        p_volume_nonneg(ctx, inp)
        if lean_name(cd) and not oracle_only:
            p_model_volume(ctx, inp)
    # --- argument vectors of every sign pattern (incl. infinite / zero entries): F, groundedness, margins
    for rep in range(12 * n):
        for d in (2, 3):
            for signs in itertools.product([-1, 1], repeat=d):
                cd = with_hist(rng, draw_cop(rng, exact=(rep % 2 == 0)))
                us = [draw_val(rng, s) for s in signs]
                if lean_name(cd) and not oracle_only:
                    p_model_copula(ctx, dict(cop=cd, us=us))
                z = list(us)
                z[rng.randrange(d)] = 0.0
                p_grounded(ctx, dict(cop=cd, us=z))
                i = rng.randrange(d)
                p_margin_identity(ctx, dict(cop=cd, i=i, d=d, u=us[i]))
                if lean_name(cd) and not oracle_only:
                    k = rng.choice([1, 2]) if d == 3 else 1
                    idx = rng.sample(range(d), k)
                    p_model_margin(ctx, dict(cop=cd, idx=idx, d=d, u=[us[j] for j in idx]))
    # --- Clayton theta = 1: conditional distribution and mixed derivative against M
    if not oracle_only:
        for rep in range(40 * n):
            d = rng.choice([2, 3])
            us = [draw_val(rng, p_inf=0, p_zero=0.03) for _ in range(d)]
            e, x = draw_val(rng, p_inf=0, p_zero=0.05), draw_val(rng, p_inf=0, p_zero=0)
            eta = rng.choice([0.0, 1.0, rng.randint(1, 63) / 64, rng.uniform(0, 1)])
            inp = dict(eta=eta, e=e, x=x, us=us)
            if rng.random() < 0.5:
                inp["hist"] = draw_hist(rng, dict(cop="clayton", theta=1.0, eta=eta))
            p_model_cond(ctx, inp)
    # --- Clayton general theta: formula (7), mixed derivative (mpmath), conditional distribution and its inverse
    for rep in range(ctx.n(120, 1200) * factor):
        d = rng.choice([2, 3])
        cd = draw_cop(rng)
        while cd["cop"] != "clayton":
            cd = draw_cop(rng)
        m = math.exp(rng.uniform(math.log(1e-2), math.log(1e2)))
        us = [rng.choice([-1, 1]) * m * math.exp(rng.uniform(-2, 2)) for _ in range(d)]
        inp = dict(theta=cd["theta"], eta=cd["eta"], us=us)
        if rng.random() < 0.5:
            inp["hist"] = draw_hist(rng, cd)
        p_clayton_formula(ctx, inp)
    for rep in range(ctx.n(200, 2000) * factor):
        cd = draw_cop(rng)
        while cd["cop"] != "clayton":
            cd = draw_cop(rng)
        theta = min(max(cd["theta"], 0.3), 3.0)
        e = rng.choice([-1, 1]) * math.exp(rng.uniform(math.log(1e-2), math.log(1e2)))
        xs = [rng.choice([-1, 1]) * abs(e) * math.exp(rng.uniform(-3.5, 3.5)) for _ in range(6)] + [0.0]
        inp = dict(theta=theta, eta=cd["eta"], e=e, xs=xs)
        if rng.random() < 0.5:
            inp["hist"] = draw_hist(rng, dict(cop="clayton", theta=theta, eta=cd["eta"]))
        p_cond_distribution(ctx, inp)
    # --- construction histories: parameters assigned on the live object (from other legal values, helper factories included),
    #     evaluations interleaved with the assignments, every evaluation against a fresh object at the parameters assigned so far
    for rep in range(ctx.n(400, 4000) * factor):
        cd = draw_cop(rng, exact=rng.random() < 0.2)
        if cd["cop"] != "clayton" and rng.random() < 0.6:
            continue
        p_history(ctx, dict(cop=dict(cd, hist=draw_hist(rng, cd, long=True))))


def search(ctx):
    """the tie to M broke and no failing input was found yet: oracle-only search with a larger budget"""
    run(ctx, oracle_only=True, factor=4)


def replay(ctx, rec):
    fn = PROBES.get(rec["probe"])
    if fn is None:
        raise ValueError(f"unknown probe {rec['probe']}")
    fn(ctx, rec["input"])
