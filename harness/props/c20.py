"""C20 — Calibration reprices its target; derived parameters stay in sync with updates (DESIGN.md §4 C20).

C (correspondence): random assignment / initialisation histories on every `Parameters` class against the Lean state
machine RpylibModel/Model/Params.lean run by Drivers/C20.lean (outcome of every call and the whole `__dict__` after
every call; irrational pieces Gamma / power / sqrt are evaluated by scipy / numpy at exactly the arguments M asks for);
the parameters of the model returned by `run_default_calibration` against M's `rebuild`.
S (oracle, independent of M): constraint violations raise ValueError and leave the attribute unchanged; an object updated
by a history ending with `initialisation()` equals a directly constructed one (`__dict__`, `levy_exponent`, `nu.integrate`,
COS price); `calibrate_model_parameter`, `calibrate_model_parameter_to_atm_call`, `run_default_calibration`: value inside
the interval, repricing within 1e-6, same model type, input untouched; ValueError exactly when the target is unreachable.
Several live objects (`multi_probe`): one history interleaves assignments, initialisation() calls, deep copies, further
constructions, model rebuilds and calibration calls over 2..6 parameter objects of the same / different families (the
parameter objects of models returned by the default calibration included).  C: every object's own operation list replayed
on M (which has no state shared between objects) against what the object looked like after each of its operations, and
nobody else changed it.  S: after each successful initialisation() the object equals a directly constructed one, a model
rebuilt from it equals the directly built model, every calibration that returned reprices; all direct constructions the
oracles need are deferred to the end of the history (a construction is itself an event of such a history).
Model classes: every stream (history / calibration / interleaved / multi-object) runs the five shipped exponential classes AND
user-defined subclasses of them (`model_class`: mandated constructor (spot, r, d, parameters); overrides of df(t), of the drift
inside log_characteristic_function, both, or none); "same model type" means the object's own Python class and every reference
price of the oracles is the price of a directly constructed model of that class.
Generated (ProofsGen/C20Table): `default_calibration`, constructor arguments, acceptance pattern of every setter, the
attributes rewritten by `initialisation()` and the pricer / target configuration used inside the calibration objective are
measured on the running code and re-checked by `lake build` (objective_is_repricing_function).
"""
from __future__ import annotations

import copy
import inspect
import math
import warnings
from fractions import Fraction

import numpy as np
import scipy.special

from .. import zoo
from .. import common as cm
from ..common import w, wl, wll, rd, close, fr, Infra

from rpylib.model import utils as mu
from rpylib.model.model import ModelType
from rpylib.model.levymodel.mixed.blackscholes import BlackScholesParameters, BlackScholesModel
from rpylib.model.levymodel.mixed.merton import MertonParameters, ExponentialOfMertonModel
from rpylib.model.levymodel.mixed.hem import HEMParameters, ExponentialOfHEMModel
from rpylib.model.levymodel.purejump.variancegamma import VGParameters, ExponentialOfVarianceGammaModel
from rpylib.model.levymodel.purejump.cgmy import CGMYParameters, ExponentialOfCGMYModel
from rpylib.numerical.cosmethod import COSPricer
from rpylib.product.payoff import Vanilla, PayoffType
from rpylib.product.product import Product
from rpylib.product.underlying import Spot

LEAN_TARGETS = ["RpylibModel.Proofs.C20"]
LEAN_GEN_TARGETS = ["RpylibModel.ProofsGen.C20Table"]
GEN_FILE = cm.LEAN_DIR / "RpylibModel" / "Generated" / "C20.lean"

RULE = ("histories: 5 Parameters classes x start values x 4..14 operations drawn from {assignment of a primary / a cached "
        "attribute / a foreign attribute with a valid, boundary or violating dyadic value, initialisation()}; 'sane' histories "
        "end by re-assigning every primary inside the documented box of harness/zoo.py followed by initialisation() and feed "
        "the rebuilt-vs-direct oracle; calibration: 4 families x (defaults + zoo.draw_params incl. every CGMY activity branch) "
        "x maturity in [0.25, 2] x bs_sigma in [0.1, 0.4] x spot/r/d draws, plus products with other strikes / puts priced at a "
        "hidden parameter value, plus unreachable targets; every third model rebuilt through zoo.reinitialised, every fifth calibration "
        "repeated on the same object; edge models (zero jump intensity with the volatility as calibrated parameter = Black-Scholes limit "
        "where the answer must be bs_sigma itself, HEM p = 1); two models of different families calibrated alternately (A, B, A', B, A) "
        "and a returned model calibrated again; multi-object histories: 2..3 initial objects (45% all of one family) + up to 6 through "
        "deep copies / further constructions / the parameter objects of models returned by run_default_calibration, 5..14 random events "
        "from {assignment (accepted / rejected, primary / cached / foreign attribute) on a random object, initialisation() of a random "
        "object, deepcopy, construction, model rebuild, calibrate_model_parameter / _to_atm_call / run_default_calibration on a model "
        "built earlier in the history or on a fresh one (product targets priced at a hidden value inside the interval)}, then a batch "
        "update: primaries of every object re-assigned inside the documented box, possibly a calibration on another model, "
        "initialisation() of every object in random order, a model rebuilt from every object. model classes: in every stream a share "
        "of the models (a dedicated calibration stream of 8 per family, every other interleaved pair incl. two different subclasses of "
        "one shipped class on the same parameters, 40% of the multi-object build events, every 4th history) are instances of "
        "USER-DEFINED subclasses of the shipped exponential classes with the mandated constructor (spot, r, d, parameters): no "
        "override / df(t) on a curve r - level / extra drift -level in log_characteristic_function set up in an overridden __init__ / "
        "both, level in {0.005, 0.02, -0.01, 0.04}; reachability, market prices at hidden values and repricing are computed with "
        "the object's own class. non-trivial = history with >= 1 accepted "
        "assignment and >= 1 initialisation, or a calibration whose reachability was decided by the sign of the objective at both "
        "interval ends, or a multi-object history in which another object's initialisation() / a calibration ran between an object's "
        "accepted assignment and its own initialisation(); "
        "distinct = distinct (class, start, operations) / (family, parameters, product, target) / event list")
NOT_PROVED = [
    "calibrate_contract is a theorem about the model's `calibrate` UNDER the root finder's contract (returned x lies in [a,b], "
    "the objective was evaluated there and |f(x)| <= tol); scipy.optimize.brentq itself is trusted and only oracle-checked (repricing within 1e-6)",
    "the COS price as a function of the parameters and of the pricer configuration (`priceWith : PriceCfg -> Dict -> Rat` and "
    "`bsPrice : TargetCfg -> Rat` are abstract in M).  WHICH configuration the objective uses (n, l of the COSPricer, spot / r / d of the "
    "model it prices, strike, maturity, payoff) and which Black-Scholes target it evaluates are measured on the running code and the generated "
    "obligation objective_is_repricing_function re-checks at build time that they are the user's default pricer configuration and the "
    "requested target; calibrate_reprices_target / measured_calibration_reprices then give repricing under the user's pricer from the root "
    "finder's contract.  Existence of a root / reachability is decided numerically by the sign of the objective at the interval ends",
    "Gamma, power and sqrt inside the cached CGMY / VG attributes are abstract functions of M (`Irr`); their values are taken from "
    "scipy / numpy at the arguments M asks for",
    "rebuilt-vs-direct equality of levy_exponent / nu.integrate / COS price is oracle-checked; the theorem rebuilt_eq_direct is about the parameter object",
    "independence of the parameter objects living in one process (no state shared between instances / families, deep copies and "
    "calibration's private copies included) is a structural fact of M (one state per object, Drivers/C20 holds a single object); on "
    "the implementation it is compared per object over interleaved histories (c20.multi.model) and oracle-checked "
    "(c20.multi.derived_in_sync / rebuilt_vs_direct / calibrate), not proved",
    "user-defined model classes are sampled (four override kinds on the five shipped classes), not quantified over; the measured "
    "pricer / target configuration of the generated obligation objective_is_repricing_function is taken on the shipped classes only, "
    "that the objective prices a model of the caller's own class is oracle-checked (c20.calibrate.reprices / default_model, c20.multi.calibrate)",
    "float rounding of the rational cached attributes (HEM _xi, VG _c, BS variance) is compared at 2^-40 relative to the sum of the absolute terms",
]
ASSUMPTIONS = [
    "attribute values are Python floats (a numpy float64 would turn ZeroDivisionError into inf/nan + RuntimeWarning)",
    "reachable target := objective at the two interval ends has opposite strict signs (|f| > 1e-9); then brentq must return; "
    "same strict signs => ValueError; otherwise (an end value within 1e-9 of 0 or NaN) only the exception type is checked",
    "repricing tolerance 1e-6 (measured residuals over seeds 0..5: <= 1e-10), parameter-object equality exact; inside multi-object "
    "histories a returned value that misses 1e-6 is still accepted when the objective changes sign within brentq's x-tolerance "
    "(4e-12 + 1e-14 |x|) of it (the statement's 'within the root-finder tolerance', for steep objectives); the same in the single-model "
    "stream for calibrate_model_parameter / _to_atm_call values (not for the model returned by run_default_calibration, which must "
    "reprice within 1e-6): met once in a thorough run, target -1 for a call, answered at c = 2.6e-12 where the COS price of a "
    "near-degenerate CGMY model is series noise",
    "'all model types' includes user-defined subclasses of the shipped exponential classes that keep the constructor signature "
    "(spot, r, d, parameters) the library's design mandates (model/utils.py); 'same type' = same Python class; 'reprices' = the COS "
    "price of a model of that class constructed directly from the calibrated parameters; the Black-Scholes target of the default "
    "calibration stays the closed form at the model's spot / r / d whatever the subclass overrides",
    "multi-object histories calibrate only models whose parameter object is in a re-initialised state, unchanged since the model was "
    "built, and a proper model (model_ok); any ValueError of a calibration is accepted there ('or raises'), reachability is the "
    "single-model calibration stream's subject",
]
TRUSTED = ["scipy.optimize.brentq", "scipy.special.gamma, numpy.power, numpy.sqrt (values of the abstract Irr functions)",
           "rpylib COSPricer as the pricing function of the oracle (its correctness is C18's subject)"]

warnings.filterwarnings("ignore", category=RuntimeWarning)
warnings.filterwarnings("ignore", message="'where' used without 'out'")

CLASSES = {
    "bs": (BlackScholesParameters, ["sigma"], BlackScholesModel, ModelType.BLACKSCHOLES),
    "merton": (MertonParameters, ["sigma", "mu_j", "sigma_j", "intensity"], ExponentialOfMertonModel, ModelType.MERTON),
    "hem": (HEMParameters, ["sigma", "p", "eta1", "eta2", "intensity"], ExponentialOfHEMModel, ModelType.HEM),
    "vg": (VGParameters, ["sigma", "nu", "theta"], ExponentialOfVarianceGammaModel, ModelType.VG),
    "cgmy": (CGMYParameters, ["c", "g", "m", "y"], ExponentialOfCGMYModel, ModelType.CGMY),
}
DERIVED = {"bs": ["variance"], "merton": [], "hem": ["_xi"], "vg": ["_c", "_lambda_p", "_lambda_m"],
           "cgmy": ["_CGammamY", "_MpowerY", "_GpowerY"]}
# the constraints the classes declare (spec table of the oracle, from the class bodies): name -> predicate
SPEC = {
    "bs": {"sigma": ">=0"},
    "merton": {"sigma": ">=0", "mu_j": ">=0", "sigma_j": ">0", "intensity": ">=0"},
    "hem": {"sigma": ">=0", "p": ">0", "eta1": ">0", "eta2": ">0", "intensity": ">=0"},
    "vg": {"sigma": ">=0"},
    "cgmy": {"c": ">0", "g": ">=0", "m": ">=0", "y": "<2"},
}
PRED = {">=0": lambda x: x >= 0, ">0": lambda x: x > 0, "<2": lambda x: x < 2}
DEFAULTS = {
    "bs": dict(sigma=0.1),
    "merton": dict(sigma=0.05, mu_j=0.03, sigma_j=0.05, intensity=3.0),
    "hem": dict(sigma=0.05, p=0.6, eta1=20.0, eta2=25.0, intensity=3.0),
    "vg": dict(sigma=0.1, nu=0.06, theta=0.1),
    "cgmy": dict(c=1.0, g=15.0, m=20.0, y=0.5),
}
ALT = {
    "bs": dict(sigma=0.3),
    "merton": dict(sigma=0.2, mu_j=0.05, sigma_j=0.1, intensity=2.0),
    "hem": dict(sigma=0.2, p=0.5, eta1=16.0, eta2=40.0, intensity=2.0),
    "vg": dict(sigma=0.3, nu=0.2, theta=-0.05),
    "cgmy": dict(c=2.0, g=10.0, m=25.0, y=0.75),
}
GRID = [-1.0, 0.0, 0.5, 1.0, 2.0, 2.5]


# ------------------------------------------------------------------------------- user-defined exponential model classes
# The property quantifies over "all model types": every exponential-of-Lévy model the calibration functions accept, and the library's
# design asks only for the constructor signature (spot, r, d, parameters).  So next to the five shipped classes every stream of this
# check also runs USER-DEFINED SUBCLASSES of them, written with nothing but the public classes, that override something
# pricing-relevant while keeping the mandated constructor.  "Same model type" and "reprices the target" are then demanded for the
# object's OWN class and pricing behaviour (every reference model of the oracles is built with `type(model)` / the same class).
#   variant = None                      the shipped class
#   variant = [kind, level]             kind in USER_KINDS, level a small rate
#     plain              subclass without any override (only its identity differs)
#     collateral         df(t) = exp(-(r - level) t): cash flows discounted on another curve (level of either sign)
#     carry              __init__ (mandated signature) stores a borrow cost; log_characteristic_function gets the extra drift -level,
#                        hence the forward spot * mean(t) of the put-call parity too
#     collateral+carry   both
USER_KINDS = ["plain", "collateral", "carry", "collateral+carry"]
USER_LEVELS = [0.005, 0.02, -0.01, 0.04]
_USER_CLASSES = {}


def _make_user_class(base, kind, level):
    ns = {"user_kind": kind, "user_level": level, "__doc__": f"user-defined {kind} subclass of {base.__name__} (harness C20)"}
    if "collateral" in kind:
        def df(self, t):
            return np.exp(-(self.r - self.user_level) * t)
        ns["df"] = df
    if "carry" in kind:
        def __init__(self, spot, r, d, parameters):
            base.__init__(self, spot=spot, r=r, d=d, parameters=parameters)
            self.borrow_cost = self.user_level

        def log_characteristic_function(self, t, x, log_spot=None):
            return base.log_characteristic_function(self, t, x, log_spot) * np.exp(-1j * np.asarray(x) * self.borrow_cost * t)
        ns["__init__"] = __init__
        ns["log_characteristic_function"] = log_characteristic_function
    name = "User" + "".join(w_.capitalize() for w_ in kind.split("+")) + base.__name__
    return type(name, (base,), ns)


def model_class(fam, variant=None):
    """the exponential model class of a case: the shipped one, or a user-defined subclass of it (one class object per variant)"""
    base = CLASSES[fam][2]
    if not variant:
        return base
    kind, level = variant[0], float(variant[1])
    if kind not in USER_KINDS:
        raise Infra(f"unknown user model kind {kind!r}")
    key = (fam, kind, level)
    if key not in _USER_CLASSES:
        _USER_CLASSES[key] = _make_user_class(base, kind, level)
    return _USER_CLASSES[key]


def draw_variant(rng, p_user=1.0):
    """None with probability 1 - p_user, else a user-defined variant"""
    if rng.random() >= p_user:
        return None
    kind = rng.choice(USER_KINDS + ["collateral", "carry"])
    return [kind, rng.choice(USER_LEVELS)]


def variant_tag(variant):
    return "shipped" if not variant else "user:" + variant[0]


# ------------------------------------------------------------------------------------------------ generated tables
def _ratlit(x):
    f = Fraction(x)
    return f"({f.numerator} : Rat) / {f.denominator}"


def measure():
    table = []
    for mt, cfg in mu.default_calibration.items():
        a, b = cfg.parameter_interval
        table.append((mt.name, str(cfg.parameter), float(a), float(b)))
    ctor, derived, accept = [], [], []
    for fam, (cls, _prims, _exp, _mt) in CLASSES.items():
        names = [p for p in inspect.signature(cls.__init__).parameters if p != "self"]
        ctor.append((cls.__name__, names))
        obj = cls(**DEFAULTS[fam])
        for n in names:
            setattr(obj, n, ALT[fam][n])
        before = dict(obj.__dict__)
        obj.initialisation()
        after = dict(obj.__dict__)
        derived.append((cls.__name__, [k for k in after if k not in before or not (after[k] == before[k])]))
        for n in names:
            row = []
            for v in GRID:
                o = cls(**DEFAULTS[fam])
                try:
                    setattr(o, n, v)
                    row.append((v, True))
                except ValueError:
                    row.append((v, False))
            accept.append((cls.__name__, n, row))
    return dict(table=table, ctor=ctor, derived=derived, accept=accept)


PROBE_CAL = dict(spot=80.0, r=0.03, d=0.01, maturity=0.5, bs_sigma=0.2)


def measure_objective():
    """what the calibration code actually prices with: every COSPricer built and every pricing call made inside
    run_default_calibration (number of terms n, cut-off l, the spot / r / d of the model it prices, strike, maturity, payoff)
    and every Black–Scholes closed-form target it evaluates (spot, r, d, strike, maturity, sigma), recorded by subclassing
    the two classes `rpylib.model.utils` binds; next to it the configuration of a user's `COSPricer(model)` (defaults) for
    the ATM call and the requested target.  One row per calibratable family, for a model with r != 0, d != 0, spot != 1."""
    rows = []
    base_cos, base_cf = mu.COSPricer, mu.CFBlackScholes
    for fam in zoo.FAMILIES:
        cls, prims, expcls, mt = CLASSES[fam]
        pc = PROBE_CAL
        model = expcls(spot=pc["spot"], r=pc["r"], d=pc["d"], parameters=cls(**DEFAULTS[fam]))
        seen_obj, seen_tgt = [], []

        def payoff_code(product):
            pay = product.payoff
            if isinstance(pay, Vanilla):
                return 1.0 if pay.payoff_type == PayoffType.CALL else -1.0
            return 0.0

        class RecCOS(base_cos):
            def _note(self, strike, maturity, code):
                m = self.model
                row = [float(self.n), float(self.l), float(m.spot), float(m.r), float(m.d), float(np.asarray(strike).reshape(-1)[0]),
                       float(maturity), code]
                if row not in seen_obj:
                    seen_obj.append(row)

            _inside = False

            def price(self, product):
                self._note(product.payoff.strike, product.maturity, payoff_code(product))
                self._inside = True
                try:
                    return base_cos.price(self, product)
                finally:
                    self._inside = False

            def call(self, strikes, time):
                if not self._inside:
                    self._note(strikes, time, 1.0)
                return base_cos.call(self, strikes, time)

            def put(self, strikes, time):
                if not self._inside:
                    self._note(strikes, time, -1.0)
                saved, self._inside = self._inside, True
                try:
                    return base_cos.put(self, strikes, time)
                finally:
                    self._inside = saved

        class RecCF(base_cf):
            def call(self, strike, maturity):
                b = self.bs_model
                row = [float(b.spot), float(b.r), float(b.d), float(strike), float(maturity), float(b.parameters.sigma)]
                if row not in seen_tgt:
                    seen_tgt.append(row)
                return base_cf.call(self, strike, maturity)

        mu.COSPricer, mu.CFBlackScholes = RecCOS, RecCF
        try:
            with np.errstate(all="ignore"), warnings.catch_warnings():
                warnings.simplefilter("ignore")
                try:
                    mu.run_default_calibration(model, maturity=pc["maturity"], bs_sigma=pc["bs_sigma"])
                except ValueError:
                    pass                          # an unreachable target still shows which configuration was used
        finally:
            mu.COSPricer, mu.CFBlackScholes = base_cos, base_cf
        user = COSPricer(model)
        user_cfg = [float(user.n), float(user.l), pc["spot"], pc["r"], pc["d"], pc["spot"], pc["maturity"], 1.0]
        requested = [pc["spot"], pc["r"], pc["d"], pc["spot"], pc["maturity"], pc["bs_sigma"]]
        rows.append((mt.name, seen_obj, user_cfg, seen_tgt, requested))
    return rows


def generate_lean(ctx):
    try:
        m = measure()
        m["objective"] = measure_objective()
    except Exception as e:
        ctx.fail("proof", "c20.generated_obligation", {}, {"name": "measurement of the default table / derived attributes failed",
                                                          "error": repr(e)[:400]})
        return None
    s = lambda x: '"' + x + '"'
    rows = ", ".join(f"({s(a)}, {s(b)}, {_ratlit(lo)}, {_ratlit(hi)})" for a, b, lo, hi in m["table"])
    der = ", ".join(f"({s(c)}, [{', '.join(s(x) for x in l)}])" for c, l in m["derived"])
    ctor = ", ".join(f"({s(c)}, [{', '.join(s(x) for x in l)}])" for c, l in m["ctor"])
    acc = ",\n  ".join(f"({s(c)}, {s(n)}, [{', '.join(f'({_ratlit(v)}, {str(b).lower()})' for v, b in row)}])"
                       for c, n, row in m["accept"])
    rl = lambda xs: "[" + ", ".join(_ratlit(x) for x in xs) + "]"
    rll = lambda xss: "[" + ", ".join(rl(xs) for xs in xss) + "]"
    obj = ",\n  ".join(f"({s(a)}, {rll(o)}, {rl(u)}, {rll(t)}, {rl(q)})" for a, o, u, t, q in m["objective"])
    text = f"""/- GENERATED by harness/props/c20.py from measurements on the running implementation — do not edit by hand.
   defaultCalibration: rpylib.model.utils.default_calibration (model type, parameter, interval as the exact rationals of the floats);
   ctorArgs: constructor signature of every Parameters class; derivedAttrs: attributes whose value changed across
   `initialisation()` after every primary was re-assigned; acceptance: does `obj.<name> = v` store v (true) or raise ValueError;
   calibrationConfigs: per family, for run_default_calibration of a model with spot 80, r 0.03, d 0.01, maturity 0.5, bs_sigma 0.2:
   the distinct configurations [n, l, spot, r, d, strike, maturity, payoff] of the COS pricing calls made inside the objective,
   the configuration of a user's default `COSPricer(model)` for the ATM call, the distinct configurations
   [spot, r, d, strike, maturity, sigma] of the Black–Scholes closed-form targets the code evaluated, the requested target. -/
namespace Rpylib.Generated.C20
def defaultCalibration : List (String × String × Rat × Rat) := [{rows}]
def ctorArgs : List (String × List String) := [{ctor}]
def derivedAttrs : List (String × List String) := [{der}]
def acceptance : List (String × String × List (Rat × Bool)) := [
  {acc}]
def calibrationConfigs : List (String × List (List Rat) × List Rat × List (List Rat) × List Rat) := [
  {obj}]
end Rpylib.Generated.C20
"""
    if not GEN_FILE.exists() or GEN_FILE.read_text() != text:
        GEN_FILE.write_text(text)
    return {"default_calibration": [list(r) for r in m["table"]], "derived": m["derived"], "ctor": m["ctor"],
            "objective_configurations": [list(r) for r in m["objective"]]}


# ------------------------------------------------------------------------------------------------------- M interface
def eval_queries(ans):
    """evaluate the irrational functions M asks for: `[k,a,b;…]` -> table `[k,a,b,value;…]`; non-finite values are dropped
    (M then uses 0 and the attribute is excluded from the comparison)"""
    rows, bad = [], False
    inner = ans.strip()[1:-1]
    if not inner:
        return "[]", False
    for part in inner.split(";"):
        k, a, b = [Fraction(t) for t in part.split(",")]
        with np.errstate(all="ignore"):
            if k == 0:
                v = scipy.special.gamma(float(a))
            elif k == 1:
                v = np.power(float(a), float(b))
            else:
                v = np.sqrt(float(a))
        if not math.isfinite(v):
            bad = True
            continue
        rows.append([k, a, b, fr(float(v))])
    return wll(rows), bad


def parse_dict(tok):
    inner = tok.strip()[1:-1]
    out = {}
    if inner:
        for kv in inner.split(","):
            k, v = kv.split("=")
            out["extra" if k.startswith("other") else k] = Fraction(v)
    return out


def impl_dict(obj):
    return {k: v for k, v in obj.__dict__.items()}


def derived_scale(fam, name, d):
    """sum of the absolute values of the terms entering the last sum of the cached attribute (cancellation-aware)"""
    try:
        if fam == "hem" and name == "_xi":
            p, e1, e2 = (fr(d[k]) for k in ("p", "eta1", "eta2"))
            return abs(p * e1 / (e1 - 1)) + abs((1 - p) * e2 / (e2 + 1)) + 1
        if fam == "vg" and name in ("_lambda_p", "_lambda_m"):
            s2 = fr(d["sigma"]) ** 2
            rt = fr(float(np.sqrt(float(fr(d["theta"]) ** 2 + 2 * s2 / fr(d["nu"])))))
            return (rt + 3 * abs(fr(d["theta"]))) / s2
    except Exception:
        pass
    return None


def compare_dicts(fam, py, lean, skip_derived=False):
    """None if equal under the comparison rule, else a description"""
    keys_py = set(py)
    keys_lean = set(lean)
    if keys_py != keys_lean:
        return {"what": "attribute sets differ", "impl": sorted(keys_py), "model": sorted(keys_lean)}
    for k in sorted(keys_py):
        v = py[k]
        try:
            finite = math.isfinite(float(v))
        except Exception:
            return {"what": "non-numeric attribute", "name": k, "impl": repr(v)}
        if k in DERIVED[fam]:
            if skip_derived or not finite:
                continue
            sc = derived_scale(fam, k, py)
            if not close(v, lean[k], scale=sc if sc is not None else max(abs(lean[k]), Fraction(1, 2 ** 200))):
                return {"what": "cached attribute differs", "name": k, "impl": float(v), "model": str(lean[k]),
                        "model_float": float(lean[k])}
        else:
            if not finite or fr(v) != lean[k]:
                return {"what": "attribute differs", "name": k, "impl": float(v), "model": str(lean[k])}
    return None


def py_call(fn):
    try:
        fn()
        return "ok"
    except ValueError:
        return "ValueError"
    except ZeroDivisionError:
        return "ZeroDivisionError"


# ---------------------------------------------------------------------------------------- C + S: assignment histories
def draw_value(rng, fam, name, sane):
    if sane:
        box = zoo.draw_params(rng, fam) if fam != "bs" else {"sigma": round(rng.uniform(0.05, 0.5), 3)}
        if name in box:
            return float(box[name])
    r = rng.random()
    if r < 0.15:
        return float(rng.choice([0.0, 1.0, 2.0, -1.0, -0.5]))
    if r < 0.25:
        return float(-rng.randint(1, 64) / 16)
    if name in ("eta1", "eta2", "g", "m"):
        return rng.randint(17, 640) / 16
    if name == "y":
        return rng.randint(-24, 40) / 16
    if name == "theta":
        return rng.randint(-32, 32) / 128
    return rng.randint(1, 96) / 64


def make_history(rng, fam, sane):
    cls, prims, _e, _m = CLASSES[fam]
    start = dict(DEFAULTS[fam]) if rng.random() < 0.3 else {n: draw_value(rng, fam, n, True) for n in prims}
    ops = []
    names = prims + DERIVED[fam] + ["extra"]
    for _ in range(rng.randint(3, 10)):
        if rng.random() < 0.25:
            ops.append(["init"])
        else:
            n = rng.choice(names if rng.random() < 0.35 else prims)
            ops.append(["set", n, draw_value(rng, fam, n, False)])
    if sane:
        order = list(prims)
        rng.shuffle(order)
        for n in order:
            if rng.random() < 0.8:
                ops.append(["set", n, draw_value(rng, fam, n, True)])
        ops.append(["init"])
    return dict(fam=fam, start=start, ops=ops, sane=sane)


def model_ok(fam, prim):
    """final primaries for which the exponential model is a proper model (exponent finite at -i, density integrable)"""
    if fam == "hem":
        return prim["eta1"] > 1.5 and prim["eta2"] > 0.5
    if fam == "merton":
        return prim["sigma_j"] > 1e-3
    if fam == "vg":
        s2 = prim["sigma"] ** 2
        return prim["nu"] > 1e-3 and s2 > 1e-4 and 1 - 0.5 * prim["nu"] * s2 - prim["theta"] * prim["nu"] > 0.05
    if fam == "cgmy":
        return prim["m"] > 1.5 and prim["g"] > 0.5
    return True


def same(a, b):
    a, b = np.asarray(a, dtype=complex), np.asarray(b, dtype=complex)
    return a.shape == b.shape and bool(np.all((a == b) | (np.isnan(a) & np.isnan(b)) | (np.abs(a - b) <= 1e-13 * np.abs(b))))


def rebuilt_vs_direct(ctx, desc, cls_, fam, obj, with_model):
    """S: `obj` (after a history ending with a successful initialisation()) against a directly constructed object"""
    cls, prims, expcls, _m = CLASSES[fam]
    final = {n: obj.__dict__[n] for n in prims}
    try:
        direct = cls(**final)
    except Exception as e:
        ctx.fail("oracle", "c20.rebuilt_vs_direct", desc, {"what": "constructor rejects the values the object holds",
                                                           "final": final, "exception": repr(e)[:300]}, cls=cls_)
        return
    dd, do = direct.__dict__, obj.__dict__
    for k in dd:
        if k not in do or not same(do[k], dd[k]):
            ctx.fail("oracle", "c20.rebuilt_vs_direct", desc,
                     {"what": "attribute of the re-initialised object differs from the directly constructed one", "name": k,
                      "rebuilt": repr(do.get(k)), "direct": repr(dd[k]), "final": final}, cls=dict(cls_, attr=k))
            return
    if not with_model or not model_ok(fam, final):
        return
    spot, r, d = 100.0, 0.02, 0.01
    expcls = model_class(fam, desc.get("variant") if isinstance(desc, dict) else None)
    ctx.branches["c20.rebuilt_vs_direct:class:" + variant_tag(desc.get("variant") if isinstance(desc, dict) else None)] += 1
    try:
        with np.errstate(all="ignore"):
            m1 = expcls(spot=spot, r=r, d=d, parameters=obj)
            m2 = expcls(spot=spot, r=r, d=d, parameters=direct)
            us = [0.7, -1.3 + 0.4j, -1j, 4.0 - 0.5j]
            e1 = [m1.levy_model.levy_exponent(u) for u in us] + [m1.omega]
            e2 = [m2.levy_model.levy_exponent(u) for u in us] + [m2.omega]
            ivs = [(0.05, 0.4), (-0.5, -0.1), (0.2, np.inf), (-np.inf, -0.3)]
            i1 = [m1.levy_triplet.nu.integrate(a, b) for a, b in ivs] + [m1.levy_triplet.nu.integrate_against_x(0.1, 0.6)]
            i2 = [m2.levy_triplet.nu.integrate(a, b) for a, b in ivs] + [m2.levy_triplet.nu.integrate_against_x(0.1, 0.6)]
            call = Product(payoff_underlying=Spot(), payoff=Vanilla(strike=100.0, payoff_type=PayoffType.CALL), maturity=1.0)
            p1 = COSPricer(m1).price(product=call)
            p2 = COSPricer(m2).price(product=call)
    except Exception as e:
        ctx.branches["c20.rebuilt_vs_direct:model_raises:" + type(e).__name__] += 1
        return
    ctx.branches["c20.rebuilt_vs_direct:model"] += 1
    for what, a, b in (("levy_exponent / omega", e1, e2), ("nu.integrate", i1, i2), ("COS price", p1, p2)):
        if not same(a, b):
            ctx.fail("oracle", "c20.rebuilt_vs_direct", desc,
                     {"what": f"{what} of the model rebuilt from the updated parameters differs from the directly constructed model",
                      "rebuilt": repr(a), "direct": repr(b), "final": final}, cls=dict(cls_, attr=what))
            return


def history_probe(ctx, h, with_model=True):
    fam = h["fam"]
    cls, prims, _e, _m = CLASSES[fam]
    desc = h
    cls_ = dict(stream="history", family=fam, sane=h["sane"])
    start = [h["start"][n] for n in prims]
    # ---- constructor on both sides
    holder = {}
    out_py = py_call(lambda: holder.setdefault("o", cls(**h["start"])))
    tbl, nonfinite = eval_queries(ctx.lean(f"qnew {fam} {wl(start)}"))
    ans = ctx.lean(f"new {fam} {wl(start)} {tbl}").split(" ")
    if ans[0] == "bad-op":
        raise Infra(f"driver rejected new {fam}")
    accepted = inits = 0
    if out_py != ans[0]:
        ctx.count("c20.history", desc, nontrivial=False, branch=fam)
        ctx.fail("corr", "c20.history.model", desc, {"name": "Drivers/C20 new vs Parameters constructor", "op": "new",
                                                     "impl": out_py, "model": ans[0]}, cls=cls_)
        return
    if out_py != "ok":
        ctx.count("c20.history", desc, nontrivial=False, branch=fam + ":ctor_raises")
        # S: a constructor may only reject values violating a declared constraint (or a division by zero)
        viol = [n for n in prims if n in SPEC[fam] and not PRED[SPEC[fam][n]](h["start"][n])]
        if out_py == "ValueError" and not viol:
            ctx.fail("oracle", "c20.constraints", desc, {"what": "constructor raised ValueError although every argument satisfies its constraint"},
                     cls=cls_)
        return
    obj = holder["o"]
    bad = compare_dicts(fam, impl_dict(obj), parse_dict(ans[1]), skip_derived=nonfinite)
    if bad:
        ctx.count("c20.history", desc, nontrivial=False, branch=fam)
        ctx.fail("corr", "c20.history.model", desc, dict(bad, name_="Drivers/C20 new vs Parameters constructor", op="new"), cls=cls_)
        return
    stale_nonfinite = nonfinite
    for i, op in enumerate(h["ops"]):
        before = dict(obj.__dict__)
        if op[0] == "set":
            _, n, v = op
            out_py = py_call(lambda: setattr(obj, n, v))
            ans = ctx.lean(f"set {n} {w(v)}").split(" ")
            # ---- S: the declared constraint decides, and a rejected assignment leaves the object unchanged
            if n in SPEC[fam]:
                want = "ok" if PRED[SPEC[fam][n]](v) else "ValueError"
                if out_py != want:
                    ctx.fail("oracle", "c20.constraints", desc, {"op_index": i, "op": op, "what": f"assignment outcome {out_py}, the declared constraint {SPEC[fam][n]} says {want}"},
                             cls=dict(cls_, attr=n))
                    return
            if out_py != "ok" and not _same_dict(before, obj.__dict__):
                ctx.fail("oracle", "c20.constraints", desc, {"op_index": i, "op": op, "what": "rejected assignment changed the object",
                                                             "before": repr(before), "after": repr(obj.__dict__)}, cls=dict(cls_, attr=n))
                return
            if out_py == "ok":
                accepted += 1
                if n in DERIVED[fam]:
                    stale_nonfinite = False
        else:
            tbl, nonfinite = eval_queries(ctx.lean("queries"))
            out_py = py_call(obj.initialisation)
            ans = ctx.lean(f"init {tbl}").split(" ")
            stale_nonfinite = nonfinite
            inits += 1
        ctx.branches[f"c20.op:{fam}:{op[0]}:{out_py}"] += 1
        if out_py != ans[0]:
            ctx.count("c20.history", desc, nontrivial=False, branch=fam)
            ctx.fail("corr", "c20.history.model", desc, {"name": "Drivers/C20 step vs setattr / initialisation", "op_index": i, "op": op,
                                                         "impl": out_py, "model": ans[0]}, cls=cls_)
            return
        bad = compare_dicts(fam, impl_dict(obj), parse_dict(ans[1]), skip_derived=stale_nonfinite)
        if bad:
            ctx.count("c20.history", desc, nontrivial=False, branch=fam)
            ctx.fail("corr", "c20.history.model", desc, dict(bad, name="Drivers/C20 step vs setattr / initialisation", op_index=i, op=op),
                     cls=cls_)
            # the broken tie is looked at by the oracle below as well (a stale cached attribute is a failing input)
            if op[0] == "init" and out_py == "ok":
                rebuilt_vs_direct(ctx, desc, cls_, fam, obj, with_model)
            return
        if op[0] == "init" and out_py == "ok":
            rebuilt_vs_direct(ctx, desc, cls_, fam, obj, with_model and i == len(h["ops"]) - 1)
    ctx.count("c20.history", desc, nontrivial=accepted >= 1 and inits >= 1, branch=fam + (":sane" if h["sane"] else ":wild"))


def _same_dict(a, b):
    return set(a) == set(b) and all(same(a[k], b[k]) for k in a)


# ------------------------------------------------------------------------------------------- S: constraints, directed
def constraints_probe(ctx, fam):
    cls, prims, _e, _m = CLASSES[fam]
    cls_ = dict(stream="constraints", family=fam)
    for n in prims:
        spec = SPEC[fam].get(n)
        for v in [-1.0, -1e-300, -0.0, 0.0, 5e-324, 1.0, 2.0 - 2 ** -52, 2.0, 2.0 + 2 ** -51, 7.5]:
            desc = dict(fam=fam, attr=n, value=v)
            obj = cls(**DEFAULTS[fam])
            before = dict(obj.__dict__)
            out = py_call(lambda: setattr(obj, n, v))
            want = "ok" if spec is None or PRED[spec](v) else "ValueError"
            ctx.count("c20.constraints", desc, nontrivial=True, branch=fam)
            if out != want:
                ctx.fail("oracle", "c20.constraints", desc, {"what": f"assignment outcome {out}; declared constraint {spec} says {want}"},
                         cls=dict(cls_, attr=n))
            elif out == "ok" and not (obj.__dict__[n] == v):
                ctx.fail("oracle", "c20.constraints", desc, {"what": "accepted value not stored", "stored": repr(obj.__dict__[n])},
                         cls=dict(cls_, attr=n))
            elif out != "ok" and not _same_dict(before, obj.__dict__):
                ctx.fail("oracle", "c20.constraints", desc, {"what": "rejected assignment changed the object"}, cls=dict(cls_, attr=n))
            # the constructor goes through the same setters
            args = dict(DEFAULTS[fam])
            args[n] = v
            outc = py_call(lambda: cls(**args))
            if (outc == "ValueError") != (want == "ValueError"):
                ctx.fail("oracle", "c20.constraints", dict(desc, ctor=True), {"what": f"constructor outcome {outc}; constraint {spec} says {want}"},
                         cls=dict(cls_, attr=n))
            # C: M's setter
            a = ctx.lean(f"new {fam} {wl([DEFAULTS[fam][k] for k in prims])} {eval_queries(ctx.lean(f'qnew {fam} {wl([DEFAULTS[fam][k] for k in prims])}'))[0]}")
            b = ctx.lean(f"set {n} {w(v)}").split(" ")[0]
            if b != out:
                ctx.fail("corr", "c20.constraints.model", desc, {"name": "Drivers/C20 set vs property setter", "impl": out, "model": b},
                         cls=dict(cls_, attr=n))


# --------------------------------------------------------------------------------------------------- S: calibration
def bs_call(spot, strike, r, d, sigma, T):
    """Black–Scholes call, written independently of rpylib"""
    fwd = spot * math.exp((r - d) * T)
    sd = sigma * math.sqrt(T)
    d1 = math.log(fwd / strike) / sd + 0.5 * sd
    d2 = d1 - sd
    N = lambda x: 0.5 * (1 + math.erf(x / math.sqrt(2)))
    return math.exp(-r * T) * (fwd * N(d1) - strike * N(d2))


def price_with(fam, params, name, value, spot, r, d, product, expcls=None):
    """the COS price (user's default pricer) of a freshly, directly constructed model of class `expcls` (default: the shipped class
    of the family) at `params` with `name` set to `value`"""
    cls, prims, shipped, _m = CLASSES[fam]
    expcls = expcls or shipped
    args = dict(params)
    args[name] = value
    with np.errstate(all="ignore"):
        m = expcls(spot=spot, r=r, d=d, parameters=cls(**args))
        return float(np.asarray(COSPricer(m).price(product=product)).item())


def full_params(fam, params):
    p = dict(DEFAULTS[fam])
    p.update(params)
    return {k: float(v) for k, v in p.items()}


def calibration_probe(ctx, c):
    """c = dict(fam, params, spot, r, d, mode in {default, atm, product}, maturity, bs_sigma | strike, ptype, hidden, market)"""
    fam = c["fam"]
    cls, prims, _shipped, mt = CLASSES[fam]
    # the model's class: shipped, or a user-defined subclass overriding something pricing-relevant; every reference price below
    # is the price of a directly constructed model of THIS class
    expcls = model_class(fam, c.get("variant"))
    params = full_params(fam, c["params"])
    spot, r, d, T = c["spot"], c["r"], c["d"], c["maturity"]
    cfg = mu.default_calibration[mt]
    name = c.get("parameter", cfg.parameter)
    lo, hi = c.get("interval", cfg.parameter_interval)
    desc = c
    cls_ = dict(stream="calibration", family=fam, mode=c["mode"], model_class=variant_tag(c.get("variant")))
    model = expcls(spot=spot, r=r, d=d, parameters=cls(**params))
    if c.get("reinit"):
        # construction history: the same model rebuilt through an edited and re-initialised parameter object
        model = zoo.reinitialised(model, fam, params)
    snap = copy.deepcopy(model.levy_model.parameters.__dict__)
    snap_model = (model.spot, model.r, model.d, model.omega, model.levy_triplet.a, model.levy_triplet.sigma)
    if c["mode"] == "product":
        product = Product(payoff_underlying=Spot(), payoff=Vanilla(strike=c["strike"], payoff_type=PayoffType[c["ptype"]]),
                          maturity=T)
        if "market" in c:
            market = c["market"]
        else:
            market = price_with(fam, params, name, c["hidden"], spot, r, d, product, expcls)
    else:
        product = Product(payoff_underlying=Spot(), payoff=Vanilla(strike=spot, payoff_type=PayoffType.CALL), maturity=T)
        market = bs_call(spot, spot, r, d, c["bs_sigma"], T)
    # reachability, decided independently of the calibration code
    try:
        fa = price_with(fam, params, name, lo, spot, r, d, product, expcls) - market
        fb = price_with(fam, params, name, hi, spot, r, d, product, expcls) - market
    except Exception as e:
        fa = fb = float("nan")
    if math.isnan(fa) or math.isnan(fb) or abs(fa) <= 1e-9 or abs(fb) <= 1e-9:
        expect = "dontcare"
    else:
        expect = "root" if fa * fb < 0 else "raise"
    result = {}
    def call():
        if c["mode"] == "default":
            result["model"] = mu.run_default_calibration(model, maturity=T, bs_sigma=c["bs_sigma"])
            result["x"] = getattr(result["model"].levy_model.parameters, name)
        elif c["mode"] == "atm":
            result["x"] = mu.calibrate_model_parameter_to_atm_call(model=model, parameter=name, parameter_interval=(lo, hi),
                                                                   maturity=T, bs_sigma=c["bs_sigma"])
        else:
            result["x"] = mu.calibrate_model_parameter(model=model, parameter=name, parameter_interval=(lo, hi),
                                                       product=product, market_price=market)
    try:
        with np.errstate(all="ignore"):
            call()
        out = "ok"
    except ValueError as e:
        out = "ValueError"
    except Exception as e:
        ctx.count("c20.calibrate", desc, nontrivial=False, branch=fam + ":" + c["mode"])
        ctx.fail("oracle", "c20.calibrate.raises", desc, {"what": "calibration raised something other than ValueError",
                                                          "exception": repr(e)[:400]}, cls=cls_)
        return
    ctx.count("c20.calibrate", desc, nontrivial=expect != "dontcare", branch=f"{fam}:{c['mode']}:{expect}:{out}")
    ctx.branches["c20.calibrate:class:" + variant_tag(c.get("variant"))] += 1
    # input untouched, whatever happened
    after = model.levy_model.parameters.__dict__
    after_model = (model.spot, model.r, model.d, model.omega, model.levy_triplet.a, model.levy_triplet.sigma)
    if not _same_dict(snap, after) or snap_model != after_model:
        ctx.fail("oracle", "c20.calibrate.input_untouched", desc, {"before": repr(snap), "after": repr(after),
                                                                   "model_before": repr(snap_model), "model_after": repr(after_model)}, cls=cls_)
        return
    if expect == "raise" and out == "ok":
        # a returned value is acceptable iff it reprices (the ends have equal signs but an interior root may exist)
        expect = "root"
    if expect == "root" and out != "ok":
        ctx.fail("oracle", "c20.calibrate.reachable_raises", desc, {"what": "the objective changes sign over the interval but the calibration raised ValueError",
                                                                    "f_lo": fa, "f_hi": fb}, cls=cls_)
        return
    if out != "ok":
        return
    x = float(result["x"])
    if not (lo <= x <= hi):
        ctx.fail("oracle", "c20.calibrate.in_interval", desc, {"x": x, "interval": [lo, hi]}, cls=cls_)
        return
    re = price_with(fam, params, name, x, spot, r, d, product, expcls)
    if not abs(re - market) <= 1e-6 and c["mode"] != "default":
        # literally "within the root-finder tolerance": the objective changes sign within brentq's x-tolerance of the answer (seen
        # for targets no vanilla can be worth, met only by the COS series' noise at the degenerate end c -> 1e-12 of the CGMY interval)
        dx = 4e-12 + 1e-14 * abs(x)
        try:
            fl = price_with(fam, params, name, max(lo, x - dx), spot, r, d, product, expcls) - market
            fh = price_with(fam, params, name, min(hi, x + dx), spot, r, d, product, expcls) - market
        except Exception:
            fl = fh = float("nan")
        if fl * fh <= 0:
            ctx.branches["c20.calibrate:steep_objective"] += 1
            return
    if not abs(re - market) <= 1e-6:
        ctx.fail("oracle", "c20.calibrate.reprices", desc, {"x": x, "repriced": re, "market": market, "residual": re - market,
                                                            "model_class": expcls.__name__}, cls=cls_)
        return
    ctx.notes_resid = max(getattr(ctx, "notes_resid", 0.0), abs(re - market))
    if c.get("bs_limit"):
        # edge of the parameter range: zero jump intensity, calibrated parameter = the diffusion volatility: the model IS
        # Black–Scholes, so the value that reprices the Black–Scholes target is the requested volatility itself
        ctx.branches["c20.calibrate:bs_limit"] += 1
        if not abs(x - c["bs_sigma"]) <= 1e-6:
            ctx.fail("oracle", "c20.calibrate.reprices", desc, {"what": "zero-intensity model calibrated to a Black-Scholes target: the calibrated "
                                                                        "volatility differs from the requested one", "x": x, "bs_sigma": c["bs_sigma"]}, cls=cls_)
            return
    if c.get("repeat"):
        # object reuse: the same call on the same (untouched) model object must give the same answer again
        first = x
        try:
            with np.errstate(all="ignore"):
                call()
            again = float(result["x"])
        except Exception as e:
            again = repr(e)[:200]
        ctx.branches["c20.calibrate:repeat"] += 1
        if not (isinstance(again, float) and abs(again - first) <= 1e-12 * max(1.0, abs(first))):
            ctx.fail("oracle", "c20.calibrate.history", desc, {"what": "second identical calibration call on the same model object differs from the first",
                                                               "first": first, "second": again}, cls=cls_)
            return
    if c["mode"] == "default":
        cm_ = result["model"]
        what = None
        if type(cm_) is not type(model):
            what = f"type {type(cm_).__name__} instead of {type(model).__name__}"
        elif (cm_.spot, cm_.r, cm_.d) != (model.spot, model.r, model.d):
            what = "spot / r / d differ from the input model"
        elif cm_.levy_model.parameters is model.levy_model.parameters:
            what = "the returned model shares its parameters object with the input"
        else:
            own = float(np.asarray(COSPricer(cm_).price(product=product)).item())
            if not abs(own - market) <= 1e-6:
                what = f"the returned model prices the ATM call at {own}, Black-Scholes target {market}"
        if what:
            ctx.fail("oracle", "c20.calibrate.default_model", desc, {"what": what, "x": x}, cls=cls_)
            return
        # ---- C: parameters of the returned model = M's rebuild (all other primaries kept, cached attributes in sync)
        start = [params[n] for n in prims]
        ctx.lean(f"new {fam} {wl(start)} {eval_queries(ctx.lean(f'qnew {fam} {wl(start)}'))[0]}")
        tbl, nonfinite = eval_queries(ctx.lean(f"qcalib {name} {w(x)}"))
        ans = ctx.lean(f"calib {name} {w(x)} {tbl}")
        if ans == "none":
            ctx.fail("corr", "c20.calibrate.model", desc, {"name": "Drivers/C20 calib (rebuild) vs run_default_calibration",
                                                           "model": "rebuild fails", "x": x}, cls=cls_)
            return
        bad = compare_dicts(fam, impl_dict(cm_.levy_model.parameters), parse_dict(ans), skip_derived=nonfinite)
        if bad:
            ctx.fail("corr", "c20.calibrate.model", desc, dict(bad, name="Drivers/C20 calib (rebuild) vs run_default_calibration"), cls=cls_)
            # S: the same fact without M
            direct = cls(**{n: getattr(cm_.levy_model.parameters, n) for n in prims})
            if not _same_dict(direct.__dict__, cm_.levy_model.parameters.__dict__):
                ctx.fail("oracle", "c20.calibrate.default_model", desc, {"what": "parameters of the returned model differ from a direct construction with the same primaries",
                                                                        "returned": repr(cm_.levy_model.parameters.__dict__), "direct": repr(direct.__dict__)}, cls=cls_)


def _default_x(model, T, bs_sigma):
    try:
        with np.errstate(all="ignore"):
            m2 = mu.run_default_calibration(model, maturity=T, bs_sigma=bs_sigma)
        return m2
    except ValueError:
        return None


def interleaved_probe(ctx, cA, cB):
    """several objects in one process / object history: model A and model B (other family) are calibrated alternately
    (A, B, A with another target, B, A with the first target again); every returned model must reprice ITS target with a fresh
    default pricer, A's first and last answers must coincide, and a model returned by a calibration, calibrated again to the
    same target, must still reprice it"""
    desc = dict(kind="interleaved", A=cA, B=cB)
    cls_ = dict(stream="calibration", family=cA["fam"], mode="interleaved",
                model_class=variant_tag(cA.get("variant")) + " | " + variant_tag(cB.get("variant")))
    ctx.count("c20.calibrate.interleaved", desc, nontrivial=True, branch=cA["fam"] + "+" + cB["fam"])
    ctx.branches["c20.calibrate.interleaved:class:" + cls_["model_class"]] += 1
    built = {}
    for tag, c in (("A", cA), ("B", cB)):
        cls, prims, _shipped, mt = CLASSES[c["fam"]]
        expcls = model_class(c["fam"], c.get("variant"))     # shipped or user-defined (A and B may be two subclasses of one class)
        built[tag] = expcls(spot=c["spot"], r=c["r"], d=c["d"], parameters=cls(**full_params(c["fam"], c["params"])))
    plan = [("A", cA["bs_sigma"]), ("B", cB["bs_sigma"]), ("A", cA["bs_sigma2"]), ("B", cB["bs_sigma"]), ("A", cA["bs_sigma"])]
    answers = []
    for tag, sig in plan:
        c = cA if tag == "A" else cB
        m2 = _default_x(built[tag], c["maturity"], sig)
        name = mu.default_calibration[CLASSES[c["fam"]][3]].parameter
        answers.append((tag, sig, None if m2 is None else float(getattr(m2.levy_model.parameters, name))))
        if m2 is None:
            continue
        if type(m2) is not type(built[tag]):
            ctx.fail("oracle", "c20.calibrate.default_model", desc, {"what": f"model {tag}: the default calibration returned a {type(m2).__name__} "
                                                                            f"for a {type(built[tag]).__name__}", "answers": answers}, cls=cls_)
            return
        product = Product(payoff_underlying=Spot(), payoff=Vanilla(strike=c["spot"], payoff_type=PayoffType.CALL), maturity=c["maturity"])
        market = bs_call(c["spot"], c["spot"], c["r"], c["d"], sig, c["maturity"])
        own = float(np.asarray(COSPricer(m2).price(product=product)).item())
        if not abs(own - market) <= 1e-6:
            ctx.fail("oracle", "c20.calibrate.default_model", desc, {"what": f"model {tag} returned by the calibration to sigma={sig} prices the ATM call at {own}, "
                                                                            f"Black-Scholes target {market}", "answers": answers}, cls=cls_)
            return
        if tag == "A" and len(answers) == 1:
            # the returned model calibrated again to the same target
            m3 = _default_x(m2, c["maturity"], sig)
            own3 = None if m3 is None else float(np.asarray(COSPricer(m3).price(product=product)).item())
            if own3 is None or not abs(own3 - market) <= 1e-6:
                ctx.fail("oracle", "c20.calibrate.history", desc, {"what": "a model returned by the calibration, calibrated again to the same target, does not reprice it",
                                                                   "price": own3, "market": market}, cls=cls_)
                return
    a_first, a_last = answers[0][2], answers[4][2]
    b_first, b_second = answers[1][2], answers[3][2]
    same_ = lambda u, v: (u is None and v is None) or (u is not None and v is not None and abs(u - v) <= 1e-12 * max(1.0, abs(u)))
    if not same_(a_first, a_last) or not same_(b_first, b_second):
        ctx.fail("oracle", "c20.calibrate.history", desc, {"what": "the same calibration of the same untouched model object gives another answer after other "
                                                                   "calibrations ran in between", "answers": answers}, cls=cls_)


# ------------------------------------------------------ C + S: interleaved histories over SEVERAL live parameter objects
# The property quantifies over "all sequences of parameter assignments": nothing says the process holds one parameter object.
# A history here is a list of events over a growing pool of live objects (same / different families, deep copies of one another,
# the private copies the calibration makes and the parameter objects of the models it returns):
#   ["new", fam, start]            construct object #len(pool)
#   ["copy", j]                    copy.deepcopy of object j (new object)
#   ["set", j, name, value]        assignment (accepted or rejected)
#   ["init", j]                    j.initialisation()
#   ["build", j, spot, r, d]       model #len(models) rebuilt from object j with the shipped exponential class of its family
#   ["build", j, spot, r, d, v]    ... with the user-defined subclass `model_class(fam, v)` (v = [kind, level]); calibrations of such a
#                                  model, the model a default calibration returns for it and every oracle reference use that class
#   ["calib", mi, cfg]             a calibration call on model mi (mode default: the returned model and its parameter object join
#                                  the pools; slots stay empty when the call is skipped / raises, so indices are static)
# Every direct construction the ORACLES need (fresh object / fresh model at the final values, repricing) is DEFERRED until the
# whole history has run: constructing an object is itself an event of the history, and the oracle must not add events.
MULTI_FAMS = ["cgmy", "vg", "hem", "cgmy", "vg", "hem", "merton", "bs"]
MULTI_MAX_OBJECTS = 6


def make_multi(rng):
    ev, fams, clean, ver, models = [], [], [], [], []          # generator-side guesses (the run decides for itself)
    same_family = rng.random() < 0.45
    first = rng.choice(MULTI_FAMS)

    def add_new(fam=None):
        fam = fam or (first if same_family else rng.choice(MULTI_FAMS))
        prims = CLASSES[fam][1]
        start = dict(DEFAULTS[fam]) if rng.random() < 0.3 else {n: draw_value(rng, fam, n, True) for n in prims}
        ev.append(["new", fam, start])
        fams.append(fam), clean.append(True), ver.append(0)
        return len(fams) - 1

    def add_set(j, sane):
        fam = fams[j]
        prims = CLASSES[fam][1]
        names = prims + DERIVED[fam] + ["extra"]
        n = rng.choice(prims) if sane else rng.choice(names if rng.random() < 0.3 else prims)
        ev.append(["set", j, n, draw_value(rng, fam, n, sane)])
        clean[j] = False
        ver[j] += 1

    def add_init(j):
        ev.append(["init", j])
        clean[j] = True

    def add_build(j):
        e = ["build", j, rng.choice([100.0, 50.0, 1.0]), rng.choice([0.0, 0.02, 0.05]), rng.choice([0.0, 0.01, 0.03])]
        v = draw_variant(rng, 0.4)
        if v:
            e.append(v)
        ev.append(e)
        models.append((j, ver[j]))
        return len(models) - 1

    def add_calib():
        cands = [mi for mi, (j, v) in enumerate(models) if clean[j] and ver[j] == v and fams[j] in zoo.FAMILIES]
        if (not cands or rng.random() < 0.3) and len(fams) < MULTI_MAX_OBJECTS:
            fam = first if same_family and first in zoo.FAMILIES else rng.choice(zoo.FAMILIES)
            ev.append(["new", fam, full_params(fam, zoo.draw_params(rng, fam))])
            fams.append(fam), clean.append(True), ver.append(0)
            mi = add_build(len(fams) - 1)
        elif cands:
            mi = rng.choice(cands)
        else:
            return
        fam = fams[models[mi][0]]
        mode = rng.choice(["default", "default", "default", "atm", "product"])
        cfg = dict(mode=mode, maturity=round(rng.uniform(0.25, 2.0), 3))
        if mode in ("default", "atm"):
            cfg["bs_sigma"] = round(rng.uniform(0.1, 0.4), 3)
        if mode == "atm" and rng.random() < 0.5:
            alt = {"hem": ("intensity", (0.0, 30.0)), "merton": ("intensity", (0.0, 30.0)), "vg": ("nu", (0.01, 2.0)),
                   "cgmy": ("g", (2.0, 60.0))}[fam]
            cfg["parameter"], cfg["interval"] = alt[0], list(alt[1])
        if mode == "product":
            cfg["strike_rel"] = round(rng.uniform(0.85, 1.15), 4)
            cfg["ptype"] = rng.choice(["CALL", "PUT"])
            # the market price is the model's own price at a hidden value of the calibrated parameter well inside the interval:
            # a solution exists (the property's quantifier), computed when the event runs (one more construction in the history)
            lo, hi = mu.default_calibration[CLASSES[fam][3]].parameter_interval
            cfg["hidden"] = round(rng.uniform(0.05, 5.0), 3) if fam == "cgmy" else round(rng.uniform(lo + 0.02 * (hi - lo), lo + 0.6 * (hi - lo)), 4)
        ev.append(["calib", mi, cfg])
        if mode == "default":
            # the returned model (slot len(models)) and its parameter object (slot len(fams)) become live
            fams.append(fam), clean.append(True), ver.append(0)
            models.append((len(fams) - 1, 0))

    for _ in range(rng.randint(2, 3)):
        add_new()
    for _ in range(rng.randint(5, 14)):
        r = rng.random()
        j = rng.randrange(len(fams))
        if r < 0.42:
            add_set(j, sane=rng.random() < 0.35)
        elif r < 0.67:
            add_init(j)
        elif r < 0.75:
            if len(fams) < 4:
                ev.append(["copy", j])
                fams.append(fams[j]), clean.append(clean[j]), ver.append(ver[j])
        elif r < 0.80:
            if len(fams) < 4:
                add_new()
        elif r < 0.90:
            add_build(j)
        else:
            add_calib()
    # closing phase, a batch update: (most) primaries of every object re-assigned inside the documented box, possibly something
    # happening on ANOTHER object / model, then every object re-initialised, then a model rebuilt from every object
    order = list(range(len(fams)))
    rng.shuffle(order)
    for j in order:
        prims = list(CLASSES[fams[j]][1])
        rng.shuffle(prims)
        for n in prims:
            if rng.random() < 0.8:
                ev.append(["set", j, n, draw_value(rng, fams[j], n, True)])
                clean[j] = False
                ver[j] += 1
    if rng.random() < 0.3:
        add_calib()
    order = list(range(len(fams)))
    rng.shuffle(order)
    for j in order:
        add_init(j)
    for j in order:
        add_build(j)
    return dict(kind="multi", events=ev)


def observe(fam, obj, spot, r, d, expcls=None):
    """what a model (of class `expcls`, default the shipped one) built from `obj` shows: Lévy exponent / omega, integrals of the
    Lévy measure, the COS price of the ATM call"""
    expcls = expcls or CLASSES[fam][2]
    with np.errstate(all="ignore"):
        m = expcls(spot=spot, r=r, d=d, parameters=obj)
        us = [0.7, -1.3 + 0.4j, -1j, 4.0 - 0.5j]
        e = [m.levy_model.levy_exponent(u) for u in us] + [m.omega]
        ivs = [(0.05, 0.4), (-0.5, -0.1), (0.2, np.inf), (-np.inf, -0.3)]
        i = [m.levy_triplet.nu.integrate(a, b) for a, b in ivs] + [m.levy_triplet.nu.integrate_against_x(0.1, 0.6)]
        call = Product(payoff_underlying=Spot(), payoff=Vanilla(strike=spot, payoff_type=PayoffType.CALL), maturity=1.0)
        p = COSPricer(m).price(product=call)
    return [("levy_exponent / omega", e), ("nu.integrate", i), ("COS price", p)]


class _Live:
    """one live parameter object: the operations IT went through (`log`; a deep copy inherits its source's) and what it looked
    like after each of them (`snaps`: (outcome, __dict__) or None where the state could not be observed)"""
    def __init__(self, fam, obj, log, snaps, clean, version=0):
        self.fam, self.obj, self.log, self.snaps, self.clean, self.version = fam, obj, log, snaps, clean, version
        self.pending = False      # an accepted assignment not yet followed by this object's own successful initialisation()
        self.crossed = False      # ... and meanwhile ANOTHER object was initialised / a calibration ran


def lean_replay(ctx, desc, cls_, k, lv):
    """C: object k's own operation list run on M (Drivers/C20 holds one object: the model has no state shared between objects,
    which is the point) and compared with what the implementation's object looked like after each of its operations"""
    fam = lv.fam
    prims = CLASSES[fam][1]
    stale_nonfinite = False
    for i, op in enumerate(lv.log):
        if op[0] == "new":
            start = [op[1][n] for n in prims]
            tbl, stale_nonfinite = eval_queries(ctx.lean(f"qnew {fam} {wl(start)}"))
            ans = ctx.lean(f"new {fam} {wl(start)} {tbl}").split(" ")
            if ans[0] == "bad-op":
                raise Infra(f"driver rejected new {fam}")
        elif op[0] == "set":
            ans = ctx.lean(f"set {op[1]} {w(op[2])}").split(" ")
            if op[1] in DERIVED[fam] and ans[0] == "ok":
                stale_nonfinite = False
        else:
            tbl, stale_nonfinite = eval_queries(ctx.lean("queries"))
            ans = ctx.lean(f"init {tbl}").split(" ")
        if lv.snaps[i] is None:
            continue
        out_py, d_py = lv.snaps[i]
        bad = None
        if out_py != ans[0]:
            bad = {"what": "outcome differs", "impl": out_py, "model": ans[0]}
        elif out_py == "ok" or op[0] != "new":
            bad = compare_dicts(fam, d_py, parse_dict(ans[1]), skip_derived=stale_nonfinite)
        if bad:
            ctx.fail("corr", "c20.multi.model", desc, dict(bad, name="Drivers/C20 per-object replay vs the object inside an interleaved history",
                                                           object=k, op_index=i, op=op), cls=dict(cls_, family=fam))
            return False
    return True


def multi_probe(ctx, h, with_model=True):
    st = dict(pool=[], interleaved=0)
    try:
        _multi_body(ctx, h, with_model, st)
    finally:
        live = [lv for lv in st["pool"] if lv is not None]
        fams_used = {lv.fam for lv in live}
        ctx.count("c20.multi", h, nontrivial=st["interleaved"] >= 1,
                  branch=f"{min(len(live), 4)}{'+' if len(live) > 4 else ''}obj:{'same' if len(fams_used) == 1 else 'mixed'}")
        if st["interleaved"]:
            ctx.branches["c20.multi:interleaved_inits"] += st["interleaved"]


def _multi_body(ctx, h, with_model, st):
    desc = h
    pool, models = st["pool"], []  # _Live | None ;  dict(model, j, version) | None
    cls0 = dict(stream="multi")
    sync_checks, model_checks, calib_checks = [], [], []
    t_fams = set()

    def others_moved(j):
        for k, lv in enumerate(pool):
            if lv is not None and k != j and lv.pending:
                lv.crossed = True

    for t, e in enumerate(h["events"]):
        kind = e[0]
        if kind == "new":
            fam, start = e[1], e[2]
            holder = {}
            out = py_call(lambda: holder.setdefault("o", CLASSES[fam][0](**start)))
            if out != "ok":
                pool.append(None)
                ctx.branches["c20.multi:new_raises"] += 1
                continue
            pool.append(_Live(fam, holder["o"], [["new", dict(start)]], [("ok", dict(holder["o"].__dict__))], True))
            t_fams.add(fam)
        elif kind == "copy":
            src = pool[e[1]]
            if src is None:
                pool.append(None)
                continue
            lv = _Live(src.fam, copy.deepcopy(src.obj), list(src.log), list(src.snaps), src.clean, src.version)
            lv.pending, lv.crossed = src.pending, src.crossed
            pool.append(lv)
        elif kind == "set":
            lv = pool[e[1]]
            if lv is None:
                continue
            _, j, n, v = e
            fam, obj = lv.fam, lv.obj
            before = dict(obj.__dict__)
            out = py_call(lambda: setattr(obj, n, v))
            ctx.branches[f"c20.multi.op:{fam}:set:{out}"] += 1
            lv.log.append(["set", n, v])
            lv.snaps.append((out, dict(obj.__dict__)))
            cls_ = dict(cls0, family=fam, attr=n)
            if n in SPEC[fam]:
                want = "ok" if PRED[SPEC[fam][n]](v) else "ValueError"
                if out != want:
                    ctx.fail("oracle", "c20.multi.constraints", desc, {"event": t, "what": f"assignment outcome {out}, the declared constraint {SPEC[fam][n]} says {want}"},
                             cls=cls_)
                    return
            if out != "ok" and not _same_dict(before, obj.__dict__):
                ctx.fail("oracle", "c20.multi.constraints", desc, {"event": t, "what": "rejected assignment changed the object",
                                                                   "before": repr(before), "after": repr(obj.__dict__)}, cls=cls_)
                return
            if out == "ok":
                if not same(obj.__dict__.get(n), v):
                    ctx.fail("oracle", "c20.multi.constraints", desc, {"event": t, "what": "accepted value not stored",
                                                                       "stored": repr(obj.__dict__.get(n))}, cls=cls_)
                    return
                lv.clean = False
                lv.version += 1
                lv.pending = True
        elif kind == "init":
            lv = pool[e[1]]
            if lv is None:
                continue
            out = py_call(lv.obj.initialisation)
            ctx.branches[f"c20.multi.op:{lv.fam}:init:{out}"] += 1
            lv.log.append(["init"])
            lv.snaps.append((out, dict(lv.obj.__dict__)))
            others_moved(e[1])
            if out == "ok":
                if lv.pending and lv.crossed:
                    st["interleaved"] += 1
                lv.clean, lv.pending, lv.crossed = True, False, False
                sync_checks.append((t, e[1], lv.fam, dict(lv.obj.__dict__)))
            else:
                lv.clean = False
        elif kind == "build":
            lv = pool[e[1]]
            if lv is None:
                models.append(None)
                continue
            _, j, spot, r, d = e[:5]
            mcls = model_class(lv.fam, e[5] if len(e) > 5 else None)
            ctx.branches["c20.multi.build:class:" + variant_tag(e[5] if len(e) > 5 else None)] += 1
            prim = {n: lv.obj.__dict__[n] for n in CLASSES[lv.fam][1]}
            try:
                with np.errstate(all="ignore"):
                    model = mcls(spot=spot, r=r, d=d, parameters=lv.obj)
            except Exception as ex:
                ctx.branches["c20.multi.build:raises:" + type(ex).__name__] += 1
                models.append(None)
                continue
            models.append(dict(model=model, j=j, version=lv.version, mcls=mcls))
            if with_model and lv.clean and model_ok(lv.fam, prim):
                try:
                    obs = observe(lv.fam, lv.obj, spot, r, d, mcls)
                except Exception as ex:
                    ctx.branches["c20.multi.build:observe_raises:" + type(ex).__name__] += 1
                    continue
                model_checks.append((t, j, lv.fam, prim, (spot, r, d), obs, mcls))
        elif kind == "calib":
            _, mi, cfg = e
            rec = models[mi] if mi < len(models) else None
            lv = pool[rec["j"]] if rec is not None else None
            usable = (lv is not None and lv.clean and lv.version == rec["version"] and lv.fam in zoo.FAMILIES
                      and model_ok(lv.fam, {n: lv.obj.__dict__[n] for n in CLASSES[lv.fam][1]}))
            if not usable:
                ctx.branches["c20.multi.calib:skipped"] += 1
                if cfg["mode"] == "default":
                    pool.append(None), models.append(None)
                continue
            fam, model, mcls = lv.fam, rec["model"], rec["mcls"]
            mt = CLASSES[fam][3]
            dc = mu.default_calibration[mt]
            name = cfg.get("parameter", dc.parameter)
            lo, hi = cfg.get("interval", dc.parameter_interval)
            T = cfg["maturity"]
            spot, r, d = model.spot, model.r, model.d
            prim = {n: lv.obj.__dict__[n] for n in CLASSES[fam][1]}
            if cfg["mode"] == "product":
                product = Product(payoff_underlying=Spot(), payoff=Vanilla(strike=spot * cfg["strike_rel"], payoff_type=PayoffType[cfg["ptype"]]),
                                  maturity=T)
                try:
                    market = price_with(fam, prim, name, cfg["hidden"], spot, r, d, product, mcls)
                except Exception:
                    market = float("nan")
                if not math.isfinite(market):
                    ctx.branches["c20.multi.calib:skipped"] += 1
                    continue
            else:
                product = Product(payoff_underlying=Spot(), payoff=Vanilla(strike=spot, payoff_type=PayoffType.CALL), maturity=T)
                market = bs_call(spot, spot, r, d, cfg["bs_sigma"], T)
            snap = dict(lv.obj.__dict__)
            snap_model = (model.spot, model.r, model.d, model.omega, model.levy_triplet.a, model.levy_triplet.sigma)
            res = {}
            try:
                with np.errstate(all="ignore"):
                    if cfg["mode"] == "default":
                        res["model"] = mu.run_default_calibration(model, maturity=T, bs_sigma=cfg["bs_sigma"])
                        res["x"] = getattr(res["model"].levy_model.parameters, name)
                    elif cfg["mode"] == "atm":
                        res["x"] = mu.calibrate_model_parameter_to_atm_call(model=model, parameter=name, parameter_interval=(lo, hi),
                                                                            maturity=T, bs_sigma=cfg["bs_sigma"])
                    else:
                        res["x"] = mu.calibrate_model_parameter(model=model, parameter=name, parameter_interval=(lo, hi),
                                                                product=product, market_price=market)
                out = "ok"
            except ValueError:
                out = "ValueError"
            except Exception as ex:
                ctx.fail("oracle", "c20.multi.calibrate", desc, {"event": t, "what": "calibration raised something other than ValueError",
                                                                 "exception": repr(ex)[:400]}, cls=dict(cls0, family=fam, mode=cfg["mode"]))
                return
            ctx.branches[f"c20.multi.calib:{fam}:{cfg['mode']}:{out}"] += 1
            ctx.branches["c20.multi.calib:class:" + ("shipped" if mcls is CLASSES[fam][2] else "user:" + mcls.user_kind)] += 1
            others_moved(rec["j"])
            after_model = (model.spot, model.r, model.d, model.omega, model.levy_triplet.a, model.levy_triplet.sigma)
            if not _same_dict(snap, lv.obj.__dict__) or snap_model != after_model:
                ctx.fail("oracle", "c20.multi.calibrate", desc, {"event": t, "what": "the calibration changed its input model",
                                                                 "before": repr(snap), "after": repr(lv.obj.__dict__)},
                         cls=dict(cls0, family=fam, mode=cfg["mode"]))
                return
            new_lv = new_rec = None
            if out == "ok":
                x = float(res["x"])
                # the returned model is priced NOW (its parameter object is live and may be re-assigned by later events)
                own = None
                if cfg["mode"] == "default":
                    with np.errstate(all="ignore"):
                        own = float(np.asarray(COSPricer(res["model"]).price(product=product)).item())
                calib_checks.append((t, fam, prim, name, x, (lo, hi), (spot, r, d), product, market, own, mcls))
                if cfg["mode"] == "default":
                    cm_ = res["model"]
                    p2 = cm_.levy_model.parameters
                    if p2 is lv.obj or type(cm_) is not type(model):
                        ctx.fail("oracle", "c20.multi.calibrate", desc, {"event": t, "what": "the returned model shares its parameter object with the input "
                                                                                             "or has another type"}, cls=dict(cls0, family=fam, mode="default"))
                        return
                    # the returned model's parameter object is a live object from now on: the input's operations, then the
                    # assignment of the calibrated value (state not observable from outside) and an initialisation()
                    new_lv = _Live(fam, p2, list(lv.log) + [["set", name, x], ["init"]],
                                   list(lv.snaps) + [None, ("ok", dict(p2.__dict__))], True)
                    new_rec = dict(model=cm_, j=len(pool), version=0, mcls=mcls)
                    sync_checks.append((t, len(pool), fam, dict(p2.__dict__)))
            if cfg["mode"] == "default":
                pool.append(new_lv), models.append(new_rec)
        else:
            raise Infra(f"unknown event {e!r}")

    live = [(k, lv) for k, lv in enumerate(pool) if lv is not None]

    # ---- C (isolation part): nobody but the object's own operations changed it
    for k, lv in live:
        last = lv.snaps[-1][1]
        if not _same_dict(last, lv.obj.__dict__):
            ctx.fail("corr", "c20.multi.model", desc, {"name": "object changed by operations on OTHER objects", "object": k,
                                                       "after_own_last_operation": repr(last), "now": repr(lv.obj.__dict__)},
                     cls=dict(cls0, family=lv.fam))
    # ---- S: derived_in_sync — after each successful initialisation() (and at the end, for every object whose last operation
    # is one) the object equals a freshly constructed one at the primaries it held
    for k, lv in live:
        if lv.clean:
            sync_checks.append((len(h["events"]), k, lv.fam, dict(lv.obj.__dict__)))
    seen = set()
    for t, k, fam, snap in sync_checks:
        cls, prims = CLASSES[fam][0], CLASSES[fam][1]
        final = {n: snap[n] for n in prims}
        key = (k, repr(sorted(snap.items())))
        if key in seen:
            continue
        seen.add(key)
        try:
            direct = cls(**final)
        except Exception as ex:
            ctx.fail("oracle", "c20.multi.derived_in_sync", desc, {"after_event": t, "object": k, "what": "constructor rejects the values the object holds",
                                                                   "final": final, "exception": repr(ex)[:300]}, cls=dict(cls0, family=fam))
            return
        dd = direct.__dict__
        for a in dd:
            if a not in snap or not same(snap[a], dd[a]):
                ctx.fail("oracle", "c20.multi.derived_in_sync", desc,
                         {"after_event": t, "object": k, "what": "after its initialisation() an object of an interleaved history differs from "
                          "the object constructed directly with the values it holds", "name": a, "held": repr(snap.get(a)), "direct": repr(dd[a]),
                          "final": final}, cls=dict(cls0, family=fam, attr=a))
                return
    # ---- S: rebuilt vs direct at the level of the model
    for t, k, fam, prim, (spot, r, d), obs, mcls in model_checks:
        try:
            ref = observe(fam, CLASSES[fam][0](**prim), spot, r, d, mcls)
        except Exception as ex:
            ctx.branches["c20.multi.build:direct_raises:" + type(ex).__name__] += 1
            continue
        ctx.branches["c20.multi.build:model"] += 1
        for (what, a), (_w, b) in zip(obs, ref):
            if not same(a, b):
                ctx.fail("oracle", "c20.multi.rebuilt_vs_direct", desc,
                         {"event": t, "object": k, "what": f"{what} of the model rebuilt from a re-initialised object of an interleaved history differs "
                          "from the directly constructed model", "rebuilt": repr(a), "direct": repr(b), "final": prim},
                         cls=dict(cls0, family=fam, attr=what))
                return
    # ---- S: every calibration that returned lies in its interval and reprices its target (fresh model, default pricer)
    for t, fam, prim, name, x, (lo, hi), (spot, r, d), product, market, own, mcls in calib_checks:
        cls_ = dict(cls0, family=fam, mode="default" if own is not None else "value",
                    model_class="shipped" if mcls is CLASSES[fam][2] else "user:" + mcls.user_kind)
        if not (lo <= x <= hi):
            ctx.fail("oracle", "c20.multi.calibrate", desc, {"event": t, "what": "calibrated value outside the interval", "x": x, "interval": [lo, hi]}, cls=cls_)
            return
        re = price_with(fam, prim, name, x, spot, r, d, product, mcls)
        own = re if own is None else own
        ok = abs(re - market) <= 1e-6 and abs(own - market) <= 1e-6
        if not ok and abs(own - re) <= 1e-6:
            # literally "within the root-finder tolerance": the objective changes sign within brentq's x-tolerance of the answer
            dx = 4e-12 + 1e-14 * abs(x)
            fl = price_with(fam, prim, name, max(lo, x - dx), spot, r, d, product, mcls) - market
            fh = price_with(fam, prim, name, min(hi, x + dx), spot, r, d, product, mcls) - market
            if fl * fh <= 0:
                ok = True
                ctx.branches["c20.multi.calib:steep_objective"] += 1
        if not ok:
            ctx.fail("oracle", "c20.multi.calibrate", desc, {"event": t, "what": "a calibration inside an interleaved history does not reprice its target",
                                                             "x": x, "repriced": re, "returned_model_price": own, "market": market,
                                                             "model_class": mcls.__name__}, cls=cls_)
            return
    # ---- C: every object against M, object by object
    for k, lv in live:
        if not lean_replay(ctx, desc, cls0, k, lv):
            return


def draw_calibration(rng, fam, params, mode):
    c = dict(fam=fam, params=params, mode=mode, spot=rng.choice([100.0, 50.0, 1.0, 2500.0]), r=rng.choice([0.0, 0.02, 0.05]),
             d=rng.choice([0.0, 0.01, 0.03]), maturity=round(rng.uniform(0.25, 2.0), 3))
    if mode in ("default", "atm"):
        c["bs_sigma"] = round(rng.uniform(0.1, 0.4), 3)
    if mode == "atm" and rng.random() < 0.5:
        # another parameter / interval than the default one
        alt = {"hem": ("intensity", (0.0, 30.0)), "merton": ("intensity", (0.0, 30.0)), "vg": ("nu", (0.01, 2.0)),
               "cgmy": ("g", (2.0, 60.0))}[fam]
        c["parameter"], c["interval"] = alt[0], list(alt[1])
    if mode == "product":
        c["strike"] = round(c["spot"] * rng.uniform(0.85, 1.15), 4)
        c["ptype"] = rng.choice(["CALL", "PUT"])
        lo, hi = mu.default_calibration[CLASSES[fam][3]].parameter_interval
        kind = rng.random()
        if kind < 0.7:
            if fam == "cgmy":
                c["hidden"] = round(rng.uniform(0.05, 5.0), 3)
            else:
                c["hidden"] = round(rng.uniform(lo + 0.02 * (hi - lo), lo + 0.6 * (hi - lo)), 4)
        elif kind < 0.85:
            c["market"] = 3.0 * c["spot"]           # no vanilla is worth three times the spot: unreachable
        else:
            c["market"] = -1.0
    return c


# ---------------------------------------------------------------------------------------------------------- run
def run(ctx):
    rng = ctx.rng
    for fam in CLASSES:
        # M's cached-attribute names are the ones this harness compares (the measured ones are checked by lake build)
        names = ctx.lean(f"derived {fam}").strip()[1:-1]
        if [x for x in names.split(",") if x] != DERIVED[fam]:
            raise Infra(f"harness table DERIVED[{fam}] out of sync with the model: {names}")
        constraints_probe(ctx, fam)
    nh = ctx.n(60, 600)
    for i in range(nh):
        for fam in CLASSES:
            h = make_history(rng, fam, sane=(i % 3 != 0))
            if i % 4 == 2:
                h["variant"] = draw_variant(rng)     # the model-level rebuilt-vs-direct comparison on a user-defined model class
            history_probe(ctx, h, with_model=(i % 2 == 0) or ctx.thorough)
    ncal = ctx.n(14, 120)
    for fam in zoo.FAMILIES:
        stream = zoo.model_stream(rng, ncal, families=[fam])
        for j, (_f, params) in enumerate(stream):
            mode = ["default", "default", "atm", "product"][j % 4]
            c = draw_calibration(rng, fam, params, mode)
            if j % 3 == 1:
                c["reinit"] = True          # construction history (zoo.reinitialised)
            if j % 5 == 2:
                c["repeat"] = True          # object reuse
            calibration_probe(ctx, c)
    # user-defined model classes (subclasses of the shipped exponential classes overriding discounting / drift, mandated constructor):
    # the same modes, construction histories and reuse pattern, every reference price taken from the object's own class
    for fam in zoo.FAMILIES:
        stream = zoo.model_stream(rng, ctx.n(8, 60), families=[fam])
        for j, (_f, params) in enumerate(stream):
            mode = ["default", "product", "atm", "default"][j % 4]
            c = draw_calibration(rng, fam, params, mode)
            c["variant"] = [USER_KINDS[(j + 1) % len(USER_KINDS)], rng.choice(USER_LEVELS)] if j < 4 else draw_variant(rng)
            if j % 3 == 2:
                c["reinit"] = True
            if j % 5 == 3:
                c["repeat"] = True
            calibration_probe(ctx, c)
    # edge of the declared ranges: zero jump intensity with the diffusion volatility as calibrated parameter (Black–Scholes limit),
    # HEM p = 1, CGMY activity exactly 0 / 1
    for _ in range(ctx.n(2, 8)):
        for fam, extra, par in (("hem", dict(intensity=0.0), None), ("merton", dict(intensity=0.0), ("sigma", [0.0, 1.0])),
                                ("hem", dict(p=1.0), None)):
            c = draw_calibration(rng, fam, dict(zoo.draw_params(rng, fam), **extra), "atm")
            c.pop("parameter", None), c.pop("interval", None)
            if par:
                c["parameter"], c["interval"] = par[0], par[1]
            if extra.get("intensity") == 0.0:
                c["bs_limit"] = True
            calibration_probe(ctx, c)
            if extra.get("intensity") != 0.0:
                # the same edge model as a user-defined class (the Black-Scholes-limit oracle 'answer = bs_sigma' is about the
                # shipped discounting / drift and is not asked of a user class)
                calibration_probe(ctx, dict(c, variant=draw_variant(rng)))
    fams = list(zoo.FAMILIES)
    for i in range(ctx.n(3, 12)):
        fa, fb = fams[i % 4], fams[(i + 1 + i // 4) % 4]
        cA = draw_calibration(rng, fa, zoo.draw_params(rng, fa), "default")
        cB = draw_calibration(rng, fb, zoo.draw_params(rng, fb), "default")
        cA["bs_sigma2"] = round(rng.uniform(0.1, 0.4), 3)
        if i % 2 == 0:
            cA["variant"] = draw_variant(rng)
        if i % 3 == 1:
            cB["variant"] = draw_variant(rng)
        interleaved_probe(ctx, cA, cB)
    for i in range(ctx.n(1, 4)):
        # two DIFFERENT user-defined subclasses of one shipped class (and the same parameters) alive in one process
        fa = fams[(i + 2) % 4]
        cA = draw_calibration(rng, fa, zoo.draw_params(rng, fa), "default")
        cB = dict(cA, bs_sigma=round(rng.uniform(0.1, 0.4), 3))
        cA["bs_sigma2"] = round(rng.uniform(0.1, 0.4), 3)
        cA["variant"], cB["variant"] = ["collateral", rng.choice(USER_LEVELS)], ["carry", rng.choice(USER_LEVELS)]
        interleaved_probe(ctx, cA, cB)
    # interleaved histories over several live parameter objects (same / different families, deep copies, calibration's copies)
    for i in range(ctx.n(40, 400)):
        multi_probe(ctx, make_multi(rng), with_model=True)
    if getattr(ctx, "notes_resid", None) is not None:
        ctx.notes.append(f"largest repricing residual of a successful calibration in this run: {ctx.notes_resid:.3e}")


def replay(ctx, rec):
    d = rec["input"]
    p = rec.get("probe", "")
    if d.get("kind") == "interleaved":
        interleaved_probe(ctx, d["A"], d["B"])
    elif d.get("kind") == "multi":
        multi_probe(ctx, d, with_model=True)
    elif "ops" in d:
        history_probe(ctx, d, with_model=True)
    elif "mode" in d:
        calibration_probe(ctx, d)
    elif "attr" in d:
        constraints_probe(ctx, d["fam"])
    else:
        generate_lean(ctx)


def search(ctx):
    """extended oracle-only search when only the tie broke: many more sane histories with the model-level comparison"""
    rng = ctx.rng
    for i in range(ctx.n(300, 1500)):
        fam = rng.choice(list(CLASSES))
        history_probe(ctx, make_history(rng, fam, sane=True), with_model=True)
        if i % 3 == 0:
            multi_probe(ctx, make_multi(rng), with_model=True)
        if any(f["kind"] == "oracle" for f in ctx.failures):
            return
