"""C19 — Credit closed forms equal the default-region jump rate of the benchmarked chain (DESIGN.md §4 C19).

C (implementation <-> M, `Drivers/C19.lean`) and S (property oracle on the implementation):
  S1  region rate of the credit chain (sum of `create_q_vector` rates in 1-d / of `model.mass` over the cells in n-d, over
      the states with a coordinate below its threshold) = inclusion-exclusion of the mass of the default half-spaces
      clipped to the truncation box, to 1e-12 * intensity
  S2  `CFLevyModel._theta` on the truncated 1-d model equals it; `_theta` on the untruncated model (1-d and copula)
      dominates it by at most the mass outside the box; untruncated `_theta` = inclusion-exclusion of `model.mass`
      over the unclipped half-spaces; and - because `model.mass` itself goes through the library's I-margin helper - also of
      box masses written out from the definitions, every tail integral in the slot of ITS OWN coordinate of model.copula
      (box_mass_def), with user-defined copulas that are NOT symmetric functions of their arguments in every n-d stream
  S3  theta is increasing in each threshold
  S4  spread round trips, survival probability, CDS payoff expectation (whole payoff and leg by leg: the code's legs recovered
      from implied_cds_spread vs quadrature of the payoff class' legs - theorem cds_legs_are_expectations), default times
  #32 (`_theta` on a *truncated* copula model mixes truncated diagonals with untruncated pair terms) is only compared
      with M fed the same ingredients - the property speaks about the restricted model through the box-clipped masses.
"""
from __future__ import annotations

import copy
import itertools
import math
import traceback
import warnings

import numpy as np
import scipy.linalg
from scipy.integrate import quad

from .. import zoo
from ..common import w, wl, wll, rd, rdl, rdll, close, fr, Infra

from rpylib.distribution.levycopula import LevyCopula
from rpylib.distribution.samplingfactory import create_q_vector
from rpylib.distribution.sampling import SamplingMethod
from rpylib.grid.grid import Coordinates
from rpylib.numerical.closedform.cflevymodel import CFLevyModel
from rpylib.numerical.closedform.cflevycopula import CFLevyCopulaModel
from rpylib.process.markovchain.markovchain import MarkovChainProcess
from rpylib.product.payoff import CDS
from rpylib.product.underlying import DefaultTime, NthDefaultTimes, DefaultTimeNthUnderlying

warnings.filterwarnings("ignore", category=scipy.linalg.LinAlgWarning)
warnings.filterwarnings("ignore", category=RuntimeWarning)

RULE = ("synthetic: random dyadic axes with a piecewise-constant dyadic Levy density (exact integrals), threshold on a cell "
        "boundary (exact equality demanded) or off the boundaries (compared with M only; includes the Lean witness). "
        "1-d: model families (HEM, Merton, VG, CGMY in every activity branch; LevyModel and ExponentialOfLevyModel) x zoo "
        "parameter draws x thresholds a in {-0.2,...,-0.5} x h in {0.1, 0.05, 0.02} -> CTMCCredit chain (create_q_vector on the "
        "truncated measure; every third case through MarkovChainProcess). n-d (d = 2; d = 3 in thorough and once in quick): "
        "margins drawn from the families (identical margins forced in a third of the cases so that pair/triple terms are not "
        "negligible) x Clayton(theta, eta) / independent / dependent x thresholds x h in {0.1, 0.05} x symmetric / asymmetric "
        "credit grid; in d = 3 every stream (chains: every other case; theta / spreads: every fourth case forced + 40 % of the rest) also "
        "draws USER-DEFINED copulas, subclasses of the library's abstract LevyCopula that are NOT symmetric functions of their arguments: "
        "SuperpositionCopula as 'Clayton with coordinate-dependent weights' Clayton(alpha u) + Independent((1 - alpha) u), dyadic alpha_i all "
        "different (asymmetric on finite arguments and in its pair margins; also a quarter of the d = 2 cases), NestedClaytonCopula (one pair of names coupled with theta1 >= theta0, the other pairs with theta0: asymmetric on finite arguments), "
        "BlockCopula (two names coupled by a 2-d Clayton or the completely dependent copula + one independent name at index 0, 1, 2 in "
        "turn) and MixtureCopula (dyadic weights; block copula + Clayton / independent / dependent / the block copula of another "
        "placement: all pair and triple terms non-zero); for every copula _theta and the region rate are additionally judged against "
        "box masses written out from the definitions with each tail integral in the slot of ITS OWN coordinate (box_mass_def), and for "
        "the user-defined ones against the sum of the library's own 1-d / 2-d closed forms of the independent blocks (theta_known); rates are `model.mass` of the cells of the truncated copula model (MarkovChainLevyCopula is not built). "
        "spreads: recovery in [0, 0.8], r in [0.005, 0.08], maturity in [0.25, 10], spreads in the brentq bracket and "
        "deliberately outside it. default times: random dyadic log-paths, thresholds dyadic, no increment exactly on a "
        "threshold. malformed: non-negative level, wrong number of levels, four names. histories / several objects: a quarter of "
        "all models are rebuilt through an edited and re-initialised parameter object (zoo.REINIT); in 30-40 % of the chain1d / theta / "
        "spreads cases a decoy pricer on another model is asked the same questions at the same levels first; theta of the pricer under "
        "test is always judged against model.mass asked of the model itself. edges: R = 0, R in {0.999, 1}, r in {1e-4, 1e-3}, s = 0; "
        "r = 0 (c19.cds.zero_rate) and -h <= a < 0 (c19.credit.level_within_h) as excluded points of the theorems. non-trivial = well-formed grid and "
        "theta > 1e-9 * intensity (region probes) / finite values (others); distinct = distinct (probe, input)")
NOT_PROVED = [
    "that a concrete family's `integrate` / a copula model's `mass` is finitely additive and non-negative (IsMass, IsBoxMass2/3, "
    "AdditiveOn are hypotheses here; C09 / C11 / C12 establish them) - compared numerically by S1/S2",
    "the closed-form legs ARE now proved to be the expectations of the pathwise `CDS.evaluate` legs under tau ~ Exp(theta) with "
    "df(t) = exp(-rt) (cds_legs_are_expectations, expected_payoff_zero_at_par: real integrals by FTC, r != 0, r + theta != 0); what "
    "is still only compared: that the code's float legs / payoff are these formulas (c19.cds.legs, c19.cds.expectation by "
    "quadrature at 1e-6 / 1e-8; Drivers/C19 legsF at 2^-40), that the default time of the chain is exponential with rate theta "
    "(a statement about the jump process, not about these files), and r = 0 (excluded point: known finding "
    "C19-cds-payoff-zero-rate-nan)",
    "brentq itself: `implied_cds_threshold` / `implied_cds_spread` are modelled by their contract (the root inside the "
    "bracket, ValueError outside); uniqueness / inverse statements are theorems, convergence of the search is not",
    "exp is an abstract strictly increasing function with exp 0 = 1 and exp(x+y) = exp x * exp y (theorem hypotheses); float "
    "rounding of np.exp is compared at 2^-40",
    "root-searched truncation bounds (l, r) of the credit grid are inputs of M (C13)",
]
ASSUMPTIONS = [
    "SuperpositionCopula (Levy copula of a sum of independent Levy processes with re-weighted margins) / NestedClaytonCopula (lower-tail limit of the nested Archimedean Clayton copula, theta0 <= theta1; mixed partial derivative >= 0 checked at "
    "150 digits) / BlockCopula / MixtureCopula (defined in this file through rpylib's public abstract class LevyCopula) are Levy copulas: independent "
    "blocks (Kallsen-Tankov Prop. 4.1 / Thm 4.4) and convex combinations; groundedness, uniform 1-d margins and d-increasingness of the "
    "concrete objects were checked with C11's oracles (11200 random argument vectors / rectangles in d = 3, 4, no failure)",
    "thresholds are negative and inside the grid (l < a < -h), as the CTMCCredit constructor requires",
    "'the model restricted to the grid's truncation' is read as the Levy measure restricted to the box prod [l_i, r_i]; its "
    "tail integrals are the box-clipped masses of `model.mass` (DESIGN 3.1 #32: the truncated copula model's own joint mass "
    "is not truncated)",
    "states exactly on a threshold do not occur on a credit grid (the threshold is a cell boundary strictly between two states)",
]
TRUSTED = ["scipy.integrate.quad for the expectation of the CDS payoff (1e-9)",
           "scipy.optimize.brentq (xtol 2e-12) inside implied_cds_threshold / implied_cds_spread"]

INF = math.inf
REL = 1e-12          # S1/S2 tolerance relative to the chain's intensity


# ------------------------------------------------------------------------------------------------- helpers
def guarded(ctx, probe, d, cls, fn, *a, **k):
    """an exception raised from inside rpylib on a generated valid input is a failure of the property on that input"""
    try:
        return fn(*a, **k)
    except Infra:
        raise
    except Exception as e:
        frames = traceback.extract_tb(e.__traceback__)
        if not any("/rpylib/" in f.filename for f in frames):
            raise
        where = [f"{f.filename.split('/rpylib/')[-1]}:{f.lineno}" for f in frames if "/rpylib/" in f.filename][-3:]
        ctx.fail("oracle", probe + ".raises", d, {"exception": repr(e)[:400], "where": where}, cls=cls)
        return None


def make_model(fam, params, exp, r=0.02):
    return zoo.make_exp(fam, params, r=r) if exp else zoo.make_levy(fam, params)


def decoy_1d(a, R=0.4, T=1.0):
    """several objects in one process: another pricer on another model is asked the same questions first; a result remembered
    per class / per module instead of per pricer then shows in the pricer under test"""
    dec = CFLevyModel(make_model("hem", dict(sigma=0.1, p=0.5, eta1=11.0, eta2=4.0, intensity=3.0), True, 0.03))
    dec._theta(a)
    dec.survival_probability(a, T)
    dec.cds_spread(a, R)
    return dec


def decoy_nd(levels, R=0.4, T=1.0):
    m = [make_model("hem", dict(sigma=0.1, p=0.5, eta1=11.0, eta2=4.0 + i, intensity=3.0), True, 0.03) for i in range(len(levels))]
    dec = CFLevyCopulaModel(zoo.make_copula_model(m, zoo.make_copula("clayton", theta=1.3, eta=0.6)))
    dec._theta(list(levels))
    dec.survival_probability(list(levels), T)
    dec.first_to_default_par_spread(list(levels), R)
    return dec


# ---- user-defined Levy copulas (the property quantifies over ALL copulas; `LevyCopula` is the library's public abstract class).
# Every copula the library ships is a symmetric function of its arguments, so an implementation that puts a tail integral into the
# wrong coordinate slot of F cannot be seen with them.  These two are not symmetric (same definitions in c12.py; zoo.py is shared).
class BlockCopula(LevyCopula):
    """Levy copula of a Levy process whose blocks of coordinates B_1, .., B_m (a partition of 0..d-1) are independent of each other, the
    coordinates inside block k being coupled by the Levy copula C_k (the identity for a single coordinate):
        F(u) = sum_k C_k(u_{B_k}) * prod_{i not in B_k} 1{u_i = +inf},     F(u) = 0 if some u_i = 0
    (Kallsen-Tankov 2006, Prop. 4.1 / Thm 4.4 written for blocks: the Levy measure sits on the coordinate subspaces of the blocks).  It is
    grounded, d-increasing and has uniform margins (checked with C11's oracles, .work/fix-c19e/validate.py).  The names of different
    blocks never jump together: the default intensity is the sum of the intensities of the blocks."""

    def __init__(self, blocks, parts):
        self.blocks = [list(B) for B in blocks]
        self.parts = list(parts)
        self.d = sum(len(B) for B in self.blocks)
        if sorted(i for B in self.blocks for i in B) != list(range(self.d)):
            raise ValueError("blocks must partition 0..d-1")
        self.rest = [[i for i in range(self.d) if i not in B] for B in self.blocks]

    def __repr__(self):
        return f"BlockCopula(blocks={self.blocks}, parts={self.parts})"

    def __call__(self, us):
        us = np.asarray(us, dtype=float)
        if us.size != self.d:
            raise ValueError(f"BlockCopula of dimension {self.d} evaluated at {us.size} arguments")
        if np.any(us == 0):
            return 0.0
        res = 0.0
        for B, C, R in zip(self.blocks, self.parts, self.rest):
            if all(us[i] == INF for i in R):
                res += float(us[B[0]]) if len(B) == 1 else float(C(us[B]))
        return res


class MixtureCopula(LevyCopula):
    """convex combination of Levy copulas of the same dimension (groundedness, d-increasingness and uniform margins are preserved); the
    Levy measure of the model - hence the default intensity - is the same combination of those of the models built with the parts"""

    def __init__(self, weights, parts):
        if not (abs(sum(weights) - 1.0) < 1e-15 and all(x > 0 for x in weights)):
            raise ValueError("weights must be positive and sum to 1")
        self.weights, self.parts = list(weights), list(parts)

    def __repr__(self):
        return f"MixtureCopula(weights={self.weights}, parts={self.parts})"

    def __call__(self, us):
        us = np.asarray(us, dtype=float)
        if np.any(us == 0):
            return 0.0
        return float(sum(x * float(C(us)) for x, C in zip(self.weights, self.parts)))


class NestedClaytonCopula(LevyCopula):
    """partially nested Clayton Levy copula: G(x) = ((x_i^-t1 + x_j^-t1)^(t0/t1) + sum_{k not in pair} x_k^-t0)^(-1/t0) on [0,inf]^d with
    0 < t0 <= t1 (lower-tail limit of the nested Archimedean Clayton copula, valid for t0 <= t1: the mixed partial derivative is >= 0,
    checked at 150 digits in d = 3, 4), extended to all orthants the way the library's Clayton is:
        F(u) = 2^(2-d) G(|u|) (eta 1{prod u >= 0} - (1-eta) 1{prod u < 0}).
    NOT symmetric on FINITE arguments either: the pair (i, j) is coupled with t1, every other pair with t0.  Its proper margins are known in
    closed form: Clayton(t1, 1/2) for I = pair, Clayton(t0, 1/2) for any other pair, nested with eta = 1/2 when I contains the pair."""

    def __init__(self, pair, theta0, theta1, eta):
        if not (0 < theta0 <= theta1 and 0.0 <= eta <= 1.0 and len(pair) == 2):
            raise ValueError("expected 0 < theta0 <= theta1, eta in [0,1], a pair of coordinates")
        self.pair, self.theta0, self.theta1, self.eta = list(pair), theta0, theta1, eta

    def __repr__(self):
        return f"NestedClaytonCopula(pair={self.pair}, theta0={self.theta0}, theta1={self.theta1}, eta={self.eta})"

    def __call__(self, us):
        us = np.asarray(us, dtype=float)
        if np.any(us == 0):
            return 0.0
        x = np.abs(us)
        i, j = self.pair
        with np.errstate(all="ignore"):
            inner = (x[i] ** -self.theta1 + x[j] ** -self.theta1) ** (self.theta0 / self.theta1)
            outer = inner + sum(x[k] ** -self.theta0 for k in range(us.size) if k not in self.pair)
            g = outer ** (-1.0 / self.theta0)
        odd = int(np.sum(us < 0)) % 2
        return float(2.0 ** (2 - us.size) * g * (self.eta if odd == 0 else -(1.0 - self.eta)))


class SuperpositionCopula(LevyCopula):
    """F(u) = sum_k C_k(alpha^k * u) with positive coordinate weights alpha^k_i, sum_k alpha^k_i = 1 for every i: the Levy copula of a sum of
    independent Levy processes X^k whose marginal tail integrals are alpha^k_i U_i and whose Levy copulas are C_k (tail integrals add up).
    Used as 'Clayton with coordinate-dependent weights': Clayton(alpha * u) + Independent((1 - alpha) * u) - NOT symmetric on finite
    arguments, and its pair margins Clayton_{theta,1/2}(alpha_i u_i, alpha_j u_j) are not symmetric either; valid in d = 2 as well."""

    def __init__(self, scales, parts):
        self.scales = [np.asarray(a, dtype=float) for a in scales]
        self.parts = list(parts)
        if not (np.all(sum(self.scales) == 1.0) and all(np.all(a > 0) for a in self.scales)):
            raise ValueError("scales must be positive and sum to 1 in every coordinate")

    def __repr__(self):
        return f"SuperpositionCopula(scales={[[float(x) for x in a] for a in self.scales]}, parts={self.parts})"

    def __call__(self, us):
        us = np.asarray(us, dtype=float)
        if np.any(us == 0):
            return 0.0
        return float(sum(float(C(a * us)) for a, C in zip(self.scales, self.parts)))


def weighted_clayton(alpha, theta, eta):
    al = np.asarray(alpha, dtype=float)
    return SuperpositionCopula([al, 1.0 - al], [zoo.make_copula("clayton", theta=theta, eta=eta), BlockCopula([[i] for i in range(al.size)], [None] * al.size)])


NONEXCH = ("block", "mix", "nested", "wclayton")


def make_cop(cd):
    """copula from a JSON-able descriptor {"cop": name, ...}: the library's through zoo.make_copula, the user-defined ones above"""
    k = cd["cop"]
    if k in zoo.COPULAS:
        return zoo.make_copula(k, **{n: cd[n] for n in ("theta", "eta") if n in cd})
    if k == "block":
        return BlockCopula(cd["blocks"], [None if p is None else make_cop(p) for p in cd["parts"]])
    if k == "mix":
        return MixtureCopula(cd["weights"], [make_cop(p) for p in cd["parts"]])
    if k == "nested":
        return NestedClaytonCopula(cd["pair"], cd["theta0"], cd["theta1"], cd["eta"])
    if k == "wclayton":
        return weighted_clayton(cd["alpha"], cd["theta"], cd["eta"])
    raise ValueError(f"unknown copula {k}")


def cop_descriptor(d):
    return dict(cop=d["copula"], **d.get("copula_kw", {}))


def make_cm(d):
    margins = [make_model(f, p, d.get("exp", False), d.get("r", 0.02)) for f, p in d["margins"]]
    return margins, zoo.make_copula_model(margins, make_cop(cop_descriptor(d)))


# ---- the Levy mass of a box from the DEFINITIONS: every tail integral in the slot of its own coordinate --------------------------------
def tail_integral(m, x):
    """U(x) = sgn(x) nu(I(x)), I(x) = (x, inf) for x >= 0 and (-inf, x] for x < 0, from the margin's own Levy measure"""
    if math.isinf(x):
        return 0.0
    nu = m.levy_triplet.nu
    return float(nu.integrate(x, INF)) if x >= 0 else -float(nu.integrate(-INF, x))


def i_margin_def(F, dim, J, uJ):
    """F^J(u_J) = sum over the corners p in {-inf, +inf}^(J^c) of prod sgn(p) * F(u), u_j in slot j for j in J and p in the other slots"""
    comp = [i for i in range(dim) if i not in J]
    tot = 0.0
    for p in itertools.product((-INF, INF), repeat=len(comp)):
        u = np.zeros(dim)
        for j, v in zip(J, uJ):
            u[j] = v
        for i, v in zip(comp, p):
            u[i] = v
        tot += (-1.0) ** sum(v < 0 for v in p) * float(F(u))
    return tot


def box_mass_def(F, margins, a, b):
    """Levy mass of prod (a_i, b_i] (not containing the origin) of the copula model (margins, F), written out from the definitions:
    (a,b] = (a,inf) \\ (b,inf) on the positive side, (-inf,b] \\ (-inf,a] on the negative side, R \\ (-inf,a] \\ (b,inf) when it straddles 0 (R:
    the coordinate is erased); the mass of an orthant prod_{j in J} I(x_j) is prod sgn(x_j) * F^J(U_j(x_j), j in J)"""
    dim = len(margins)
    per = []
    for x, y in zip(a, b):
        if x < 0 < y:
            per.append([(1.0, None), (-1.0, x), (-1.0, y)])
        elif x >= 0:
            per.append([(1.0, x), (-1.0, y)])
        else:
            per.append([(1.0, y), (-1.0, x)])
    tot = 0.0
    for choice in itertools.product(*per):
        J = [i for i, (_, x) in enumerate(choice) if x is not None]
        if not J:
            raise ValueError("box contains the origin")
        xs = [choice[i][1] for i in J]
        if any(math.isinf(x) for x in xs):
            continue                                    # empty orthant
        coef = 1.0
        for c, _ in choice:
            coef *= c
        for x in xs:
            coef *= 1.0 if x >= 0 else -1.0
        us = [tail_integral(margins[i], x) for i, x in zip(J, xs)]
        tot += coef * (us[0] if len(J) == 1 else i_margin_def(F, dim, J, us))
    return tot


def theta_known(cd, margins, levels):
    """default intensity known independently of any 3-d formula, or None: block copula = sum over the blocks of the library's own
    lower-dimensional closed form (names of different blocks never jump together); mixture = the same combination of the
    intensities of its parts (a library copula as a part: the library's closed form with that - exchangeable - copula)"""
    k = cd["cop"]
    if k == "block":
        tot = 0.0
        for B, part in zip(cd["blocks"], cd["parts"]):
            if len(B) == 1:
                tot += float(CFLevyModel(margins[B[0]])._theta(levels[B[0]]))
            else:
                sub = zoo.make_copula_model([margins[i] for i in B], make_cop(part))
                tot += float(CFLevyCopulaModel(sub)._theta([levels[i] for i in B]))
        return tot
    if k == "mix":
        tot = 0.0
        for x, part in zip(cd["weights"], cd["parts"]):
            v = theta_known(part, margins, levels)
            if v is None:
                if part["cop"] not in zoo.COPULAS:
                    return None
                v = float(CFLevyCopulaModel(zoo.make_copula_model(list(margins), make_cop(part)))._theta(list(levels)))
            tot += x * v
        return tot
    return None


def theta_references(ctx, d, cls, margins, cm, levels, th, tol, stream):
    """`_theta` (value `th`) against (1) inclusion-exclusion of box_mass_def over the half-spaces - every copula, dimension >= 2 - and
    (2) theta_known for the user-defined copulas; False after reporting a failure"""
    dim = len(levels)
    th_def, parts = incl_excl(dim, lambda I: box_mass_def(cm.copula, margins, [-INF] * dim,
                                                          [levels[i] if i in I else INF for i in range(dim)]))
    ctx.branches[f"c19.{stream}:theta_by_definition:d{dim}"] += 1
    if not abs(th - th_def) <= tol:
        ctx.fail("oracle", "c19.theta_is_mass_of_union", d, {"dim": dim, "_theta(untruncated)": th,
                                                           "incl_excl of the half-space masses from the definitions (each tail integral in "
                                                           "the slot of its own coordinate)": th_def, "terms": parts,
                                                           "copula": repr(cm.copula)}, cls=cls)
        return False
    known = theta_known(cop_descriptor(d), margins, levels)
    if known is not None:
        ctx.branches[f"c19.{stream}:theta_known_from_lower_dimension:d{dim}"] += 1
        if not abs(th - known) <= tol:
            ctx.fail("oracle", "c19.theta_is_mass_of_union", d, {"dim": dim, "_theta(untruncated)": th,
                                                               "sum of the lower-dimensional closed forms of the independent blocks": known,
                                                               "copula": repr(cm.copula)}, cls=cls)
            return False
    return True


def axis_ok(ax, o):
    return 0 < o < len(ax) - 1 and ax[o] == 0.0 and all(a < b for a, b in zip(ax, ax[1:]))


def wellformed_or_skip(ctx, d, cls, axes, o, levels, h, sym, stream):
    """`creditAxis_wellFormed` (C13) proves the asymmetric axis well formed for l < a < -h < 0 < h < r, and the symmetric one
    when additionally -a + eps < r.  Inside those hypotheses an ill-formed axis is a failure; outside them (mirrored block
    does not fit below r: C13's documented limitation of the symmetric grid) the case is skipped."""
    if all(axis_ok(ax, o) for ax in axes) and len({len(ax) for ax in axes}) == 1:
        return True
    if sym:
        for ax, a in zip(axes, levels):
            l, r = ax[0], ax[-1]
            eps = min(abs(l - a) / 2, abs(a + h) / 2)
            if not (-a + eps < r):
                ctx.branches[f"c19.{stream}:skipped_symmetric_block_beyond_r(C13)"] += 1
                return False
    ctx.fail("oracle", "c19.credit.wellformed", d, {"what": "credit axis not strictly increasing / origin not at index 4 although "
                                                  "l < a < -h < 0 < h < r", "axes": axes, "origin": o}, cls=cls)
    return False


def credit_axis_check(ctx, d, cls, g, axes, levels, sym, corr):
    """threshold exactly on the boundary between the 2nd and 3rd cell (S), axis = M's creditAxis (C)"""
    for i, (ax, a) in enumerate(zip(axes, levels)):
        mid = float(g.middle(ax[1], ax[2]))
        if not math.isclose(mid, a, rel_tol=4e-16, abs_tol=0.0):
            ctx.fail("oracle", "c19.credit.threshold_on_boundary", d,
                     {"axis": i, "middle(axis[1],axis[2])": mid, "threshold": a, "axis_values": ax}, cls=cls)
            return False
        below = [k for k, x in enumerate(ax) if x < a]
        if below != [0, 1]:
            ctx.fail("oracle", "c19.credit.threshold_on_boundary", d,
                     {"axis": i, "what": "states below the threshold are not exactly the first two", "below": below,
                      "axis_values": ax}, cls=cls)
            return False
        if corr:
            out = ctx.lean(f"credit {w(ax[0])} {w(a)} {w(d['h'])} {w(ax[-1])} {1 if sym else 0}").split(" ")
            m_ax, m_b, m_below = rdl(out[0]), rd(out[1]), [int(x) for x in rdl(out[2])]
            ok = (len(m_ax) == len(ax) and all(close(p, q, scale=max(abs(q), fr(d["h"]))) for p, q in zip(ax, m_ax))
                  and close(mid, m_b, scale=abs(m_b)) and m_below == below)
            if not ok:
                ctx.fail("corr", "c19.credit.model", d, {"name": "Drivers/C19 credit vs CTMCCredit", "axis": ax,
                                                         "model": out}, cls=cls)
                return False
    return True


# ------------------------------------------------------------------------------------------------- 1-d chains
def chain1d_probe(ctx, d, corr=True):
    cls = dict(stream="1d", family=d["family"], exp=d["exp"])
    guarded(ctx, "c19.chain1d", d, cls, _chain1d, ctx, d, cls, corr)


def _chain1d(ctx, d, cls, corr):
    model = make_model(d["family"], d["params"], d["exp"])
    a, h = d["a"], d["h"]
    try:
        g = zoo.CTMCCredit(h=h, level_a=a, model=model)
    except ValueError as e:
        if "level a smaller" in str(e):     # documented rejection: threshold outside the truncated support
            ctx.branches["c19.chain1d:rejected_level_outside_grid"] += 1
            return
        raise
    axes = zoo.axis_list(g)
    ax = axes[0]
    o = int(list(g.origin_coordinate)[0])
    if not wellformed_or_skip(ctx, d, cls, axes, o, [a], h, False, "chain1d"):
        return
    l, r = float(g.truncations[0][0]), float(g.truncations[0][1])
    nu = model.levy_triplet.nu
    if d.get("via_process"):
        proc = MarkovChainProcess(model=model, method=SamplingMethod.INVERSION, grid=g)
        model_t = proc.model
        ctx.branches["c19.chain1d:via_MarkovChainProcess"] += 1
    else:                                   # first lines of MarkovChainProcess.__init__ (markovchain.py:96-98)
        model_t = copy.deepcopy(model)
        model_t.truncate_levy_measure(truncations=g.truncations[0])
    q = [float(x) for x in create_q_vector(model_t.levy_triplet.nu, g)]
    lam = math.fsum(q)
    region = math.fsum(q[k] for k, x in enumerate(ax) if x < a)
    th_clip = float(nu.integrate(l, a))                     # nu restricted to [l, r], lower orthant (-inf, a]
    if d.get("decoy"):
        decoy_1d(a)
        ctx.branches["c19.chain1d:decoy_pricer_first"] += 1
    th_trunc = float(CFLevyModel(model_t)._theta(a))
    th_full = float(CFLevyModel(model)._theta(a))
    outside = float(nu.integrate(-INF, l))
    tol = REL * max(lam, th_full, 1e-300)
    ctx.count("c19.chain1d", d, nontrivial=th_clip > 1e-9 * lam, branch=f"{d['family']}:{'exp' if d['exp'] else 'levy'}")
    ctx.branches[f"c19.chain1d:{'nontrivial' if th_clip > 1e-9 * lam else 'negligible_theta'}"] += 1
    if not abs(region - th_clip) <= tol:
        ctx.fail("oracle", "c19.region_rate_eq_theta", d, {"dim": 1, "region_rate": region, "theta_clipped": th_clip,
                                                         "intensity": lam, "axis": ax}, cls=cls)
        credit_axis_check(ctx, d, cls, g, axes, [a], False, False)
        return
    if not credit_axis_check(ctx, d, cls, g, axes, [a], False, corr):
        return
    if not abs(th_trunc - th_clip) <= tol:
        ctx.fail("oracle", "c19.theta_truncated_1d", d, {"_theta(truncated model)": th_trunc, "nu[l,a]": th_clip,
                                                       "l": l, "a": a}, cls=cls)
        return
    if not (-tol <= th_full - th_clip <= outside + tol):
        ctx.fail("oracle", "c19.theta_untruncated_dominates", d, {"dim": 1, "_theta(untruncated)": th_full,
                                                                "theta_clipped": th_clip, "mass_outside_box": outside}, cls=cls)
        return
    # S3: monotone in the threshold
    cf = CFLevyModel(model)
    pts = sorted({a - 0.07, a - 1e-3, a, a + 1e-3, min(a + 0.07, -h / 2)})
    ths = [float(cf._theta(x)) for x in pts]
    if any(t1 > t2 + 1e-15 * max(t2, 1e-300) for t1, t2 in zip(ths, ths[1:])):
        ctx.fail("oracle", "c19.theta_monotone", d, {"dim": 1, "levels": pts, "thetas": ths}, cls=cls)
        return
    # S4: one pricer object across in-place changes of its model (first the closed forms are used, then the model is restricted
    #     to the grid's truncation - the model the statement speaks about -, then a parameter is changed and re-initialised):
    #     what the used pricer reports must be what a fresh pricer on the same model reports
    m2 = copy.deepcopy(model)
    cf2 = CFLevyModel(m2)
    used = [float(cf2.survival_probability(a, 1.0)), float(cf2.cds_spread(a, 0.4))]
    steps = [("truncate_levy_measure", lambda: m2.truncate_levy_measure(truncations=g.truncations[0]))]
    lm2 = m2.levy_model if hasattr(m2, "levy_model") else m2
    prm = getattr(lm2, "parameters", None)
    if prm is not None and hasattr(prm, "intensity"):
        def bump():
            prm.intensity = prm.intensity * 2
            prm.initialisation()
        steps.append(("parameters.intensity doubled + initialisation()", bump))
    for name, change in steps:
        change()
        now = [float(cf2.survival_probability(a, 1.0)), float(cf2.cds_spread(a, 0.4))]
        fresh_cf = CFLevyModel(m2)
        fresh = [float(fresh_cf.survival_probability(a, 1.0)), float(fresh_cf.cds_spread(a, 0.4))]
        ctx.branches["c19.chain1d:pricer_history"] += 1
        if now != fresh:
            ctx.fail("oracle", "c19.pricer_history", d, {"after": name, "used_pricer": now, "fresh_pricer_on_the_same_model": fresh,
                                                       "before_the_change": used, "level": a}, cls=cls)
            return
    if corr:
        # theta of the truncated model: the interval TruncatedLevyMeasure integrates over, and the value
        out = ctx.lean(f"theta1 {w(l)} {w(r)} {w(a)} {w(l)} {w(a)} {w(th_clip)}").split(" ")
        iv = model_t.levy_triplet.nu._truncated_interval(-INF, a)
        if not (fr(iv[0]) == rd(out[0]) and fr(iv[1]) == rd(out[1]) and close(th_trunc, rd(out[2]), scale=abs(rd(out[2])))):
            ctx.fail("corr", "c19.theta1.model", d, {"name": "Drivers/C19 theta1 vs CFLevyModel._theta on the truncated model",
                                                    "impl_interval": list(map(float, iv)), "impl": th_trunc, "model": out}, cls=cls)
            return
        out = ctx.lean(f"region1d {wl(ax)} {o} {w(a)} {wl(q)} {w(th_clip)}").split(" ")
        m_reg, m_th, m_below = rd(out[0]), rd(out[1]), [int(x) for x in rdl(out[2])]
        if not (close(region, m_reg, scale=fr(lam)) and m_below == [k for k, x in enumerate(ax) if x < a]
                and close(th_trunc, m_th, scale=max(abs(m_th), fr(lam) * fr(REL)))):
            ctx.fail("corr", "c19.region1d.model", d, {"name": "Drivers/C19 region1d vs the chain's rates", "impl_region": region,
                                                      "impl_theta": th_trunc, "model": out}, cls=cls)


# ------------------------------------------------------------------------------------------------- edge: -h <= a < 0
def level_within_h_probe(ctx, d, corr=True):
    cls = dict(stream="edge", level_within_h=True, at_minus_h=(d["a"] == -d["h"]))
    guarded(ctx, "c19.credit.level_within_h", d, cls, _level_within_h, ctx, d, cls)


def _level_within_h(ctx, d, cls):
    """the excluded point of `credit_grid_threshold_on_boundary` (hypothesis a < -h), run on the real code: a negative
    threshold not beyond the first negative state.  Admissible outcomes: the constructor refuses, or the property holds."""
    model = make_model(d["family"], d["params"], False)
    a, h = d["a"], d["h"]
    ctx.count("c19.credit.level_within_h", d, nontrivial=True, branch="at_minus_h" if a == -h else "inside_h")
    try:
        g = zoo.CTMCCredit(h=h, level_a=a, model=model)
    except ValueError:
        ctx.branches["c19.credit.level_within_h:rejected_by_constructor"] += 1
        return
    ax = zoo.axis_list(g)[0]
    o = int(list(g.origin_coordinate)[0])
    out = rdl(ctx.lean(f"credit {w(ax[0])} {w(a)} {w(h)} {w(ax[-1])} 0").split(" ")[0])
    mirrors = len(out) == len(ax) and all(close(p, q, scale=max(abs(q), fr(h))) for p, q in zip(ax, out))
    detail = {"axis": ax, "what": "CTMCCredit accepts a threshold with -h <= a < 0 and returns an axis that is not strictly increasing"}
    if axis_ok(ax, o):
        return
    try:
        model_t = copy.deepcopy(model)
        model_t.truncate_levy_measure(truncations=g.truncations[0])
        q = [float(x) for x in create_q_vector(model_t.levy_triplet.nu, g)]
        detail["region_rate"] = math.fsum(q[k] for k, x in enumerate(ax) if x < a)
        detail["theta_truncated"] = float(CFLevyModel(model_t)._theta(a))
    except ValueError as e:
        detail["chain"] = repr(e)
    ctx.fail("oracle", "c19.credit.level_within_h", d, detail, cls=cls, mirrors_model=bool(mirrors))


# ------------------------------------------------------------------------------------------------- edge: interest rate 0
def zero_rate_probe(ctx, d, corr=True):
    cls = dict(stream="edge", zero_rate=True)
    guarded(ctx, "c19.cds.zero_rate", d, cls, _zero_rate, ctx, d, cls)


def _zero_rate(ctx, d, cls):
    """the excluded point `r != 0` of `cds_legs_are_expectations` (3), (5), run on the real code: a model with interest rate 0 (a
    legal parameter; the closed forms only need r + theta != 0).  Admissible outcomes: the payoff class refuses the
    discounting function, or its value is the limit r -> 0 of the stated formula, (1-R) 1{tau <= T} - s min(T, tau)."""
    R, s, T = d["R"], d["s"], d["T"]
    model = make_model(d["family"], {}, True, 0.0)
    ctx.count("c19.cds.zero_rate", d, nontrivial=True, branch="zero_rate")
    try:
        cds = CDS(recovery_rate=R, spread=s, maturity=T, discounting=model.df)
    except (ValueError, ZeroDivisionError):
        ctx.branches["c19.cds.zero_rate:rejected_by_constructor"] += 1
        return
    bad = {}
    for tau in d["taus"]:
        t = INF if tau == "inf" else tau
        got = float(cds.evaluate(t))
        want = ((1 - R) if t <= T else 0.0) - s * min(T, t)
        if not (math.isfinite(got) and abs(got - want) <= 1e-12 * max(1.0, abs(want))):
            bad[str(tau)] = {"CDS.evaluate": got, "limit of the stated formula": want}
    # the closed forms themselves are fine at r = 0 (r + theta != 0): par spread <-> zero present value
    cf = CFLevyModel(model)
    a = d["a"]
    par = float(cf.cds_spread(a, R))
    if par > 1e-12:
        s0 = float(cf.implied_cds_spread(pv=0.0, level_a=a, recovery_rate=R, maturity=T))
        if not abs(s0 - par) <= 1e-10 * max(1.0, abs(par)):
            ctx.fail("oracle", "c19.pv_zero_is_par_spread", d, {"implied_cds_spread(pv=0)": s0, "par_spread": par, "r": 0.0}, cls=cls)
            return
    if bad:
        ctx.fail("oracle", "c19.cds.zero_rate", d, {"what": "CDS payoff of a model with interest rate 0 is not the r -> 0 limit of its formula",
                                                  "values": bad, "_r": float(cds._r)}, cls=cls)


# ------------------------------------------------------------------------------------------------- synthetic exact stream
def synthetic_probe(ctx, d, corr=True):
    cls = dict(stream="synthetic", on_boundary=d["on_boundary"])
    guarded(ctx, "c19.synthetic", d, cls, _synthetic, ctx, d, cls, corr)


def _synthetic(ctx, d, cls, corr):
    """raw CTMCGrid with a dyadic axis and a piecewise-constant Levy density (exact integrals): with the threshold on a cell
    boundary the region rate equals nu[l, a] *exactly*; off the boundaries (Lean witness `off_boundary_threshold_breaks`)
    nothing is demanded, the implementation is only compared with M"""
    from rpylib.model.levymodel.levymodel import TruncatedLevyMeasure
    ax, o, a = d["axis"], d["o"], d["a"]
    g = zoo.CTMCGrid(h=ax[o + 1], origin_coordinate=o, axes=[np.array(ax)])
    nu = zoo.TableMeasure(d["knots"], d["heights"])
    nu_t = TruncatedLevyMeasure(nu, (ax[0], ax[-1]))
    q = [float(x) for x in create_q_vector(nu_t, g)]
    region = math.fsum(q[k] for k, x in enumerate(ax) if x < a)
    theta = float(nu_t.integrate(-INF, a))
    ctx.count("c19.synthetic", d, nontrivial=theta > 0, branch="on_boundary" if d["on_boundary"] else "off_boundary")
    if d["on_boundary"] and region != theta:
        ctx.fail("oracle", "c19.region_rate_eq_theta", d, {"dim": 1, "region_rate": region, "theta_clipped": theta,
                                                         "what": "exact synthetic measure, threshold on a cell boundary"}, cls=cls)
        return
    if corr:
        out = ctx.lean(f"region1d {wl(ax)} {o} {w(a)} {wl(q)} {w(theta)}").split(" ")
        if not (rd(out[0]) == fr(region) and rd(out[1]) == fr(theta)
                and [int(x) for x in rdl(out[2])] == [k for k, x in enumerate(ax) if x < a]):
            ctx.fail("corr", "c19.region1d.model", d, {"name": "Drivers/C19 region1d vs create_q_vector (exact stream)",
                                                      "impl_region": region, "impl_theta": theta, "model": out}, cls=cls)


def case_synthetic(rng, witness=False):
    if witness:     # the Lean negation witness `off_boundary_threshold_breaks`, replayed on the implementation
        return dict(axis=[-4.0, -2.0, -1.0, 0.0, 1.0, 3.0, 7.0], o=3, a=-2.5, knots=[-8.0, 8.0], heights=[1.0], on_boundary=False)
    nl, nr = rng.randint(2, 5), rng.randint(1, 4)
    left, x = [], 0.0
    for _ in range(nl):
        x -= rng.randint(1, 12) / 8
        left.append(x)
    right, x = [], 0.0
    for _ in range(nr):
        x += rng.randint(1, 12) / 8
        right.append(x)
    ax = left[::-1] + [0.0] + right
    o = nl
    on = rng.random() < 0.6
    if on:
        t = rng.randint(1, o)                      # boundary below cell t, 0 < t <= o
        a = (ax[t - 1] + ax[t]) / 2
    else:
        t = rng.randint(0, o - 1)
        a = ax[t] + (ax[t + 1] - ax[t]) * rng.choice([1, 3, 5, 7]) / 8
        if a == (ax[t] + ax[t + 1]) / 2:
            a = ax[t] + (ax[t + 1] - ax[t]) / 8
    knots = sorted({-16.0, ax[0] - rng.randint(0, 8) / 8, rng.choice(ax[:o]) + 1 / 16, -1 / 32, 1 / 32, 16.0})
    heights = [rng.randint(0, 16) / 8 for _ in knots[1:]]
    return dict(axis=ax, o=o, a=a, knots=knots, heights=heights, on_boundary=on)


# ------------------------------------------------------------------------------------------------- n-d chains
def incl_excl(dim, term):
    """sum over the non-empty subsets I of (-1)^(|I|+1) term(I)"""
    tot, parts = 0.0, []
    for k in range(1, dim + 1):
        for I in itertools.combinations(range(dim), k):
            v = float(term(I))
            parts.append(v)
            tot += (-1) ** (k + 1) * v
    return tot, parts


def theta_ingredients(cmodel, levels):
    """what `_theta` reads from a copula model (cflevycopula.py:35-51)"""
    dim = len(levels)
    lows = [float(m.mass(-INF, a)) for m, a in zip(cmodel.models, levels)]
    pairs = [(i, j, float(cmodel.margin_tail_integral(indices=[i, j], x=(levels[i], levels[j]))))
             for i in range(dim) for j in range(i + 1, dim)]
    triple = float(cmodel.tail_integrals(x=levels)) if dim == 3 else 0.0
    return lows, pairs, triple


def theta_model_line(dim, levels, lows, pairs, triple):
    ptxt = "[" + ";".join(f"{i},{j},{w(v)}" for i, j, v in pairs) + "]"
    return f"theta {dim} {wl(levels)} {wl(lows)} {ptxt} {w(triple)}"


def theta_corr(ctx, d, cls, cmodel, levels, label):
    """C: M's thetaCopula fed the implementation's own ingredients vs `_theta`"""
    dim = len(levels)
    lows, pairs, triple = theta_ingredients(cmodel, levels)
    th = float(CFLevyCopulaModel(cmodel)._theta(levels))
    out = ctx.lean(theta_model_line(dim, levels, lows, pairs, triple))
    scale = sum(abs(x) for x in lows) + sum(abs(p[2]) for p in pairs) + abs(triple)
    if out.startswith("err") or not close(th, rd(out), scale=fr(scale) if scale > 0 else None):
        ctx.fail("corr", "c19.theta.model", d, {"name": f"Drivers/C19 theta vs CFLevyCopulaModel._theta ({label})", "impl": th,
                                                "model": out, "lows": lows, "pairs": pairs, "triple": triple}, cls=cls)
        return False
    return True


def chainnd_probe(ctx, d, corr=True):
    cls = dict(stream="nd", dim=len(d["a"]), copula=d["copula"], sym=d["sym"])
    guarded(ctx, "c19.chainNd", d, cls, _chainnd, ctx, d, cls, corr)


def _chainnd(ctx, d, cls, corr):
    levels, h, sym = list(d["a"]), d["h"], d["sym"]
    dim = len(levels)
    margins, cm = make_cm(d)
    try:
        g = zoo.CTMCCredit(h=h, level_a=levels, model=cm, symmetric_grid=sym)
    except ValueError as e:
        if "level a smaller" in str(e):
            ctx.branches["c19.chainNd:rejected_level_outside_grid"] += 1
            return
        raise
    axes = zoo.axis_list(g)
    o = int(list(g.origin_coordinate)[0])
    if not wellformed_or_skip(ctx, d, cls, axes, o, levels, h, sym, "chainNd"):
        return
    n = len(axes[0])
    # the chain's model: first lines of MarkovChainLevyCopula.__init__ (markovchainlevycopula.py:90-91)
    model_t = copy.deepcopy(cm)
    model_t.truncate_levy_measure(truncations=g.truncations)
    states = list(itertools.product(range(n), repeat=dim))
    origin = tuple([o] * dim)
    masses = {}
    for cs in states:
        if cs == origin:
            masses[cs] = 0.0
            continue
        pt = Coordinates(cs)
        lo = tuple(float(x) for x in g.middle(g.left_point(pt), g[pt]))
        hi = tuple(float(x) for x in g.middle(g[pt], g.right_point(pt)))
        masses[cs] = float(model_t.mass(lo, hi))
    lam = math.fsum(masses.values())
    default_states = [cs for cs in states if any(axes[i][c] < levels[i] for i, c in enumerate(cs))]
    region = math.fsum(masses[cs] for cs in default_states)
    l = [ax[0] for ax in axes]
    r = [ax[-1] for ax in axes]

    def clipped(I):
        return cm.mass(tuple(l), tuple(levels[i] if i in I else r[i] for i in range(dim)))

    th_clip, clip_parts = incl_excl(dim, clipped)
    # the same boxes measured from the definitions (every tail integral in the slot of its own coordinate of cm.copula)
    th_clip_def, clip_def_parts = incl_excl(dim, lambda I: box_mass_def(cm.copula, margins, l, [levels[i] if i in I else r[i]
                                                                                                for i in range(dim)]))
    th_full = float(CFLevyCopulaModel(cm)._theta(levels))
    th_mass, full_parts = incl_excl(dim, lambda I: cm.mass(tuple([-INF] * dim),
                                                             tuple(levels[i] if i in I else INF for i in range(dim))))
    outside = sum(float(m.levy_triplet.nu.integrate(-INF, l[i])) + float(m.levy_triplet.nu.integrate(r[i], INF))
                  for i, m in enumerate(margins))
    scale = max(lam, sum(abs(x) for x in full_parts), 1e-300)
    tol = REL * scale
    top = max(clip_parts[dim:]) if dim > 1 else 0.0           # largest pair / triple term
    nontrivial = th_clip > 1e-9 * lam and top > 1e-9 * th_clip
    ctx.count("c19.chainNd", d, nontrivial=nontrivial, branch=f"d{dim}:{d['copula']}:{'sym' if sym else 'asym'}")
    ctx.branches[f"c19.chainNd:d{dim}"] += 1
    ctx.branches[f"c19.chainNd:d{dim}:{'nontrivial' if nontrivial else 'negligible_theta_or_pair_terms'}"] += 1
    if not (abs(region - th_clip) <= tol and abs(region - th_clip_def) <= tol):
        ctx.fail("oracle", "c19.region_rate_eq_theta", d, {"dim": dim, "region_rate": region, "theta_clipped": th_clip,
                                                         "theta_clipped, box masses from the definitions": th_clip_def,
                                                         "intensity": lam, "clipped_terms": clip_parts,
                                                         "clipped_terms from the definitions": clip_def_parts, "axes": axes,
                                                         "copula": repr(cm.copula)}, cls=cls)
        credit_axis_check(ctx, d, cls, g, axes, levels, sym, False)
        return
    if not credit_axis_check(ctx, d, cls, g, axes, levels, sym, corr):
        return
    if not abs(th_full - th_mass) <= tol:
        ctx.fail("oracle", "c19.theta_is_mass_of_union", d, {"dim": dim, "_theta(untruncated)": th_full,
                                                           "incl_excl of model.mass over the half-spaces": th_mass,
                                                           "terms": full_parts}, cls=cls)
        return
    if not theta_references(ctx, d, cls, margins, cm, levels, th_full, tol, "chainNd"):
        return
    if not (-tol <= th_full - th_clip <= outside + tol):
        ctx.fail("oracle", "c19.theta_untruncated_dominates", d, {"dim": dim, "_theta(untruncated)": th_full,
                                                                "theta_clipped": th_clip, "mass_outside_box": outside}, cls=cls)
        return
    # S3: increasing in each threshold
    cf = CFLevyCopulaModel(cm)
    for i in range(dim):
        for delta in (0.05, 1e-3):
            up = list(levels)
            up[i] = min(levels[i] + delta, -h / 2)
            th_up = float(cf._theta(up))
            if th_up < th_full - tol:
                ctx.fail("oracle", "c19.theta_monotone", d, {"dim": dim, "levels": levels, "raised": up, "theta": th_full,
                                                           "theta_raised": th_up}, cls=cls)
                return
    # S4: one copula pricer object across an in-place truncation of its model vs a fresh pricer on the same model
    cm2 = copy.deepcopy(cm)
    cfu = CFLevyCopulaModel(cm2)
    used0 = [float(cfu.survival_probability(levels, 1.0)), float(cfu.first_to_default_par_spread(levels, 0.4))]
    cm2.truncate_levy_measure(truncations=g.truncations)
    now = [float(cfu.survival_probability(levels, 1.0)), float(cfu.first_to_default_par_spread(levels, 0.4))]
    fresh_cf = CFLevyCopulaModel(cm2)
    fresh = [float(fresh_cf.survival_probability(levels, 1.0)), float(fresh_cf.first_to_default_par_spread(levels, 0.4))]
    ctx.branches["c19.chainNd:pricer_history"] += 1
    if now != fresh:
        ctx.fail("oracle", "c19.pricer_history", d, {"after": "truncate_levy_measure", "used_pricer": now, "fresh_pricer_on_the_same_model": fresh,
                                                   "before_the_change": used0, "levels": levels}, cls=cls)
        return
    if corr:
        if not theta_corr(ctx, d, cls, cm, levels, "untruncated model"):
            return
        if not theta_corr(ctx, d, cls, model_t, levels, "truncated model (#32: truncated diagonal, untruncated pairs)"):
            return
        vals = [masses[cs] for cs in states]
        out = ctx.lean(f"regionNd {wll(axes)} {o} {wl(levels)} {wl(vals)}").split(" ")
        m_reg, m_cnt = rd(out[0]), int(out[1])
        boxes = [[float(x) for x in b] for b in _parse_boxes(out[2])]
        if not (close(region, m_reg, scale=fr(lam)) and m_cnt == len(default_states)):
            ctx.fail("corr", "c19.regionNd.model", d, {"name": "Drivers/C19 regionNd vs sum of model.mass over the default cells",
                                                      "impl_region": region, "impl_count": len(default_states), "model": out[:2]}, cls=cls)
            return
        # the boxes at which M's thetaClipped evaluates the mass: measure them on the implementation, hand them back
        bvals = [float(cm.mass(tuple(b[0::2]), tuple(b[1::2]))) for b in boxes]
        out2 = ctx.lean(f"clipped {wll(axes)} {wl(levels)} {wl(bvals)}")
        if out2.startswith("err") or not close(th_clip, rd(out2), scale=fr(sum(abs(x) for x in bvals) or 1.0)):
            ctx.fail("corr", "c19.clipped.model", d, {"name": "Drivers/C19 thetaClipped vs inclusion-exclusion of model.mass",
                                                     "impl": th_clip, "model": out2, "boxes": boxes, "values": bvals}, cls=cls)


def theta_probe(ctx, d, corr=True):
    cls = dict(stream="theta", dim=len(d["a"]), copula=d["copula"])
    guarded(ctx, "c19.theta", d, cls, _theta, ctx, d, cls, corr)


def _theta(ctx, d, cls, corr):
    """the closed form alone (no grid): `_theta` = mass of the union of the half-spaces by inclusion-exclusion of
    `model.mass`, increasing in each threshold; C: M's thetaCopula on the implementation's ingredients"""
    levels = list(d["a"])
    dim = len(levels)
    margins, cm = make_cm(d)
    cf = CFLevyCopulaModel(cm)
    if d.get("decoy"):
        decoy_nd(levels)
        ctx.branches["c19.theta:decoy_pricer_first"] += 1
    th = float(cf._theta(levels))
    th_mass, parts = incl_excl(dim, lambda I: cm.mass(tuple([-INF] * dim),
                                                        tuple(levels[i] if i in I else INF for i in range(dim))))
    scale = max(sum(abs(x) for x in parts), 1e-300)
    top = max(parts[dim:])
    ctx.count("c19.theta", d, nontrivial=top > 1e-9 * th, branch=f"d{dim}:{d['copula']}")
    ctx.branches[f"c19.theta:d{dim}:{'nontrivial' if parts[-1] > 1e-9 * th else 'negligible_top_term'}"] += 1
    if not abs(th - th_mass) <= REL * scale:
        ctx.fail("oracle", "c19.theta_is_mass_of_union", d, {"dim": dim, "_theta(untruncated)": th,
                                                           "incl_excl of model.mass over the half-spaces": th_mass,
                                                           "terms": parts}, cls=cls)
        return
    if not theta_references(ctx, d, cls, margins, cm, levels, th, REL * scale, "theta"):
        return
    if not (max(parts[:dim]) - REL * scale <= th <= sum(parts[:dim]) + REL * scale):
        ctx.fail("oracle", "c19.theta_is_mass_of_union", d, {"dim": dim, "what": "theta outside [max_i nu_i, sum_i nu_i]",
                                                           "_theta": th, "marginal masses": parts[:dim]}, cls=cls)
        return
    for i in range(dim):
        up = list(levels)
        up[i] = min(levels[i] + d["delta"], -1e-3)
        th_up = float(cf._theta(up))
        if th_up < th - REL * scale:
            ctx.fail("oracle", "c19.theta_monotone", d, {"dim": dim, "levels": levels, "raised": up, "theta": th,
                                                       "theta_raised": th_up}, cls=cls)
            return
    if corr:
        theta_corr(ctx, d, cls, cm, levels, "untruncated model")


def _parse_boxes(tok):
    """`[[a,b,c,d],[…]]` as printed by showList showBox"""
    inner = tok.strip()[1:-1]
    if not inner:
        return []
    return [[rd(x) for x in part.strip("[]").split(",")] for part in inner.split("],[")]


# ------------------------------------------------------------------------------------------------- malformed levels
def guards_probe(ctx, d):
    cls = dict(stream="guards")
    guarded(ctx, "c19.guards", d, cls, _guards, ctx, d, cls)


def _guards(ctx, d, cls):
    _, cm = make_cm(d)
    levels = list(d["a"])
    dim = len(d["margins"])
    ctx.count("c19.guards", d, nontrivial=True, branch=d["what"])
    try:
        CFLevyCopulaModel(cm)._theta(levels)
        impl = "ok"
    except NotImplementedError:
        impl = "err:notImplemented"
    except ValueError as e:
        impl = "err:levelCount" if "one level per margin" in str(e) else "err:nonNegativeLevel"
    lows = [0.0] * dim
    out = ctx.lean(theta_model_line(dim, levels, lows, [], 0.0))
    model = "ok" if not out.startswith("err") else out
    if impl != model:
        ctx.fail("corr", "c19.theta.guards", d, {"name": "Drivers/C19 theta guards vs CFLevyCopulaModel._theta", "impl": impl,
                                                 "model": out}, cls=cls)
    # the property's reading: a non-negative level, a wrong count or > 3 names never yields a number
    want = {"nonneg": "err:nonNegativeLevel", "count": "err:levelCount", "dim4": "err:notImplemented"}[d["what"]]
    if impl != want:
        ctx.fail("oracle", "c19.theta.guards", d, {"expected": want, "got": impl}, cls=cls)


# ------------------------------------------------------------------------------------------------- spreads
def spreads_probe(ctx, d, corr=True):
    cls = dict(stream="spreads", kind=d["kind"])
    guarded(ctx, "c19.spreads", d, cls, _spreads, ctx, d, cls, corr)


def _spreads(ctx, d, cls, corr):
    R, T, r = d["R"], d["T"], d["r"]
    if d["kind"] == "1d":
        model = make_model(d["family"], d["params"], True, r)
        cf = CFLevyModel(model)
        a = d["a"]
        if d.get("decoy"):
            decoy_1d(a, R, T)
            ctx.branches["c19.spreads:decoy_pricer_first"] += 1
        theta = float(cf._theta(a))
        ref = float(model.mass(-INF, a))                # theta is nu(-inf, a), asked of the model itself
        if not abs(theta - ref) <= 1e-12 * max(ref, 1e-300):
            ctx.fail("oracle", "c19.theta_is_lower_tail_mass", d, {"_theta": theta, "model.mass(-inf, a)": ref}, cls=cls)
            return
        par = float(cf.cds_spread(level_a=a, recovery_rate=R))
        lo, hi = -5, 10
        df = model.df
    else:
        margins, cm = make_cm(dict(d, exp=True))
        cf = CFLevyCopulaModel(cm)
        a = list(d["a"])
        if d.get("decoy"):
            decoy_nd(a, R, T)
            ctx.branches["c19.spreads:decoy_pricer_first"] += 1
        theta = float(cf._theta(a))
        ref = incl_excl(len(a), lambda I: cm.mass(tuple([-INF] * len(a)), tuple(a[i] if i in I else INF for i in range(len(a)))))[0]
        if not abs(theta - ref) <= 1e-9 * max(abs(ref), 1e-300):
            ctx.fail("oracle", "c19.theta_is_mass_of_union", d, {"dim": len(a), "_theta(untruncated)": theta,
                                                               "incl_excl of model.mass over the half-spaces": ref}, cls=cls)
            return
        if not theta_references(ctx, d, cls, margins, cm, a, theta, 1e-9 * max(abs(ref), 1e-300), "spreads"):
            return
        par = float(cf.first_to_default_par_spread(levels_a=a, recovery_rate=R))
        lo, hi = -10, 10
        df = cm.df
    surv = float(cf.survival_probability(a, T))
    ctx.count("c19.spreads", d, nontrivial=theta > 1e-12, branch=d["kind"])
    # ---- S4
    if not abs(surv - math.exp(-theta * T)) <= 1e-10:
        ctx.fail("oracle", "c19.survival", d, {"survival_probability": surv, "exp(-theta T)": math.exp(-theta * T),
                                             "theta": theta}, cls=cls)
        return
    if not (0.0 < surv <= 1.0):
        ctx.fail("oracle", "c19.survival", d, {"survival_probability": surv, "what": "not in (0, 1]"}, cls=cls)
        return
    if not abs(par - (1 - R) * theta) <= 1e-10 * max(1.0, theta):
        ctx.fail("oracle", "c19.par_spread", d, {"par_spread": par, "(1-R) theta": (1 - R) * theta}, cls=cls)
        return
    # present value 0 <-> par spread
    s0 = float(cf.implied_cds_spread(pv=0.0, level_a=a, recovery_rate=R, maturity=T))
    if not abs(s0 - par) <= 1e-10 * max(1.0, abs(par)):
        ctx.fail("oracle", "c19.pv_zero_is_par_spread", d, {"implied_cds_spread(pv=0)": s0, "par_spread": par}, cls=cls)
        return
    # present value of a running spread s, from the payoff class itself: E[CDS.evaluate(tau)] df(T), tau ~ Exp(theta)
    s = d["s"]
    cds = CDS(recovery_rate=R, spread=s, maturity=T, discounting=df)
    if theta > 0:
        integral = quad(lambda t: theta * math.exp(-theta * t) * float(cds.evaluate(t)), 0.0, T, epsabs=1e-14, epsrel=1e-12)[0]
    else:
        integral = 0.0
    pv = (integral + math.exp(-theta * T) * float(cds.evaluate(np.inf))) * float(df(T))
    s_back = float(cf.implied_cds_spread(pv=pv, level_a=a, recovery_rate=R, maturity=T))
    if not abs(s_back - s) <= 1e-8 * max(1.0, abs(s)):
        ctx.fail("oracle", "c19.cds.expectation", d, {"spread": s, "pv = E[CDS.evaluate] df(T)": pv,
                                                    "implied_cds_spread(pv)": s_back, "theta": theta}, cls=cls)
        return
    # the two legs separately (theorem cds_legs_are_expectations (2), (3)): the code's closed-form legs, recovered from two
    # queries of implied_cds_spread (s(pv) = (default_leg - pv) / fixed_leg), vs the expectations of the payoff class's own
    # legs under tau ~ Exp(theta): protection leg = CDS with zero spread, premium leg = minus the CDS with R = 1, spread 1
    legs = None
    if theta > 1e-6:
        p1 = 0.01
        s1 = float(cf.implied_cds_spread(pv=p1, level_a=a, recovery_rate=R, maturity=T))
        fl_code = p1 / (s0 - s1)
        dl_code = s0 * fl_code
        cds_dl = CDS(recovery_rate=R, spread=0.0, maturity=T, discounting=df)
        cds_fl = CDS(recovery_rate=1.0, spread=1.0, maturity=T, discounting=df)
        dens = lambda t: theta * math.exp(-theta * t)
        dl_q = (quad(lambda t: dens(t) * float(cds_dl.evaluate(t)), 0.0, T, epsabs=1e-14, epsrel=1e-12)[0]
                + math.exp(-theta * T) * float(cds_dl.evaluate(np.inf))) * float(df(T))
        fl_q = -(quad(lambda t: dens(t) * float(cds_fl.evaluate(t)), 0.0, T, epsabs=1e-14, epsrel=1e-12)[0]
                 + math.exp(-theta * T) * float(cds_fl.evaluate(np.inf))) * float(df(T))
        ctx.branches["c19.spreads:legs_checked"] += 1
        tol_legs = 1e-6 * max(abs(dl_q), abs(fl_q), 1e-9)       # R = 1: the protection leg is 0, the scale is the premium leg's
        if not (abs(dl_code - dl_q) <= tol_legs and abs(fl_code - fl_q) <= tol_legs):
            ctx.fail("oracle", "c19.cds.legs", d, {"default_leg (from implied_cds_spread)": dl_code, "E[protection leg of CDS.evaluate] df(T)": dl_q,
                                                 "fixed_leg (from implied_cds_spread)": fl_code, "E[premium leg of CDS.evaluate] df(T)": fl_q,
                                                 "theta": theta}, cls=cls)
            return
        legs = (dl_code, fl_code)
    # threshold <-> spread (1-d closed form only)
    if d["kind"] == "1d":
        h0 = d["h0"]
        a_back = float(cf.implied_cds_threshold(cds_spread=par, recovery_rate=R, h0=h0))
        par_back = float(cf.cds_spread(level_a=a_back, recovery_rate=R))
        slope = (float(cf.cds_spread(a + 1e-6, R)) - float(cf.cds_spread(a - 1e-6, R))) / 2e-6
        # the float tail mass is only resolved to ~1e-16 * intensity in absolute terms (Merton: 1 + erf cancellation), so
        # the located root is only determined to (absolute noise) / slope; the threshold itself is compared where that is small
        tol_a = 1e-10 + 1e-13 / max(slope, 1e-300)
        if not (-10 <= a_back <= -h0) or not abs(par_back - par) <= 1e-10 + 1e-9 * abs(par) or \
                (slope > 0 and tol_a < 1e-6 and not abs(a_back - a) <= tol_a):
            ctx.fail("oracle", "c19.threshold_round_trip", d, {"a": a, "cds_spread(a)": par, "implied_cds_threshold": a_back,
                                                             "cds_spread(implied)": par_back, "slope": slope}, cls=cls)
            return
    if not corr:
        return
    # ---- C: M's maps with the implementation's exp values handed in
    rr = float(cf.model.r) if d["kind"] == "1d" else float(cm.models[0].r)
    out = ctx.lean(f"exparg {w(theta)} {w(rr)} {w(T)} {w(T)}").split(" ")
    x_surv, x_disc = rd(out[0]), rd(out[1])
    E = float(np.exp(float(x_disc)))
    if not (close(surv, fr(math.exp(float(x_surv))), scale=1) and close(-(rr + theta) * T, x_disc, scale=abs(x_disc))):
        ctx.fail("corr", "c19.survival.model", d, {"name": "Drivers/C19 exparg vs survival_probability", "impl": surv,
                                                   "model_exponent": float(x_surv)}, cls=cls)
        return
    # the carrier-generic formulas of the real theorem, run at Q: legs vs the code's, pathwise payoff vs CDS.evaluate
    t_mid = T / 2
    dfT, dfTau = float(cds._df_T), float(df(t_mid))
    out = ctx.lean(f"legsF {w(E)} {w(theta)} {w(float(cds._r))} {w(R)} {w(s)} {w(dfT)} {w(dfTau)}")
    if out != "bad-op":
        m_dl, m_fl, m_pv, m_def, m_sur = (rd(x) for x in out.split(" "))
        sc_path = fr((abs(1 - R) + abs(s) / float(cds._r)) / dfT)
        ok = close(float(cds.evaluate(t_mid)), m_def, scale=sc_path) and close(float(cds.evaluate(np.inf)), m_sur, scale=sc_path) \
            and close(float(cds.evaluate(2 * T)), m_sur, scale=sc_path)
        if legs is not None:     # r of the closed form is model.r, the payoff's is -log(df(1)): equal up to rounding
            tl = fr(1e-6) * max(abs(m_dl), abs(m_fl))
            ok = ok and abs(fr(legs[0]) - m_dl) <= tl and abs(fr(legs[1]) - m_fl) <= tl
        if not ok:
            ctx.fail("corr", "c19.legsF.model", d, {"name": "Drivers/C19 legsF vs CDS.evaluate / the legs of implied_cds_spread",
                                                   "impl_legs": legs, "impl_payoff": [float(cds.evaluate(t_mid)), float(cds.evaluate(np.inf))],
                                                   "model": out}, cls=cls)
            return
    for pv_in, want_none in ((pv, False), (0.0, False), (d["pv_out"], True)):
        out = ctx.lean(f"spreads {w(E)} {w(theta)} {w(rr)} {w(R)} {w(s)} {w(pv_in)} {lo} {hi}").split(" ")
        m_par, m_dl, m_fl, m_pv, m_imp = rd(out[0]), rd(out[1]), rd(out[2]), rd(out[3]), out[4]
        try:
            imp = float(cf.implied_cds_spread(pv=pv_in, level_a=a, recovery_rate=R, maturity=T))
        except ValueError:
            imp = None
        ok = close(par, m_par, scale=max(abs(m_par), fr(1e-300)))
        if m_imp == "none" or imp is None:
            # outside the bracket both must refuse; within 1e-9 of a bracket end the outcome is a don't-care
            root = (m_dl - fr(pv_in)) / m_fl if m_fl != 0 else None
            near_end = root is not None and min(abs(root - lo), abs(root - hi)) < fr(1e-9)
            ok = ok and (near_end or (m_imp == "none" and imp is None))
        else:
            sc = (abs(m_dl) + abs(fr(pv_in))) / abs(m_fl)
            ok = ok and abs(fr(imp) - rd(m_imp)) <= fr(1e-11) + fr(2 ** -40) * sc
        if pv_in == pv:   # M's closed-form present value vs the quadrature of the payoff class
            ok = ok and abs(fr(pv) - m_pv) <= fr(1e-9) * max(abs(m_dl) + abs(fr(s)) * abs(m_fl), fr(1e-12))
        if not ok:
            ctx.fail("corr", "c19.spreads.model", d, {"name": "Drivers/C19 spreads vs cds_spread / implied_cds_spread", "pv": pv_in,
                                                     "impl_par": par, "impl_implied": imp, "model": out}, cls=cls)
            return


# ------------------------------------------------------------------------------------------------- default times, payoff
def first_below(incs, a):
    for k, x in enumerate(incs):
        if x < a:
            return k
    return None


def deftimes_probe(ctx, d, corr=True):
    cls = dict(stream="deftimes")
    guarded(ctx, "c19.deftimes", d, cls, _deftimes, ctx, d, cls, corr)


def _deftimes(ctx, d, cls, corr):
    times = np.array(d["times"], dtype=float)
    paths = np.array(d["paths"], dtype=float)
    levels = list(d["a"])
    dim = len(levels)
    ctx.count("c19.deftimes", d, nontrivial=True, branch=f"d{dim}")
    want = []
    for p, a in zip(d["paths"], levels):
        k = first_below([y - x for x, y in zip(p, p[1:])], a)
        want.append(INF if k is None else d["times"][k + 1])
    got = [float(DefaultTime(default_level=a)._value_log(times, paths[i], paths[i])) for i, a in enumerate(levels)]
    got_exp = [float(DefaultTime(default_level=a).value(times, np.exp(paths[i]), np.exp(paths[i]))) for i, a in enumerate(levels)]
    if got != want or got_exp != want:
        ctx.fail("oracle", "c19.default_time", d, {"expected first jump below the threshold": want, "_value_log": got,
                                                 "value": got_exp}, cls=cls)
        return
    if dim >= 2:
        ftd = float(NthDefaultTimes(default_levels=levels, index=1)._value_log(times, paths, paths))
        kth = [float(DefaultTimeNthUnderlying(default_levels=levels, underlying_index=i + 1)._value_log(times, paths, paths))
               for i in range(dim)]
        if ftd != min(want) or kth != want:
            ctx.fail("oracle", "c19.default_time", d, {"expected": want, "NthDefaultTimes(index=1)": ftd,
                                                     "DefaultTimeNthUnderlying": kth}, cls=cls)
            return
    if corr:
        for i, a in enumerate(levels):
            out = ctx.lean(f"deftime {wl(d['times'])} {wl(d['paths'][i])} {w(a)}")
            if rd(out) != (INF if math.isinf(got[i]) else fr(got[i])):
                ctx.fail("corr", "c19.deftime.model", d, {"name": "Drivers/C19 deftime vs DefaultTime._value_log", "impl": got[i],
                                                         "model": out}, cls=cls)
                return
        if dim >= 2:
            out = ctx.lean(f"ftd {wl(d['times'])} {wll(d['paths'])} {wl(levels)}").split(" ")
            m_ftd = rd(out[1])
            if m_ftd != (INF if math.isinf(ftd) else fr(ftd)):
                ctx.fail("corr", "c19.deftime.model", d, {"name": "Drivers/C19 ftd vs NthDefaultTimes(index=1)", "impl": ftd,
                                                         "model": out}, cls=cls)


def payoff_probe(ctx, d, corr=True):
    cls = dict(stream="payoff")
    guarded(ctx, "c19.payoff", d, cls, _payoff, ctx, d, cls, corr)


def _payoff(ctx, d, cls, corr):
    R, s, r, T, tau = d["R"], d["s"], d["r"], d["T"], d["tau"]
    tau_f = INF if tau == "inf" else tau

    def df(t):
        return math.exp(-r * t)

    cds = CDS(recovery_rate=R, spread=s, maturity=T, discounting=df)
    got = float(cds.evaluate(tau_f))
    ctx.count("c19.payoff", d, nontrivial=True, branch="no_default" if tau_f > T else "default")
    # S: protection leg paid at default if it happens before maturity, premium accrued until min(T, tau), both per df(T)
    r_eff = -math.log(df(1))
    want = ((1 - R) * df(tau_f) if tau_f <= T else 0.0) / df(T) - s * (1 - df(min(T, tau_f))) / r_eff / df(T)
    if not abs(got - want) <= 1e-12 * max(1.0, abs(want)):
        ctx.fail("oracle", "c19.cds_payoff", d, {"CDS.evaluate": got, "expected": want}, cls=cls)
        return
    if corr:
        dfTau = 0.0 if math.isinf(tau_f) else df(tau_f)
        dfMin = df(min(T, tau_f))
        out = ctx.lean(f"cds {w(R)} {w(s)} {w(float(cds._r))} {w(T)} {w(float(cds._df_T))} {w(tau_f)} {w(dfTau)} {w(dfMin)}")
        sc = (abs((1 - R) * dfTau) + abs(s * (1 - dfMin) / r_eff)) / df(T)
        if out == "bad-op" or not close(got, rd(out), scale=fr(max(sc, 1e-300))):
            ctx.fail("corr", "c19.cds_payoff.model", d, {"name": "Drivers/C19 cds vs CDS.evaluate", "impl": got, "model": out}, cls=cls)


# ------------------------------------------------------------------------------------------------- generators
LEVELS = [-0.2, -0.25, -0.3, -0.35, -0.4, -0.5]
CLAYTON = dict(theta=[0.3, 0.7, 1.0, 2.5], eta=[0.1, 0.3, 0.5, 0.9])


def heavy_left(rng, fam):
    """parameter draws whose left tail is not negligible at the thresholds (so that theta, pair and triple terms matter)"""
    u = rng.uniform
    if fam == "hem":
        return dict(sigma=round(u(0.05, 0.3), 3), p=round(u(0.2, 0.6), 3), eta1=round(u(8, 30), 2), eta2=round(u(3, 9), 2),
                    intensity=round(u(1, 8), 2))
    if fam == "merton":
        return dict(sigma=round(u(0.05, 0.3), 3), sigma_j=round(u(0.12, 0.25), 3), mu_j=round(u(0.0, 0.05), 3),
                    intensity=round(u(1, 8), 2))
    if fam == "vg":
        return dict(sigma=round(u(0.2, 0.35), 3), nu=round(u(0.2, 0.5), 3), theta=round(u(-0.3, -0.05), 3))
    y = rng.choice(zoo.CGMY_Y_BRANCHES)
    if y not in (0.0, 1.0):
        y = round(y + u(-0.3, 0.3), 2)
    return dict(c=round(u(0.3, 2.0), 2), g=round(u(3, 9), 1), m=round(u(5, 25), 1), y=y)


def draw_margin(rng, fam=None):
    fam = fam or rng.choice(zoo.FAMILIES)
    x = rng.random()
    if x < 0.2:
        prm = {}
    elif x < 0.5:
        prm = zoo.draw_params(rng, fam)
    else:
        prm = heavy_left(rng, fam)
    if rng.random() < 0.25:        # construction history: the same model rebuilt through an edited, re-initialised parameter object
        prm = dict(prm, **{zoo.REINIT: True})
    return fam, prm


def case_1d(rng, fam=None, i=0):
    fam, params = draw_margin(rng, fam)
    return dict(family=fam, params=params, exp=rng.random() < 0.5, a=rng.choice(LEVELS), h=rng.choice([0.1, 0.05, 0.02]),
                via_process=(i % 3 == 2), decoy=rng.random() < 0.4)


def draw_nonexchangeable(rng, dim, special=None):
    """(name, kw) of a copula that is not a symmetric function of its arguments; `special` = the odd name, at each of the placements: Clayton
    with coordinate-dependent weights (the smallest weight at `special`; the only kind in d = 2); d = 3: nested Clayton (the two other names coupled with theta1 >= theta0), block copula (the two other names coupled by a 2-d
    Clayton or the completely dependent copula, `special` independent of them), or a mixture with dyadic weights of such a block copula with
    a library copula / a nested Clayton / the block copula of another placement (pair and triple terms all non-zero)"""
    def clay():
        return dict(cop="clayton", theta=rng.choice(CLAYTON["theta"]), eta=rng.choice(CLAYTON["eta"]))

    def block(k):
        return dict(blocks=[[i for i in range(dim) if i != k], [k]], parts=[clay() if rng.random() < 0.85 else dict(cop="dependent"), None])

    def nested(k):
        t0 = rng.choice([0.3, 0.5, 0.7, 1.0])
        return dict(pair=[i for i in range(dim) if i != k], theta0=t0, theta1=t0 * rng.choice([1.5, 2.0, 4.0]), eta=rng.choice(CLAYTON["eta"]))

    def wclay(k):           # Clayton with coordinate-dependent dyadic weights, all different, the smallest one at k
        al = sorted(rng.sample(range(1, 8), dim))
        rest = al[1:]
        rng.shuffle(rest)
        return dict(alpha=[v / 8 for v in rest[:k] + [al[0]] + rest[k:]], theta=rng.choice(CLAYTON["theta"]), eta=rng.choice(CLAYTON["eta"]))

    k = rng.randrange(dim) if special is None else special
    x = rng.random()
    if dim == 2:
        return "wclayton", wclay(k)
    if x < 0.25:            # asymmetric on finite arguments and in its pair margins
        return "wclayton", wclay(k)
    if x < 0.45:            # asymmetric on finite arguments (pair coupled with theta1, the other pairs with theta0)
        return "nested", nested(k)
    if x < 0.7:             # asymmetric through the +-inf corners of the margins only
        return "block", block(k)
    n = rng.randint(1, 7)
    if x < 0.92:
        y = rng.random()
        other = (clay() if y < 0.35 else dict(cop="nested", **nested(rng.randrange(dim))) if y < 0.6
                 else dict(cop="wclayton", **wclay(rng.randrange(dim))) if y < 0.85 else dict(cop=rng.choice(["independent", "dependent"])))
    else:
        other = dict(cop="block", **block((k + rng.choice([1, 2])) % dim))
    return "mix", dict(weights=[n / 8, 1 - n / 8], parts=[dict(cop="block", **block(k)), other])


P_NONEXCH = 0.4


def case_nd(rng, dim, special=None):
    """special = 0, 1, 2: force (d = 3) a copula that is not a symmetric function of its arguments, the independent name at that index;
    special = "library": force a copula of the library"""
    if rng.random() < 0.35:
        m = draw_margin(rng)
        margins = [m] * dim
    else:
        margins = [draw_margin(rng) for _ in range(dim)]
    if special != "library" and (special is not None or rng.random() < (P_NONEXCH if dim == 3 else 0.25)):
        cop, kw = draw_nonexchangeable(rng, dim, special)
    else:
        cop = rng.choice(zoo.COPULAS)
        kw = dict(theta=rng.choice(CLAYTON["theta"]), eta=rng.choice(CLAYTON["eta"])) if cop == "clayton" else {}
    return dict(margins=[list(m) for m in margins], copula=cop, copula_kw=kw, a=[rng.choice(LEVELS) for _ in range(dim)],
                h=rng.choice([0.1, 0.05]), sym=rng.random() < 0.5, exp=rng.random() < 0.3)


def case_spreads(rng, kind, special=None):
    base = dict(kind=kind, R=round(rng.uniform(0.0, 0.8), 3), T=rng.choice([0.25, 1.0, 2.0, 5.0, 10.0]),
                r=round(rng.uniform(0.005, 0.08), 4), s=round(rng.uniform(-0.02, 0.3), 5), pv_out=rng.choice([-1e4, 1e4]),
                h0=rng.choice([1e-6, 1e-3]), decoy=rng.random() < 0.4)
    x = rng.random()               # edges of the declared ranges: no recovery, (almost) full recovery, a very small rate, zero spread
    if x < 0.08:
        base["R"] = 0.0
    elif x < 0.16:
        base["R"] = rng.choice([0.999, 1.0])
    elif x < 0.24:
        base["r"] = rng.choice([1e-4, 1e-3])
    elif x < 0.30:
        base["s"] = 0.0
    if kind == "1d":
        fam, params = draw_margin(rng)
        return dict(base, family=fam, params=params, a=rng.choice(LEVELS))
    dim = rng.choice([2, 3]) if special is None else 3
    nd = case_nd(rng, dim, special)
    return dict(base, margins=nd["margins"], copula=nd["copula"], copula_kw=nd["copula_kw"], a=nd["a"])


def case_deftimes(rng):
    dim = rng.choice([1, 2, 3])
    n = rng.randint(1, 7)
    levels = [-rng.randint(1, 8) / 16 for _ in range(dim)]
    times = [0.0]
    for _ in range(n):
        times.append(times[-1] + rng.randint(1, 16) / 32)
    paths = []
    for i in range(dim):
        p = [rng.randint(-8, 8) / 64]
        for _ in range(n):
            inc = rng.randint(-40, 16) / 64
            if inc == levels[i]:
                inc += 1 / 64              # an increment exactly on the threshold is a don't-care point
            p.append(p[-1] + inc)
        paths.append(p)
    return dict(times=times, paths=paths, a=levels)


def case_payoff(rng):
    T = rng.choice([0.25, 1.0, 5.0])
    tau = rng.choice(["inf", round(rng.uniform(0.01, T * 0.999), 4), round(rng.uniform(T * 1.001, 3 * T), 4)])
    return dict(R=round(rng.uniform(0, 0.8), 3), s=round(rng.uniform(-0.01, 0.2), 5), r=round(rng.uniform(0.005, 0.08), 4), T=T, tau=tau)


def case_theta(rng, special=None):
    dim = rng.choice([2, 3, 3]) if special is None else 3
    nd = case_nd(rng, dim, special)
    return dict(margins=nd["margins"], copula=nd["copula"], copula_kw=nd["copula_kw"], a=nd["a"], exp=nd["exp"],
                delta=rng.choice([0.1, 0.01, 1e-4]), decoy=rng.random() < 0.3)


PROBES = {"c19.credit.level_within_h": level_within_h_probe, "c19.cds.zero_rate": zero_rate_probe, "c19.synthetic": synthetic_probe, "c19.theta": theta_probe, "c19.chain1d": chain1d_probe, "c19.chainNd": chainnd_probe, "c19.spreads": spreads_probe,
          "c19.deftimes": deftimes_probe, "c19.payoff": payoff_probe, "c19.guards": guards_probe}
# every failure a probe can raise is replayed by the probe that owns the stream
OWNER = {"synthetic": "c19.synthetic", "theta": "c19.theta", "1d": "c19.chain1d", "nd": "c19.chainNd", "spreads": "c19.spreads", "deftimes": "c19.deftimes", "payoff": "c19.payoff",
         "guards": "c19.guards"}


def run(ctx, corr=True):
    rng = ctx.rng
    synthetic_probe(ctx, case_synthetic(rng, witness=True), corr)
    for _ in range(ctx.n(80, 600)):
        synthetic_probe(ctx, case_synthetic(rng), corr)
    for i, fam in enumerate(zoo.FAMILIES * ctx.n(30, 250)):
        chain1d_probe(ctx, case_1d(rng, fam, i), corr)
    for _ in range(ctx.n(150, 1500)):
        chainnd_probe(ctx, case_nd(rng, 2), corr)
    want3, tries = ctx.n(12, 150), 0       # d = 3: a dozen in quick, the bulk in thorough; every other one with a copula that is not a
    while ctx.branches["c19.chainNd:d3"] < want3 and tries < 3 * want3:      # symmetric function, the independent name at 0, 1, 2 in turn
        chainnd_probe(ctx, case_nd(rng, 3, special=((tries // 2) % 3 if tries % 2 == 0 else "library")), corr)
        tries += 1
    for t in range(ctx.n(150, 1500)):
        theta_probe(ctx, case_theta(rng, special=((t // 4) % 3 if t % 4 == 0 else None)), corr)
    for _ in range(ctx.n(100, 800)):
        spreads_probe(ctx, case_spreads(rng, "1d"), corr)
    for t in range(ctx.n(40, 300)):
        spreads_probe(ctx, case_spreads(rng, "nd", special=((t // 4) % 3 if t % 4 == 0 else None)), corr)
    for _ in range(ctx.n(300, 2500)):
        deftimes_probe(ctx, case_deftimes(rng), corr)
    for _ in range(ctx.n(100, 1000)):
        payoff_probe(ctx, case_payoff(rng), corr)
    for _ in range(ctx.n(4, 40)):            # the hypothesis a < -h of the credit-grid theorem, run at the excluded points
        fam, params = draw_margin(rng)
        h = rng.choice([0.1, 0.05])
        level_within_h_probe(ctx, dict(family=fam, params=params, h=h, a=rng.choice([-h, -h / 2, -0.8 * h])))
    for _ in range(ctx.n(3, 30)):            # the hypothesis r != 0 of the pathwise-leg theorem, run at the excluded point
        T = rng.choice([0.5, 1.0, 5.0])
        zero_rate_probe(ctx, dict(family=rng.choice(zoo.FAMILIES), R=rng.choice([0.0, 0.4, 0.6]), s=rng.choice([0.0, 0.01, 0.05]), T=T,
                                  a=rng.choice(LEVELS), taus=["inf", round(rng.uniform(0.05, 0.95) * T, 4), 2 * T]))
    if corr:
        base = case_nd(rng, 3)
        bad = list(base["a"])
        bad[rng.randrange(3)] = rng.choice([0.0, 0.1])
        guards_probe(ctx, dict(base, a=bad, what="nonneg"))
        guards_probe(ctx, dict(base, a=base["a"][:2], what="count"))
        guards_probe(ctx, dict(base, margins=base["margins"] + [base["margins"][0]], a=base["a"] + [-0.3], what="dim4"))


def search(ctx):
    """only the tie broke: a larger oracle-only budget on the implementation"""
    run(ctx, corr=False)
    run(ctx, corr=False)


def replay(ctx, rec):
    probe = rec["probe"]
    fn = PROBES.get(probe) or PROBES.get(OWNER.get((rec.get("cls") or {}).get("stream"), ""))
    if fn is None:
        raise ValueError(f"unknown probe {probe}")
    fn(ctx, rec["input"])
