"""C16 — The SDE scheme is the Euler scheme of its driver; rate models discount sanely (DESIGN.md §4 C16)."""
from __future__ import annotations

import math
import numpy as np

from .. import zoo
from ..common import w, wl, wll, rd, rdl, rdll, close, fr

from rpylib.distribution.sampling import SamplingMethod
from rpylib.grid.spatial import CTMCUniformGrid
from rpylib.model.levydrivensde.levydrivensde import (LevyDrivenSDEModel, SDEFunction, Constant, DiagX, LiborSDEFunction,
                                                        ForwardMarketSDEFunction)
from rpylib.model.levydrivensde.levyforwardmodel import LevyForwardModel
from rpylib.model.levydrivensde.levylibormodel import LevyLiborModel
from rpylib.model.utils import create_levy_forward_market_model, create_levy_forward_market_model_copula
from rpylib.montecarlo.path import StochasticJumpPath
from rpylib.process.coupling.couplingsde import CouplingSDE
from rpylib.process.markovchain.markovchain import MarkovChainProcess
from rpylib.process.markovchain.markovchainlevycopula import MarkovChainLevyCopula
from rpylib.process.markovchain.markovchainsde import MarkovChainSDE, MarkovChainLevyLiborModel
from rpylib.product.payoff import PayoffOnTheFly
from rpylib.product.product import Product
from rpylib.product.underlying import Spot

RULE = ("euler: real MarkovChainSDE / CouplingSDE (levels 1..3; the fine / coarse driver drift is checked against fresh chains on the level-l / level-(l-1) grid, asymmetric CGMY/HEM/Merton drivers included) objects on fixed-size grids (5..9 points, INVERSION or "
        "BINARYSEARCHTREEADAPTED1D), drivers hem/merton/vg/cgmy (1-d) and Levy copulas (d = 2 independent/Clayton through coupled levels 1..3, "
        "d = 3 at level 1) with m = 1..5 states, coefficient "
        "Constant, DiagX, sigma(t)*x of the forward/Libor models (tenors inside, outside and exactly at the horizon) and a harness-side "
        "affine coefficient (C + D x)(1 + e t) with affine sde drift; the driver path consumed is captured by wrapping the "
        "driver's simulate_one_path(_with_coupling) (stream 'real'), or prescribed as a dyadic path with 1..6 steps (stream "
        "'scripted'). shape: Constant / DiagX / LiborSDEFunction / ForwardMarketSDEFunction objects (m = 1..4, d = 1..3, dyadic entries, Libor "
        "times before / at / after tenors) called on the column state and on the stacked state exactly as the two schemes build them, "
        "then multiplied with the driver column(s). df: LevyForwardModel / LevyLiborModel with random non-negative rates (zeros, all-zero "
        "curves included) and increasing tenors with equal and strongly unequal accrual periods (1/64 .. 8 years), on a mesh through all "
        "tenors with T +- 2^-20, 2^-30. non-trivial = at least 2 driver steps / at least 2 "
        "tenors; distinct = distinct (configuration, numpy seed or scripted path)")
NOT_PROVED = ["the coupled driver path is an input of the theorems (its law is C03); the coefficient of the Libor model's sde drift "
              "(compute_drift_term, dblquad) is an input, only the scheme built on it is proved",
              "NumPy broadcasting of a(t, zi) on the stacked (2,m,1) state: proved from a model of the NumPy rules involved (broadcast *, np.diag, "
              "@ on columns / stacks; Model/Sde.lean NArr) that Constant and sigma(t)*x commute with stacking and that DiagX does not "
              "(constant_commutes_with_stacking, scale_commutes_with_stacking, diag_rejects_stacked_state, diag_on_column_state); the NumPy "
              "rules themselves are compared with NumPy (probe c16.shape), sigma(t) is an input (ForwardMarketSDEFunction.sigma raises after "
              "the first tenor, recorded) except for LiborSDEFunction, whose sigma(t) is modelled (liborSigma; libor_fixed_rate_frozen: a fixed rate "
              "has no driver increment) and checked against its documentation; the harness-side affine coefficient is not one of the offered classes",
              "continuity of df: the Lipschitz bound |df(s) - df(t)| <= max rate * |s - t| and the epsilon-delta statement are proved for the "
              "executable model over the rationals (df_lipschitz_abs, df_continuous_eps_delta) and for the same curve over any linearly "
              "ordered field, in particular the reals (Lemmas/C16Real.lean: dfCurveK, df_continuous_over_reals; dfCurveK_is_model ties the "
              "generic curve to the executable one at Q); the correspondence with model.df is on float (rational) times only",
              "float rounding of the recursion (compared at 2^-40 of the sum of absolute increments)"]
ASSUMPTIONS = ["tenors are sorted and non-negative (the constructor sorts them; strictly increasing for df_at_tenor_is_product), rates are non-negative, times are in [0, last tenor]",
               "the coefficient matrix of each offered SDEFunction used by the Euler oracle is taken from its documented meaning (constant matrix, "
               "diag(x), sigma(t)*x); what its __call__ returns on the two state shapes is the subject of the shape probe / theorems"]
TRUSTED = ["numpy matmul / cumsum / diff / searchsorted", "wrapping of bound methods from the harness to capture the driver path"]

METHODS = {"INVERSION": SamplingMethod.INVERSION, "ADAPTED1D": SamplingMethod.BINARYSEARCHTREEADAPTED1D}
MAX_LEAN_STEPS = 14       # the scheme is causal: longer captured paths are compared with M on their first steps


# --------------------------------------------------------------------------------------------- harness-side coefficient
class AffineCoef(SDEFunction):
    """a(t,x)[k][j] = (C[k][j] + D[k][j] x_k)(1 + e t); accepts a column state (m,1) and the stacked state (2,m,1)"""

    def __init__(self, C, D, e):
        C, D = np.asarray(C, float), np.asarray(D, float)
        super().__init__(m=C.shape[0], d=C.shape[1])
        self.C, self.D, self.e = C, D, e

    def __call__(self, t, x):
        return (self.C + self.D * x) * (1 + self.e * t)


class DriftModel(LevyDrivenSDEModel):
    """LevyDrivenSDEModel with the affine sde drift b(t,x) = beta x + gamma"""

    def __init__(self, driver, x0, a, beta, gamma):
        super().__init__(driver=driver, x0=x0, a=a)
        self.beta, self.gamma = beta, gamma

    def drift(self, t=0, x=0):
        return self.beta * x + self.gamma


def product(maturity):
    return Product(payoff_underlying=Spot(), payoff=PayoffOnTheFly(lambda x: x), maturity=maturity)


class _PM:
    def update(self, _):
        pass


# --------------------------------------------------------------------------------------------- construction from a description
def make_driver(dd):
    if dd["dim"] == 1:
        return zoo.make_levy(dd["fams"][0], dd["params"][0])
    margins = [zoo.make_levy(f, p) for f, p in zip(dd["fams"], dd["params"])]
    return zoo.make_copula_model(margins, zoo.make_copula(dd["copula"]))


def make_grid(gd, dim):
    return CTMCUniformGrid.create_from_fixed_nb_of_points(h=gd["h"], nb_of_points=gd["nb"], dimension=dim)


def make_model(cd, driver):
    k = cd["kind"]
    x0 = np.array(cd["x0"], float) if cd["m"] > 1 else float(cd["x0"][0])
    if k == "const":
        return LevyDrivenSDEModel(driver=driver, x0=x0, a=Constant(m=cd["m"], d=cd["d"], constant=cd["c"]))
    if k == "diag":
        return LevyDrivenSDEModel(driver=driver, x0=x0, a=DiagX(cd["m"]))
    if k == "affine":
        return DriftModel(driver=driver, x0=x0, a=AffineCoef(cd["C"], cd["D"], cd["e"]), beta=cd["beta"], gamma=cd["gamma"])
    if k == "forward":
        return LevyForwardModel(ois_rates=cd["x0"], tenors=np.array(cd["tenors"], float), sigma=np.array(cd["sigma"], float), driver=driver)
    if k == "libor":
        return LevyLiborModel(libor_rates=cd["x0"], tenors=np.array(cd["tenors"], float), sigma=np.array(cd["sigma"], float), driver=driver)
    raise ValueError(k)


def coef_matrix(cd, a_obj, t, z):
    """the coefficient a(t, z) as an (m, d) matrix, from the documented meaning of each SDEFunction"""
    k, m, d = cd["kind"], cd["m"], cd["d"]
    if k == "const":
        return np.full((m, d), float(cd["c"]))
    if k == "diag":
        return np.diag(z)
    if k == "affine":
        return (np.asarray(cd["C"], float) + np.asarray(cd["D"], float) * z[:, None]) * (1 + cd["e"] * t)
    return np.asarray(a_obj.sigma(np.float64(t)), float) * z[:, None]


def sde_drift_vec(cd, proc, t, z):
    if cd["kind"] == "affine":
        return cd["beta"] * z + cd["gamma"]
    if cd["kind"] == "libor":
        return np.asarray(proc.sde_drift(np.float64(t), z.reshape(-1, 1).copy()), float).flatten()
    return np.zeros_like(z)


def lean_family(cd):
    """(C, D, e, beta, gamma) when the coefficient is in the family the Lean driver executes, else None"""
    m, d = cd["m"], cd["d"]
    Z = [[0.0] * d for _ in range(m)]
    if cd["kind"] == "const":
        return [[cd["c"]] * d for _ in range(m)], Z, 0.0, 0.0, 0.0
    if cd["kind"] == "diag":
        return Z, [[1.0 if i == j else 0.0 for j in range(d)] for i in range(m)], 0.0, 0.0, 0.0
    if cd["kind"] == "affine":
        return cd["C"], cd["D"], cd["e"], cd["beta"], cd["gamma"]
    if cd["kind"] == "forward" and cd["tenors"][0] >= cd["maturity"]:     # a(t, .) is evaluated at times < maturity only
        return Z, cd["sigma"], 0.0, 0.0, 0.0            # sigma(t) = sigma before the first tenor; model.drift = 0
    return None


# --------------------------------------------------------------------------------------------- oracle: the recurrence itself
def recompute(cd, a_obj, proc, mu, times, W, L):
    """Euler recurrence from the consumed driver path (independent float recomputation).  W, L: (d, n).
    returns X (m, n) and the running sum of absolute increments (cancellation-aware scale)."""
    m = cd["m"]
    n = len(times)
    z = np.array(cd["x0"], float)
    X = np.zeros((m, n))
    scale = np.zeros((m, n))
    X[:, 0] = z
    acc = np.abs(z)
    scale[:, 0] = acc
    for i in range(n - 1):
        t, dt = times[i], times[i + 1] - times[i]
        A = coef_matrix(cd, a_obj, t, z)
        b = sde_drift_vec(cd, proc, t, z)
        dW, dL = W[:, i + 1] - W[:, i], L[:, i + 1] - L[:, i]
        inc_d, inc_j, inc_w = (b + A @ mu) * dt, A @ dL, A @ dW
        z = z + (inc_d + inc_j + inc_w)
        acc = acc + np.abs(inc_d) + np.abs(inc_j) + np.abs(inc_w)
        X[:, i + 1] = z
        scale[:, i + 1] = acc
    return X, scale


def closed_forms(ctx, probe, desc, cd, mu, times, W, L, X_impl, cls, comp=None):
    """constant coefficient: x0 + C (mu T + W_T + L_T); diag: x0 prod(1 + dY)"""
    x0 = np.array(cd["x0"], float)
    fam = lean_family(cd)
    if cd["kind"] == "const" or (cd["kind"] == "affine" and not np.any(np.asarray(cd["D"])) and cd["e"] == 0 and cd["beta"] == 0 and cd["gamma"] == 0):
        C = np.asarray(fam[0], float)
        Y = mu[:, None] * (times - times[0])[None, :] + (W - W[:, :1]) + (L - L[:, :1])
        want = x0[:, None] + C @ Y
        sc = np.abs(x0)[:, None] + np.abs(C) @ (np.abs(mu)[:, None] * (times - times[0])[None, :] + np.abs(W) + np.abs(L)
                                                 + np.abs(W[:, :1]) + np.abs(L[:, :1])) + 1e-300
        if not np.all(np.abs(X_impl - want) <= 1e-12 * np.maximum(sc, np.abs(want))):
            ctx.fail("oracle", probe + ".constant_closed_form", desc,
                     {"what": "X != x0 + a*Y on the driver grid", "component": comp, "impl": X_impl.tolist(), "closed_form": want.tolist()}, cls=cls)
        return "const"
    is_diag = cd["kind"] == "diag" or (cd["kind"] == "affine" and not np.any(np.asarray(cd["C"])) and cd["e"] == 0 and cd["beta"] == 0
                                       and cd["gamma"] == 0 and cd["m"] == cd["d"]
                                       and np.array_equal(np.asarray(cd["D"], float), np.eye(cd["m"])))
    if is_diag:
        dY = mu[:, None] * np.diff(times)[None, :] + np.diff(W, axis=1) + np.diff(L, axis=1)
        want = x0[:, None] * np.concatenate((np.ones((cd["m"], 1)), np.cumprod(1 + dY, axis=1)), axis=1)
        sc = np.abs(x0)[:, None] * np.concatenate((np.ones((cd["m"], 1)), np.cumprod(1 + np.abs(dY), axis=1)), axis=1) + 1e-300
        if not np.all(np.abs(X_impl - want) <= 1e-12 * sc):
            ctx.fail("oracle", probe + ".diag_closed_form", desc,
                     {"what": "X != x0 * prod(1 + dY) on the driver grid", "component": comp, "impl": X_impl.tolist(), "closed_form": want.tolist()}, cls=cls)
        return "diag"
    return None


def rows(M):
    """(k, n) array -> one row per time index"""
    return [[float(x) for x in M[:, i]] for i in range(M.shape[1])]


def compare_rows(py_rows, lean_rows, scale_rows):
    if len(py_rows) != len(lean_rows):
        return False
    for pr, lr, sr in zip(py_rows, lean_rows, scale_rows):
        if len(pr) != len(lr):
            return False
        for p, l, s in zip(pr, lr, sr):
            if not close(p, l, scale=max(fr(s), abs(l), fr(1e-300))):
                return False
    return True


# --------------------------------------------------------------------------------------------- single process
def norm_single(path, d):
    times = np.asarray(path.jump_times, float)
    W = np.asarray(path.diffusion_path, float).reshape(d, times.size)
    L = np.asarray(path.jump_path, float).reshape(d, times.size)
    return times, W, L


def probe_single(ctx, desc):
    cd, dd = desc["coef"], desc["driver"]
    m, d = cd["m"], cd["d"]
    cls = dict(a=cd["kind"], coupled=False, m=m, d=d, stream="scripted" if desc.get("scripted") else "real",
               tenor_inside=bool("tenors" in cd and cd["tenors"][0] <= cd["maturity"]))
    probe = "c16.euler.single"
    driver = make_driver(dd)
    model = make_model(cd, driver)
    grid = make_grid(desc["grid"], d)
    Proc = MarkovChainLevyLiborModel if cd["kind"] == "libor" else MarkovChainSDE
    proc = Proc(model=model, method=METHODS[desc["method"]], grid=grid)
    prod = product(cd["maturity"])
    proc.initialisation(prod)
    proc.pre_computation(2, prod)
    # time-step cap handed to the driver: epsilon = h^(Blumenthal-Getoor index)
    eps = grid.h ** driver.blumenthal_getoor_index()
    if not (proc.epsilon == eps and getattr(proc.markov_chain._path_simulation, "epsilon", None) == eps):
        ctx.fail("corr", "c16.epsilon", desc, {"name": "epsilon = h^BG handed to the driver (markovchainsde.py:45-48)",
                                               "epsilon": proc.epsilon, "h^BG": eps}, cls=cls)
    captured = []
    if desc.get("scripted"):
        sp = desc["scripted"]
        times, W, L = np.array(sp["times"], float), np.array(sp["W"], float), np.array(sp["L"], float)
        mu = np.array(sp["mu"], float)
        proc.markov_chain._process_drift = float(mu[0]) if d == 1 else mu.reshape(d, 1)

        def fake():
            p = StochasticJumpPath(times.copy(), (W[0] if d == 1 else W).copy(), (L[0] if d == 1 else L).copy())
            captured.append(p)
            return p
        proc.markov_chain.simulate_one_path = fake
    else:
        orig = proc.markov_chain.simulate_one_path

        def wrapped():
            p = orig()
            captured.append(p)
            return p
        proc.markov_chain.simulate_one_path = wrapped
        np.random.seed(desc["np_seed"])
    try:
        if desc.get("warm"):
            # an earlier path on the same SDE object (its driver path is whatever comes first): the scheme of the next path
            # must not depend on it
            if desc.get("scripted"):
                k_ = max(2, len(times) // 2 + 1)
                tw = np.linspace(0.0, float(times[-1]), k_)
                shape_w = (k_,) if d == 1 else (d, k_)
                proc.markov_chain.simulate_one_path = lambda: StochasticJumpPath(tw.copy(), np.cumsum(np.full(shape_w, 0.25), axis=-1) - 0.25,
                                                                               np.cumsum(np.full(shape_w, -0.5), axis=-1) + 0.5)
                proc.simulate_one_path()
                proc.markov_chain.simulate_one_path = fake
            else:
                proc.simulate_one_path()
            captured.clear()
            ctx.branches["c16.euler:after_an_earlier_path_on_the_same_object"] += 1
        out = proc.simulate_one_path()
    except Exception as e:  # noqa
        ctx.count(probe, desc, nontrivial=False, branch="raises:" + cd["kind"])
        ctx.fail("oracle", "c16.euler.raises", desc, {"what": "simulate_one_path raised", "error": f"{type(e).__name__}: {e}"[:300]}, cls=cls)
        return
    times, W, L = norm_single(captured[0], d)
    mu = np.atleast_1d(np.asarray(proc.markov_chain.process_drift(), float)).flatten()
    n = times.size
    ctx.count(probe, desc, nontrivial=n >= 3, branch=f"{cd['kind']}:{cls['stream']}:d{d}")
    x0 = np.array(cd["x0"], float)
    val = np.asarray(out.value(), float)
    # ---- S: the property on the implementation
    if not (np.array_equal(np.asarray(out.times()), times) and val.shape == (m, n)):
        ctx.fail("oracle", probe + ".grid", desc, {"what": "the solution is not on the driver's own time grid", "driver_times": times.tolist(),
                                                   "sde_times": np.asarray(out.times()).tolist(), "shape": list(val.shape)}, cls=cls)
        return
    X_impl = x0[:, None] + val
    X, scale = recompute(cd, model.a, proc, mu, times, W, L)
    if not np.all(np.abs(X_impl - X) <= 1e-12 * np.maximum(scale, 1e-300)):
        i = int(np.argmax(np.max(np.abs(X_impl - X) / np.maximum(scale, 1e-300), axis=0)))
        ctx.fail("oracle", probe + ".recurrence", desc,
                 {"what": "X_{i+1} != X_i + (sde drift + a mu) dt + a (dW + dL)", "first_bad_index": i, "impl": X_impl[:, :i + 1].tolist(),
                  "recurrence": X[:, :i + 1].tolist(), "times": times[:i + 1].tolist(), "W": W[:, :i + 1].tolist(), "L": L[:, :i + 1].tolist(), "mu": mu.tolist()}, cls=cls)
        return
    closed_forms(ctx, probe, desc, cd, mu, times, W, L, X_impl, cls)
    # ---- C: against M
    fam = lean_family(cd)
    if fam is not None:
        k = min(n, MAX_LEAN_STEPS + 1)
        C, D, e, be, ga = fam
        ans = ctx.lean(f"euler {d} {m} {wll(C)} {wll(D)} {w(e)} {w(be)} {w(ga)} {wl(mu)} {wl(x0)} {wl(times[:k])} "
                       f"{wll(rows(W[:, :k]))} {wll(rows(L[:, :k]))}").split(" ")
        ok = len(ans) == 4
        if ok:
            mX, mDr, mDi, mJu = (rdll(a) for a in ans)
            sc = rows(scale[:, :k])
            ok = (compare_rows(rows(X_impl[:, :k]), mX, sc) and compare_rows(rows(np.asarray(out.drift, float).reshape(m, n)[:, :k]), mDr, sc)
                  and compare_rows(rows(np.asarray(out.diffusion_path, float).reshape(m, n)[:, :k]), mDi, sc)
                  and compare_rows(rows(np.asarray(out.jump_path, float).reshape(m, n)[:, :k]), mJu, sc))
        if not ok:
            ctx.fail("corr", probe + ".model", desc, {"name": "Drivers/C16 euler vs MarkovChainSDE.simulate_one_path", "impl": X_impl[:, :k].tolist(),
                                                       "model": [a[:400] for a in ans]}, cls=cls)


# --------------------------------------------------------------------------------------------- coupled pair
def reference_chain_drift(desc, level, prod):
    """drift of a *fresh* CTMC of the driver on the grid refined `level` times — built independently of the object under
    test: the coupled scheme at level l must use the drift of the level-l chain (fine) and of the level-(l-1) chain (coarse)"""
    dd = desc["driver"]
    d = dd["dim"]
    driver = make_driver(dd)
    grid = make_grid(desc["grid"], d)
    for _ in range(level):
        grid.refine()
    if d == 1:
        chain = MarkovChainProcess(model=driver, method=METHODS[desc["method"]], grid=grid)
    else:
        chain = MarkovChainLevyCopula(levy_copula_model=driver, grid=grid, method=METHODS[desc["method"]])
    chain.initialisation(product=prod)
    return np.atleast_1d(np.asarray(chain.process_drift(), float)).flatten()


def norm_pair(path, d):
    times = np.asarray(path.jump_times, float)
    W = np.asarray(path.diffusion_path, float).reshape(2, d, times.size)
    L = np.asarray(path.jump_path, float).reshape(2, d, times.size)
    return times, W, L


def probe_coupled(ctx, desc):
    cd, dd = desc["coef"], desc["driver"]
    m, d = cd["m"], cd["d"]
    cls = dict(a=cd["kind"], coupled=True, m=m, d=d, stream="scripted" if desc.get("scripted") else "real",
               tenor_inside=bool("tenors" in cd and cd["tenors"][0] <= cd["maturity"]))
    probe = "c16.euler.coupled"
    driver = make_driver(dd)
    model = make_model(cd, driver)
    grid = make_grid(desc["grid"], d)
    h0 = grid.h
    cp = CouplingSDE(model=model, grid=grid, method=METHODS[desc["method"]])
    prod = product(cd["maturity"])
    cp.initialisation(prod)
    cp.pre_computation(2, prod)
    pms = [_PM()]
    for _ in range(desc["level"]):
        cp.next_level(2, pms, prod)
    bg = driver.blumenthal_getoor_index()
    eps = (h0 / 2 ** desc["level"]) ** bg
    sim = cp.driver_coupling_process._path_coupling_simulation
    if not (math.isclose(cp.epsilon, eps, rel_tol=1e-14) and getattr(sim, "epsilon", None) == cp.epsilon):
        ctx.fail("corr", "c16.epsilon", desc, {"name": "epsilon = (h/2)^BG handed to the coupled driver (couplingsde.py:135-137)",
                                               "epsilon": cp.epsilon, "h^BG": eps}, cls=cls)
    # ---- S: the driver drift of each component is the drift of *its own* chain: level l (fine), level l-1 (coarse),
    #         recomputed from fresh chains (not read from the object under test)
    lvl = desc["level"]
    ref = [reference_chain_drift(desc, lvl, prod), reference_chain_drift(desc, lvl - 1, prod)]
    used = [np.atleast_1d(np.asarray(cp.mc_drift_h, float)).flatten(), np.atleast_1d(np.asarray(cp.mc_drift_2h, float)).flatten()]
    for c in (0, 1):
        tol = 1e-12 * np.maximum(np.abs(ref[c]), 1e-3)
        if used[c].shape != ref[c].shape or not np.all(np.abs(used[c] - ref[c]) <= tol):
            ctx.fail("oracle", probe + ".driver_drift", desc,
                     {"what": "the %s component of the coupled scheme at level %d does not use the drift of the level-%d chain of its driver"
                              % (("fine", "coarse")[c], lvl, lvl - c), "used": used[c].tolist(), "fresh_chain_drift": ref[c].tolist(),
                      "h_of_that_chain": h0 / 2 ** (lvl - c)}, cls=cls)
            ctx.count(probe, desc, nontrivial=True, branch=f"drift_mismatch:l{lvl}")
            return
    captured = []
    driver_raised = []
    if desc.get("scripted"):
        sp = desc["scripted"]
        times, W, L = np.array(sp["times"], float), np.array(sp["W"], float), np.array(sp["L"], float)   # W, L: (2, d, n)
        mus = np.array(sp["mu"], float)                                                                  # (2, d)
        cp.mc_drift_h = float(mus[0, 0]) if d == 1 else mus[0].reshape(d, 1)
        cp.mc_drift_2h = float(mus[1, 0]) if d == 1 else mus[1].reshape(d, 1)

        def fake():
            p = StochasticJumpPath(times.copy(), (W[:, 0, :] if d == 1 else W).copy(), (L[:, 0, :] if d == 1 else L).copy())
            captured.append(p)
            return p
        cp.driver_coupling_process.simulate_one_path_with_coupling = fake
    else:
        orig = cp.driver_coupling_process.simulate_one_path_with_coupling

        def wrapped():
            try:
                p = orig()
            except Exception:  # noqa
                driver_raised.append(True)
                raise
            captured.append(p)
            return p
        cp.driver_coupling_process.simulate_one_path_with_coupling = wrapped
        np.random.seed(desc["np_seed"])
    try:
        if desc.get("warm") and not desc.get("scripted"):
            cp.simulate_one_path_with_coupling()          # an earlier coupled path on the same object
            captured.clear()
            ctx.branches["c16.euler:after_an_earlier_path_on_the_same_object"] += 1
        out = cp.simulate_one_path_with_coupling()
    except Exception as e:  # noqa
        if driver_raised:
            # the coupled *driver* failed to produce a path (e.g. the 3-d inversion sampler drawing a state of zero mass, for which the
            # coupling has no law): the statement is about the scheme on a driver path - the driver path is C03 / C15's subject
            ctx.count(probe, desc, nontrivial=False, branch=f"driver_raised:d{d}:{type(e).__name__}")
            return
        ctx.count(probe, desc, nontrivial=False, branch="raises:" + cd["kind"])
        ctx.fail("oracle", "c16.euler.raises", desc, {"what": "simulate_one_path_with_coupling raised", "error": f"{type(e).__name__}: {e}"[:300]}, cls=cls)
        return
    times, W, L = norm_pair(captured[0], d)
    mus = np.stack([np.atleast_1d(np.asarray(cp.mc_drift_h, float)).flatten(), np.atleast_1d(np.asarray(cp.mc_drift_2h, float)).flatten()])
    n = times.size
    ctx.count(probe, desc, nontrivial=n >= 3, branch=f"{cd['kind']}:{cls['stream']}:d{d}:l{desc['level']}")
    x0 = np.array(cd["x0"], float)
    val = np.asarray(out.value(), float)
    if not (np.array_equal(np.asarray(out.times()), times) and val.shape == (2, m, n)):
        ctx.fail("oracle", probe + ".grid", desc, {"what": "the coupled solution is not on the coupled driver's time grid", "shape": list(val.shape),
                                                   "driver_times": times.tolist(), "sde_times": np.asarray(out.times()).tolist()}, cls=cls)
        return
    Xs, scs = [], []
    for c in (0, 1):
        X_impl = x0[:, None] + val[c]
        X, scale = recompute(cd, model.a, cp.fine_process, mus[c], times, W[c], L[c])
        Xs.append(X_impl)
        scs.append(scale)
        if not np.all(np.abs(X_impl - X) <= 1e-12 * np.maximum(scale, 1e-300)):
            i = int(np.argmax(np.max(np.abs(X_impl - X) / np.maximum(scale, 1e-300), axis=0)))
            ctx.fail("oracle", probe + ".recurrence", desc,
                     {"what": "component %s: X_{i+1} != X_i + (sde drift + a mu) dt + a (dW + dL)" % ("fine", "coarse")[c], "first_bad_index": i,
                      "impl": X_impl[:, :i + 1].tolist(), "recurrence": X[:, :i + 1].tolist(), "times": times[:i + 1].tolist(),
                      "W": W[c][:, :i + 1].tolist(), "L": L[c][:, :i + 1].tolist(), "mu": mus[c].tolist()}, cls=cls)
            return
        closed_forms(ctx, probe, desc, cd, mus[c], times, W[c], L[c], X_impl, cls, comp=("fine", "coarse")[c])
    fam = lean_family(cd)
    if fam is not None:
        k = min(n, MAX_LEAN_STEPS + 1)
        C, D, e, be, ga = fam
        ans = ctx.lean(f"pair {d} {m} {wll(C)} {wll(D)} {w(e)} {w(be)} {w(ga)} {wl(mus[0])} {wl(mus[1])} {wl(x0)} {wl(times[:k])} "
                       f"{wll(rows(W[0][:, :k]))} {wll(rows(L[0][:, :k]))} {wll(rows(W[1][:, :k]))} {wll(rows(L[1][:, :k]))}").split(" ")
        ok = len(ans) == 2 and all(compare_rows(rows(Xs[c][:, :k]), rdll(ans[c]), rows(scs[c][:, :k])) for c in (0, 1))
        if not ok:
            ctx.fail("corr", probe + ".model", desc, {"name": "Drivers/C16 pair vs CouplingSDE.simulate_one_path_with_coupling",
                                                       "impl": [x[:, :k].tolist() for x in Xs], "model": [a[:400] for a in ans]}, cls=cls)



# --------------------------------------------------------------------------------------------- NumPy shapes of a(t, z)
def probe_shape(ctx, desc):
    """the offered coefficient objects called exactly as the two schemes call them - on the column state (m, 1) built by
    MarkovChainSDE (np.array([x0]).T) and on the stacked state (2, m, 1) built by CouplingSDE (np.stack) - then multiplied with the
    driver column (d, 1) / the stacked driver columns (2, d, 1); shapes, entries and NumPy exceptions against the shape model of
    Model/Sde.lean (theorems constant_commutes_with_stacking, scale_commutes_with_stacking, diag_rejects_stacked_state, ...)"""
    kind, m, d, stacked = desc["cls"], desc["m"], desc["d"], desc["stacked"]
    x0, x1, u0, u1 = (np.array(desc[k], float) for k in ("x0", "x1", "u0", "u1"))
    t = desc.get("t", 0.0)
    probe = "c16.shape"
    cls = dict(a=kind, m=m, d=d, stacked=bool(stacked))
    if kind == "const":
        a = Constant(m=m, d=d, constant=desc["c"])
        M = [[desc["c"]] * d for _ in range(m)]
        tag = "const"
    elif kind == "diag":
        a, M, tag = DiagX(m), [], "diag"
    else:
        F = LiborSDEFunction if kind == "libor" else ForwardMarketSDEFunction
        a = F(sigma=np.array(desc["sigma"], float), tenors=np.array(desc["tenors"], float))
        M = np.asarray(a.sigma(np.float64(t)), float).tolist()        # sigma(t) is an input of the model
        tag = "scale"
    if stacked:
        zi = np.stack((np.array([x0]).T, np.array([x1]).T))                                   # couplingsde.py:91
        v = np.stack((np.atleast_2d(u0.reshape(d, 1)), np.atleast_2d(u1.reshape(d, 1))))     # couplingsde.py:98-100
    else:
        zi = np.array([x0]).T                                                                 # markovchainsde.py:78
        v = np.atleast_2d(u0).T                                                               # markovchainsde.py:97-99
    def arr(f):
        try:
            r = np.asarray(f(), float)
            return [list(r.shape), [float(q) for q in r.reshape(-1)]], r
        except Exception as e:  # noqa
            return "err", None
    A, Araw = arr(lambda: a(np.float64(t), zi))
    R, _ = arr(lambda: Araw @ v) if Araw is not None else ("err", None)
    ctx.count(probe, desc, nontrivial=True, branch=f"{kind}:{'stacked' if stacked else 'column'}:{'raises' if 'err' in (A, R) else 'returns'}")
    if kind == "libor":
        # S: sigma(t) as documented - the row of a rate whose tenor T_k <= t has passed is zero (it has fixed), the others are sigma's
        want = [[0.0] * d if desc["tenors"][k] <= t else [float(q) for q in desc["sigma"][k]] for k in range(m)]
        if M != want:
            ctx.fail("oracle", probe + ".libor_sigma", desc, {"what": "LiborSDEFunction.sigma(t): rows of fixed rates (tenor <= t) must be zero, the others unchanged",
                                                               "t": t, "tenors": desc["tenors"], "impl": M, "expected": want}, cls=cls)
        # C: the model computes sigma(t) itself (liborSigma)
        ans = ctx.lean(f"shapel {m} {d} {1 if stacked else 0} {wll(desc['sigma'])} {wl(desc['tenors'])} {w(t)} {wl(x0)} {wl(x1)} {wl(u0)} {wl(u1)}").split(" ")
    else:
        ans = ctx.lean(f"shape {tag} {m} {d} {1 if stacked else 0} {wll(M)} {wl(x0)} {wl(x1)} {wl(u0)} {wl(u1)}").split(" ")

    def same(py, sh, en):
        if py == "err":
            return sh == "err"
        return sh != "err" and [int(q) for q in rdl(sh)] == py[0] and rdl(en) == [fr(q) for q in py[1]]
    if len(ans) != 4 or not same(A, ans[0], ans[1]) or not same(R, ans[2], ans[3]):
        ctx.fail("corr", probe + ".model", desc, {"name": "Drivers/C16 shape (NumPy-shape model of a(t, z) and a(t, z) @ v) vs the coefficient object",
                                                  "impl_a": A if A == "err" else A[0], "impl_av": R if R == "err" else R[0], "model": [q[:200] for q in ans]}, cls=cls)
        return
    # S: what 'commutes with stacking' means on the implementation itself: the stacked evaluation is the stack of the column evaluations
    if stacked and kind != "diag":
        singles = [np.asarray(a(np.float64(t), np.array([x]).T), float) @ np.atleast_2d(u).T for x, u in ((x0, u0), (x1, u1))]
        if R == "err" or not np.array_equal(np.asarray(R[1]).reshape(2, m, 1), np.stack(singles)):
            ctx.fail("oracle", probe + ".commutes", desc, {"what": "a(t, stack(x0, x1)) @ stack(u0, u1) != stack(a(t, x0) @ u0, a(t, x1) @ u1)",
                                                           "stacked": R, "columns": [q.tolist() for q in singles]}, cls=cls)


def gen_shape(rng):
    kind = rng.choice(["const", "diag", "libor", "forward"])
    m = rng.choice([1, 2, 3, 4])
    d = m if kind == "diag" else rng.choice([1, 2, 3])
    vec = lambda k: [dy(rng, 3, -2, 2) for _ in range(k)]
    desc = dict(cls=kind, m=m, d=d, stacked=rng.random() < 0.6, x0=vec(m), x1=vec(m), u0=vec(d), u1=vec(d))
    if kind == "const":
        desc["c"] = dy(rng, 3, -2, 2)
    if kind in ("libor", "forward"):
        first = rng.choice([0.5, 1.0, 2.0])
        desc["tenors"] = [first + 0.5 * k for k in range(m + 1)]
        desc["sigma"] = [[dy(rng, 2, -2, 2) for _ in range(d)] for _ in range(m)]
        # Libor: also times at / after tenors (rows of fixed rates are zeroed); Forward: before the first tenor (it raises after, recorded)
        desc["t"] = rng.choice([0.0, 0.25, first, first + 0.25, first + 0.5, first + 5.0]) if kind == "libor" else rng.choice([0.0, 0.25, first - 0.125])
    return desc

# --------------------------------------------------------------------------------------------- discount curve
def probe_df(ctx, desc):
    kind, rates, tenors = desc["model"], desc["rates"], desc["tenors"]
    cls = dict(model=kind, n_tenors=len(tenors))
    probe = "c16.df"
    driver = zoo.make_levy("hem", {})
    sigma = np.full((len(rates), 1), 0.5)
    if kind == "forward":
        model = LevyForwardModel(ois_rates=rates, tenors=tenors, sigma=sigma, driver=driver)
    elif kind == "libor":
        model = LevyLiborModel(libor_rates=rates, tenors=tenors, sigma=sigma, driver=driver)
    elif kind == "factory":
        model = create_levy_forward_market_model(driver)
        rates, tenors = [float(x) for x in model.x0], [float(x) for x in model.tenors]
    else:
        model = LevyDrivenSDEModel(driver=driver, x0=1.0)
    ctx.count(probe, desc, nontrivial=len(tenors) >= 2, branch=kind)
    if kind == "base":
        vals = [model.df(t) for t in (0.0, 0.5, 1.0, 7.0)]
        if vals != [1.0] * 4:
            ctx.fail("oracle", probe + ".base", desc, {"what": "LevyDrivenSDEModel.df is not the constant 1", "values": vals}, cls=cls)
        return
    last = tenors[-1]
    mesh = {0.0, last}
    for T in tenors:
        mesh.add(T)
        for dl in (2.0 ** -20, 2.0 ** -30):
            if T - dl >= 0:
                mesh.add(T - dl)
            if T + dl <= last:
                mesh.add(T + dl)
    nmesh = desc.get("mesh", 32)
    for i in range(nmesh + 1):
        mesh.add(last * i / nmesh)
    mesh = sorted(mesh)
    try:
        vals = [float(model.df(t)) for t in mesh]
    except Exception as e:  # noqa
        ctx.fail("oracle", probe + ".raises", desc, {"what": "df raised inside [0, last tenor]", "error": f"{type(e).__name__}: {e}"[:300]}, cls=cls)
        return
    bad = None
    rmax = max(rates) if rates else 0.0
    if vals[0] != 1.0:
        bad = {"what": "df(0) != 1", "df0": vals[0]}
    elif not all(v > 0 and math.isfinite(v) for v in vals):
        bad = {"what": "df not positive", "values": vals[:20]}
    else:
        for (s, a), (t, b) in zip(zip(mesh, vals), zip(mesh[1:], vals[1:])):
            if b > a * (1 + 4e-16):
                bad = {"what": "df increases", "s": s, "df(s)": a, "t": t, "df(t)": b}
                break
            # continuity: df is Lipschitz with constant max(rate) (|d df/dt| <= rate * df <= rate); binds across every tenor
            if abs(a - b) > 2 * rmax * (t - s) + 1e-15:
                bad = {"what": "df jumps (not continuous)", "s": s, "df(s)": a, "t": t, "df(t)": b, "allowed": 2 * rmax * (t - s) + 1e-15}
                break
    if bad:
        ctx.fail("oracle", probe + ".sane", desc, bad, cls=cls)
    # at the p-th tenor df is 1 / ((1 + x_0 T_0) prod_{k<p} (1 + x_k (T_{k+1} - T_k))): every accrual period with its own length
    # (theorem df_at_tenor_is_product); recomputed here in exact arithmetic from the curve
    if all(a < b for a, b in zip(tenors, tenors[1:])):
        from fractions import Fraction
        acc = 1 + Fraction(rates[0]) * Fraction(tenors[0]) if rates else Fraction(1)
        for p_, T in enumerate(tenors):
            if p_ > 0:
                acc *= 1 + Fraction(rates[p_ - 1]) * (Fraction(tenors[p_]) - Fraction(tenors[p_ - 1]))
            got = vals[mesh.index(T)]
            if abs(Fraction(got) * acc - 1) > Fraction(1, 10 ** 13):
                ctx.fail("oracle", probe + ".tenor_product", desc, {"what": "df at a tenor is not the product of the simple compounding factors of the initial curve",
                                                                   "tenor_index": p_, "tenor": T, "df": got, "expected": float(1 / acc)}, cls=cls)
                break
    # ---- C: against M
    ans = ctx.lean(f"df {wl(rates)} {wl(tenors)} {wl(mesh)}")
    toks = ans.strip()[1:-1].split(",") if ans.startswith("[") else []
    ok = len(toks) == len(mesh) and all(tk != "err" and close(v, rd(tk)) for v, tk in zip(vals, toks))
    if not ok:
        ctx.fail("corr", probe + ".model", desc, {"name": "Drivers/C16 df vs model.df", "impl": vals[:40], "model": ans[:600], "mesh": mesh[:40]}, cls=cls)
    # beyond the last tenor the call raises (IndexError); M says `err` there
    beyond = last + 0.5
    try:
        model.df(beyond)
        raised = False
    except Exception:  # noqa  (IndexError today; which exception is raised beyond the curve is not part of the statement)
        raised = True
    m_ans = ctx.lean(f"df {wl(rates)} {wl(tenors)} {wl([beyond])}")
    if (m_ans == "[err]") != raised:
        # the statement quantifies over "all times up to the last tenor": what happens beyond the curve (IndexError today, M says
        # `err`) is not constrained, so a disagreement there is an observation, never a failure (a clamped extrapolation is a
        # property-preserving change: found by the source-tie mutation b4 of §9.2)
        ctx.branches["observation:df_beyond_last_tenor_differs_from_model"] += 1


# --------------------------------------------------------------------------------------------- generators
def dy(rng, bits, lo, hi):
    return rng.randint(int(lo * 2 ** bits), int(hi * 2 ** bits)) / 2 ** bits


def gen_driver(rng, dim):
    if dim == 1:
        fam = rng.choice(["hem", "merton", "vg", "cgmy", "cgmy"])
        params = {} if rng.random() < 0.4 else zoo.draw_params(rng, fam, y_branch=rng.choice([0.5, 1.5]) if fam == "cgmy" else None)
        if fam == "cgmy" and params and params["y"] <= 0.05:
            params["y"] = 0.3
        return dict(dim=1, fams=[fam], params=[params])
    fams = [rng.choice(["hem", "merton"]) for _ in range(dim)]
    return dict(dim=dim, fams=fams, params=[{} for _ in fams], copula=rng.choice(["independent", "clayton"]))


def gen_coef(rng, d, coupled, kinds=None):
    kinds = kinds or ["const", "diag", "affine", "affine", "forward", "libor"]
    kind = rng.choice(kinds)
    maturity = rng.choice([0.5, 1.0, 2.0])
    if kind == "const":
        m = rng.choice([1, 2, 3]) if d > 1 else rng.choice([1, 1, 2])
        return dict(kind=kind, m=m, d=d, c=dy(rng, 4, -2, 2) or 0.75, x0=[dy(rng, 4, -3, 3) for _ in range(m)], maturity=maturity)
    if kind == "diag":
        return dict(kind=kind, m=d, d=d, x0=[dy(rng, 4, 0.5, 3) for _ in range(d)], maturity=maturity)
    if kind == "affine":
        m = d if rng.random() < 0.5 else rng.choice([1, 2, 3])
        shape = rng.random()
        if shape < 0.25 and m == d:      # exactly diag(x), through the stacked-state-aware class (also for the coupled pair, m >= 2)
            C, D, e, be, ga = [[0.0] * d for _ in range(m)], [[1.0 if i == j else 0.0 for j in range(d)] for i in range(m)], 0.0, 0.0, 0.0
        elif shape < 0.4:                # exactly constant
            C, D, e, be, ga = [[dy(rng, 3, -2, 2) for _ in range(d)] for _ in range(m)], [[0.0] * d for _ in range(m)], 0.0, 0.0, 0.0
        else:
            C = [[dy(rng, 3, -1, 1) for _ in range(d)] for _ in range(m)]
            D = [[dy(rng, 3, -1, 1) for _ in range(d)] for _ in range(m)]
            e, be, ga = dy(rng, 2, -1, 1), dy(rng, 3, -1, 1), dy(rng, 3, -1, 1)
        return dict(kind=kind, m=m, d=d, C=C, D=D, e=e, beta=be, gamma=ga, x0=[dy(rng, 4, -2, 2) for _ in range(m)], maturity=maturity)
    m = rng.choice([2, 3, 5])
    inside = rng.random() < (0.5 if kind == "libor" else 0.04)     # forward + tenor inside the horizon is known to raise
    first = maturity * rng.choice([0.25, 0.5]) if inside else maturity + rng.choice([0.0, 0.5, 4.0])     # 0.0: first tenor exactly at the maturity
    tenors = [first + 0.5 * k * (maturity if inside else 1.0) for k in range(m + 1)]
    sigma = [[rng.choice([0.5, 0.75, 1.0, 1.25, 1.5]) for _ in range(d)] for _ in range(m)]
    return dict(kind=kind, m=m, d=d, x0=[rng.choice([0.01, 0.02, 0.03, 0.05]) for _ in range(m)], tenors=tenors, sigma=sigma, maturity=maturity)


def gen_scripted(rng, d, maturity, coupled):
    n = rng.randint(1, 6)
    cuts = sorted(rng.sample(range(1, 64), n - 1)) if n > 1 else []
    times = [0.0] + [maturity * c / 64 for c in cuts] + [maturity]

    def path():
        P = [[0.0] for _ in range(d)]
        for j in range(d):
            for _ in range(n):
                P[j].append(P[j][-1] + (0.0 if rng.random() < 0.3 else dy(rng, 5, -1, 1)))
        return P
    if coupled:
        return dict(times=times, W=[path(), path()], L=[path(), path()], mu=[[dy(rng, 4, -1, 1) for _ in range(d)] for _ in range(2)])
    return dict(times=times, W=path(), L=path(), mu=[dy(rng, 4, -1, 1) for _ in range(d)])


def gen_case(rng, coupled, scripted, kinds=None):
    dim = rng.choice([1, 1, 1, 2, 2, 3]) if coupled else rng.choice([1, 1, 1, 2])
    dd = gen_driver(rng, dim)
    cd = gen_coef(rng, dim, coupled, kinds)
    desc = dict(driver=dd, coef=cd, grid=dict(h=rng.choice([0.2, 0.1, 0.05]), nb=rng.choice([5, 7, 9]) if dim == 1 else 5),
                method=rng.choice(list(METHODS)) if dim == 1 else "INVERSION", np_seed=rng.randrange(2 ** 31))
    if coupled:
        desc["level"] = rng.choice([1, 2, 2, 3]) if dim <= 2 else 1
    if scripted:
        desc["scripted"] = gen_scripted(rng, dim, cd["maturity"], coupled)
    if rng.random() < 0.3:
        desc["warm"] = True
    return desc


def gen_df(rng):
    kind = rng.choice(["forward", "libor"])
    n = rng.randint(1, 6)
    first = rng.choice([0.0, 0.25, 0.5, 1.0, 5.0]) if rng.random() < 0.8 else dy(rng, 6, 0, 4)
    tenors = [first]
    for _ in range(n):
        tenors.append(tenors[-1] + rng.choice([0.25, 0.5, 1.0, dy(rng, 6, 0.1, 2)]))
    rates = [rng.choice([0.0, 0.01, 0.02, 0.05, 0.1, dy(rng, 10, 0, 0.2), rng.uniform(0, 0.15)]) for _ in range(n)]
    if rng.random() < 0.15:          # all rates zero: df is the constant 1
        rates = [0.0] * n
    if rng.random() < 0.15:          # strongly unequal accrual periods (1/64 .. 8 years), zero rates in between
        tenors = [first]
        for _ in range(n):
            tenors.append(tenors[-1] + rng.choice([1 / 64, 1 / 8, 0.75, 3.0, 8.0]))
        rates = [rng.choice([0.0, 0.0, 0.03, 0.25]) for _ in range(n)]
    return dict(model=kind, rates=rates, tenors=tenors, mesh=rng.choice([16, 32, 48]))


def run(ctx):
    rng = ctx.rng
    # the offered DiagX on the stacked state / with m >= 2 (reproduces the known findings), then the random streams
    base = dict(grid=dict(h=0.1, nb=7), method="INVERSION", np_seed=1)
    probe_coupled(ctx, dict(base, driver=dict(dim=1, fams=["hem"], params=[{}]), level=1,
                            coef=dict(kind="diag", m=1, d=1, x0=[1.5], maturity=1.0)))
    probe_single(ctx, dict(base, grid=dict(h=0.1, nb=5), driver=dict(dim=2, fams=["hem", "merton"], params=[{}, {}], copula="independent"),
                           coef=dict(kind="diag", m=2, d=2, x0=[1.0, 2.0], maturity=1.0)))
    probe_single(ctx, dict(base, driver=dict(dim=1, fams=["hem"], params=[{}]),
                           coef=dict(kind="forward", m=2, d=1, x0=[0.02, 0.03], tenors=[0.5, 1.0, 1.5], sigma=[[0.5], [0.8]], maturity=1.0)))
    # asymmetric drivers (the chain drift depends on the grid step) at coupled levels 1..3, constant coefficient: X_T = x0 + a*Y_T with
    # the drift of Y recomputed from fresh chains
    for fam, params in (("cgmy", dict(c=1.0, g=5.0, m=12.0, y=0.5)), ("hem", dict(sigma=0.2, p=0.3, eta1=25.0, eta2=8.0, intensity=4.0)),
                        ("merton", dict(sigma=0.1, sigma_j=0.15, mu_j=0.08, intensity=3.0))):
        for level in (1, 2, 3):
            probe_coupled(ctx, dict(base, np_seed=level, driver=dict(dim=1, fams=[fam], params=[params]), level=level,
                                    coef=dict(kind="const", m=1, d=1, c=0.75, x0=[1.5], maturity=1.0)))
    # m >= 2 states driven by d = 2 copula drivers through coupled levels 1..3 (real coupled driver paths): constant matrix, diag(x) through
    # the stacked-state-aware harness class, sigma * x of the forward model (m = 3)
    cdrv = dict(dim=2, fams=["hem", "merton"], params=[{}, {}], copula="clayton")
    for level in (1, 2, 3):
        for cd in (dict(kind="const", m=2, d=2, c=0.75, x0=[1.5, -0.5], maturity=1.0),
                   dict(kind="affine", m=2, d=2, C=[[0.0, 0.0], [0.0, 0.0]], D=[[1.0, 0.0], [0.0, 1.0]], e=0.0, beta=0.0, gamma=0.0, x0=[1.5, 0.5], maturity=1.0),
                   dict(kind="forward", m=3, d=2, x0=[0.01, 0.02, 0.03], tenors=[1.0, 2.0, 2.5, 3.0], sigma=[[0.5, 1.0], [0.75, 0.5], [1.0, 1.25]], maturity=1.0)):
            probe_coupled(ctx, dict(base, grid=dict(h=0.2, nb=5), np_seed=10 + level, driver=cdrv, level=level, coef=cd))
    # the offered coefficient objects on the column / stacked state: witnesses of the recorded DiagX findings, then the random stream
    probe_shape(ctx, dict(cls="diag", m=2, d=2, stacked=True, x0=[1.0, 2.0], x1=[3.0, 4.0], u0=[1.0, 1.0], u1=[2.0, 2.0]))
    probe_shape(ctx, dict(cls="diag", m=2, d=2, stacked=False, x0=[1.0, 2.0], x1=[3.0, 4.0], u0=[1.0, 1.0], u1=[2.0, 2.0]))
    probe_shape(ctx, dict(cls="diag", m=1, d=1, stacked=False, x0=[5.0], x1=[3.0], u0=[2.0], u1=[2.0]))
    for _ in range(ctx.n(300, 3000)):
        probe_shape(ctx, gen_shape(rng))
    single_kinds = ["const", "diag", "affine", "affine", "forward", "libor"]
    for i in range(ctx.n(250, 3000)):
        desc = gen_case(rng, coupled=False, scripted=(i % 3 == 2), kinds=single_kinds)
        if desc["coef"]["kind"] == "diag" and desc["coef"]["m"] >= 2 and i > 10:
            continue                                   # known to raise (reproduced above); keep the budget for working cases
        if desc["coef"]["kind"] == "libor" and desc["driver"]["dim"] > 1:
            desc["coef"]["kind"] = "forward"           # the Libor drift needs a dblquad per pair of margins: too slow here
        probe_single(ctx, desc)
    coupled_kinds = ["const", "affine", "affine", "forward", "libor"]
    for i in range(ctx.n(200, 2400)):
        desc = gen_case(rng, coupled=True, scripted=(i % 3 == 2), kinds=coupled_kinds)
        if desc["coef"]["kind"] == "libor" and desc["driver"]["dim"] > 1:
            desc["coef"]["kind"] = "forward"
        probe_coupled(ctx, desc)
    probe_df(ctx, dict(model="factory", rates=[], tenors=[5, 6, 7, 8, 9, 10]))
    probe_df(ctx, dict(model="base", rates=[], tenors=[]))
    for _ in range(ctx.n(200, 2400)):
        probe_df(ctx, gen_df(rng))


def replay(ctx, rec):
    p, d = rec["probe"], rec["input"]
    if p.startswith("c16.df"):
        probe_df(ctx, d)
    elif p.startswith("c16.shape"):
        probe_shape(ctx, d)
    elif "level" in d:
        probe_coupled(ctx, d)
    else:
        probe_single(ctx, d)


def search(ctx):
    """extended oracle-only budget when only the tie broke"""
    rng = ctx.rng
    for i in range(200):
        probe_single(ctx, gen_case(rng, coupled=False, scripted=False, kinds=["const", "affine", "forward"]))
        probe_coupled(ctx, gen_case(rng, coupled=True, scripted=False, kinds=["const", "affine", "forward"]))
        probe_df(ctx, gen_df(rng))
