"""C03 — Level coupling keeps the coarse path in the previous level's law (telescoping)   (DESIGN.md §4 C03).

C (correspondence): the real couplings (CouplingMarkovChain, CouplingProcessLevyCopula) after 1..3 real `next_level` calls
against the Lean model RpylibModel/Model/Coupling.lean run by Drivers/C03.lean.  The model is fed the masses the real
`mass` returns at exactly the intervals / (index set, box) pairs the model asks for; cell boundaries, half cells, corner
enumeration, probabilities, flows, sums, level bookkeeping are the model's own.
S (oracle, independent of the model): the telescoping identity evaluated on the implementation
    sum over fine states of  rate(x) * P(coupling sends x to y)  =  rate of y in a chain built on the un-refined grid,
lambda_coarse = lambda_fine - (rate sent to the origin), even increments copied / odd ones moved to an adjacent coarse state,
coarse diffusion coefficient and frozen drift = those of a stand-alone level-(l-1) chain, one Brownian vector for both.
"""
from __future__ import annotations

import copy
import itertools
import math
import traceback
import warnings
from collections import deque
from fractions import Fraction

import numpy as np
import scipy.linalg

from .. import zoo
from ..common import w, wl, wll, rd, rdl, rdll, close, fr, Infra

from rpylib.distribution.sampling import SamplingMethod
from rpylib.distribution.samplingfactory import create_q_vector
from rpylib.grid.grid import Coordinates, CoordinateND
from rpylib.montecarlo.path import MLMCPath
from rpylib.process.coupling.couplingmarkovchain import CouplingMarkovChain, CouplingSimulation
from rpylib.process.coupling.couplinglevycopula import CouplingProcessLevyCopula, CouplingLevyCopulaSimulation
from rpylib.process.markovchain.markovchain import MarkovChainProcess
from rpylib.process.markovchain.markovchainlevycopula import MarkovChainLevyCopula
from rpylib.product.payoff import Vanilla, PayoffType
from rpylib.product.product import Product
from rpylib.product.underlying import Spot

RULE = ("1-d structured: model families (HEM, Merton, VG, CGMY in all five activity branches; Levy and exponential-of-Levy) x "
        "parameter draws x the six grid constructors x h x {INVERSION, BINARYSEARCHTREEADAPTED1D} x 1..3 real next_level calls "
        "with a real Product and MLMC path managers; 1-d synthetic: random dyadic axes x piecewise-constant dyadic densities "
        "(zero-mass cells included); 2-d: margins from the families x {Clayton, independent, dependent} x fixed 3/5-point "
        "coarse grids (5x5 / 9x9 fine) x {INVERSION, BINARYSEARCHTREEADAPTED}, every fine increment of every parity; the Lean "
        "negation witness replayed with TableMeasure margins. non-trivial = coupling built, >= 1 next_level call succeeded, "
        "fine grid has >= 5 points per axis; distinct = distinct (model, parameters, grid arguments, method, levels)")
NOT_PROVED = [
    "additivity / non-negativity of the concrete families' integrate() and of LevyCopulaModel.mass (hypotheses IsMass, IsBoxMass2) "
    "are C09 / C11 / C12's subject",
    "n-d theorems are written out for d = 2 on grids whose axes are equal (what every constructor builds); d = 3 and the mirrored "
    "axis indexing of left_point/right_point on projected coordinates (model mirrors it) are compared / oracle-checked only",
    "telescoping for dependent copulas is FALSE of the code (theorem telescoping_nd_counterexample, known finding "
    "C03-copula-margin-coupling): only corner_probs_sum_one and the independent case are theorems",
    "payoff expectations are not modelled: 'the multilevel sum telescopes' is the corollary of the law equality, which is stated "
    "and proved at the level of jump rates, diffusion coefficient, drift and shared Brownian increments",
    "the SDE coupling (couplingsde.py) delegates to the two couplings above; its own drift bookkeeping (mc_drift_h/_2h) is only "
    "oracle-checked through the driver coupling it wraps",
    "float rounding of probabilities and sums (compared at 2^-40 relative; oracle 1e-12 * intensity)",
]
ASSUMPTIONS = [
    "masses evaluated by the real mass() at the model's (exact rational) boundaries converted to the nearest float are the "
    "masses the implementation uses: fl((a+b)/2) = 0.5*(a+b) barring underflow",
    "coupling uniforms are patched at p*(1 -/+ 2^-20) around the model's breakpoints; u exactly on a breakpoint is a don't-care",
]
TRUSTED = ["scipy.special functions inside the families' integrate() (C09)", "copula volume formulas (C11/C12)"]
LEANCHECKER = True

warnings.filterwarnings("ignore", category=scipy.linalg.LinAlgWarning)
warnings.filterwarnings("ignore", category=RuntimeWarning)

ORACLE_REL = 1e-12          # measured: <= 6e-16 * lambda over seeds 0..5 (1-d), <= 2e-15 (2-d independent)
METHODS_1D = {"INVERSION": SamplingMethod.INVERSION, "BINARYSEARCHTREEADAPTED1D": SamplingMethod.BINARYSEARCHTREEADAPTED1D}
METHODS_ND = {"INVERSION": SamplingMethod.INVERSION, "BINARYSEARCHTREEADAPTED": SamplingMethod.BINARYSEARCHTREEADAPTED}
ARRAY_SAMPLERS = {"BINARYSEARCHTREE": SamplingMethod.BINARYSEARCHTREE, "HUFFMANNTREE": SamplingMethod.HUFFMANNTREE,
                  "TABLE": SamplingMethod.TABLE, "ALIAS": SamplingMethod.ALIAS}
MAXDEV = {"1d": 0.0, "2d": 0.0}     # largest oracle residual / lambda seen in this run (evidence)


# ------------------------------------------------------------------------------------------------------------ helpers
def the_product():
    return Product(payoff_underlying=Spot(), payoff=Vanilla(strike=100.0, payoff_type=PayoffType.CALL), maturity=1.0)


def axis_ok(ax, o):
    return 0 < o < len(ax) - 1 and ax[o] == 0.0 and all(a < b for a, b in zip(ax, ax[1:]))


def relclose(py, lean, floor=Fraction(0)):
    return close(py, lean, scale=max(abs(fr(lean)), fr(floor)))


def finite(xs):
    return all(isinstance(x, (int, float, np.floating, np.integer)) and math.isfinite(float(x)) for x in xs)


def grid_from_desc(model, gd):
    kw = {}
    for src, dst in (("tp", "truncation_probability"), ("nb", "nb_of_points" if gd["kind"] == "fixed" else "nb"),
                     ("tr", "truncations"), ("mps", "minimum_probability_step"), ("a", "level_a"), ("sym", "symmetric_grid")):
        if src in gd:
            kw[dst] = tuple(gd[src]) if src == "tr" else gd[src]
    g, _ = zoo.make_grid(gd["kind"], model, gd["h"], dimension=gd.get("dim", 1), **kw)
    return g


def mid_rows(g, rows, seen):
    """measured table of the probability-step grid's own middle() ([] = arithmetic mean)"""
    if not isinstance(g, zoo.CTMCGridProbabilityStep):
        return
    ax = [float(x) for x in g.axes[0]]
    for a, b in zip(ax, ax[1:]):
        if (a, b) not in seen:
            seen.add((a, b))
            rows.append([a, b, float(g.middle(a, b))])


def guarded(ctx, d, cls, fn, *a, **k):
    """an exception raised from inside rpylib on a supported model / well-formed grid is a failure of the property on that
    input (the coupling does not exist there); anything else is a harness problem"""
    try:
        return fn(*a, **k)
    except Infra:
        raise
    except Exception as e:
        frames = traceback.extract_tb(e.__traceback__)
        if not any("/rpylib/" in f.filename for f in frames):
            raise
        where = [f"{f.filename.split('/rpylib/')[-1]}:{f.lineno}" for f in frames if "/rpylib/" in f.filename][-3:]
        ctx.fail("oracle", "c03.coupling.raises", d, {"exception": repr(e)[:400], "where": where}, cls=cls)


class ScriptedUniform:
    """stands for CouplingMarkovChain.uniform / CouplingProcessLevyCopula._uniform: returns the scripted values"""

    def __init__(self, values=()):
        self.values = list(values)
        self.calls = 0

    def sample(self):
        self.calls += 1
        return self.values.pop(0)

    def reset_sampling_cost(self):
        pass


# ------------------------------------------------------------------------------------------------- 1-d: one level
def impl_level_1d(cp, g_prev, coarse):
    """everything the oracle needs, read off the implementation"""
    g = cp.grid
    ax = [float(x) for x in g.axes[0]]
    o = int(g.origin_coordinate.value)
    fine = cp.fine_process
    qf = [float(x) for x in create_q_vector(fine.model.levy_triplet.nu, g)]
    qc = [float(x) for x in create_q_vector(coarse.model.levy_triplet.nu, g_prev)]
    mass = fine.model.mass
    P = {}
    for k in range(1, len(ax), 2):
        if qf[k] > 0.0:
            P[k] = float(CouplingSimulation.probability_to_right_jump(g, mass, k - o))
    return ax, o, qf, qc, P


def coupled_rates_1d(n_coarse, qf, P):
    out = []
    n = len(qf)
    for j in range(n_coarse):
        v = qf[2 * j]
        if j > 0 and qf[2 * j - 1] > 0.0:
            v += qf[2 * j - 1] * P[2 * j - 1]
        if 2 * j + 1 < n and qf[2 * j + 1] > 0.0:
            v += qf[2 * j + 1] * (1.0 - P[2 * j + 1])
        out.append(v)
    return out


def oracle_level_1d(ctx, d, cls, cp, g_prev, coarse, standalone_fine, pms, level):
    """S: the property on the implementation, level `level` (coarse = stand-alone chain of level-1 built on the un-refined grid)"""
    g = cp.grid
    ax, o, qf, qc, P = impl_level_1d(cp, g_prev, coarse)
    axp = [float(x) for x in g_prev.axes[0]]
    op = int(g_prev.origin_coordinate.value)
    n = len(ax)
    dl = dict(d, level=level)
    # the coarse grid is the set of even indices of the fine one
    if ax[0::2] != axp or o != 2 * op or float(g.h) != float(g_prev.h) / 2 or cp.level != level:
        ctx.fail("oracle", "c03.1d.nesting", dl, {"fine_even": ax[0::2][:9], "coarse": axp[:9], "origins": [o, op],
                                                   "h": [float(g.h), float(g_prev.h)], "level": cp.level}, cls=cls)
        return False
    lam_f, lam_c = float(cp.fine_process.intensity_of_jumps), float(coarse.intensity_of_jumps)
    bad = [(k, p) for k, p in P.items() if not (-1e-15 <= p <= 1 + 1e-15)]
    if bad:
        ctx.fail("oracle", "c03.1d.pright_range", dl, {"k_p": bad[:4]}, cls=cls)
        return False
    coupled = coupled_rates_1d(len(axp), qf, P)
    tol = ORACLE_REL * max(lam_f, 1e-300)
    for j in range(len(axp)):
        if j == op:
            continue
        MAXDEV["1d"] = max(MAXDEV["1d"], abs(coupled[j] - qc[j]) / max(lam_f, 1e-300))
        if not abs(coupled[j] - qc[j]) <= tol:
            ctx.fail("oracle", "c03.1d.telescoping", dl, {"coarse_state": j, "coupled_coarse_rate": coupled[j], "coarse_chain_rate": qc[j],
                                                        "fine_rates": [qf[k] for k in range(max(0, 2 * j - 1), min(n, 2 * j + 2))],
                                                        "p_right": [P.get(2 * j - 1), P.get(2 * j + 1)], "lambda_fine": lam_f}, cls=cls)
            return False
    if not abs(lam_c - (lam_f - coupled[op])) <= tol:
        ctx.fail("oracle", "c03.1d.intensity", dl, {"lambda_coarse": lam_c, "lambda_fine": lam_f, "rate_sent_to_origin": coupled[op]}, cls=cls)
        return False
    # even increments copied without drawing a uniform, odd ones moved to an adjacent (even = coarse) index
    sim = cp._path_coupling_simulation
    saved = cp.uniform
    try:
        for k in range(n):
            inc = k - o
            if k % 2 == 0:
                cp.uniform = ScriptedUniform([])
                v = float(sim.coupling_state(inc))
                if v != ax[k] or cp.uniform.calls:
                    ctx.fail("oracle", "c03.1d.even_copied", dl, {"increment": inc, "returned": v, "grid_value": ax[k],
                                                                "uniforms_drawn": cp.uniform.calls}, cls=cls)
                    return False
            elif k in P:
                got = []
                for u in (0.0, 1.0 - 2.0 ** -53):
                    cp.uniform = ScriptedUniform([u])
                    got.append(float(sim.coupling_state(inc)))
                # u = 0 goes right whenever P > 0, u -> 1 goes left whenever P < 1
                want = [ax[k + 1] if P[k] > 0 else ax[k - 1], ax[k - 1] if P[k] < 1 else ax[k + 1]]
                if got != want:
                    ctx.fail("oracle", "c03.1d.odd_adjacent", dl, {"increment": inc, "returned": got, "neighbours": [ax[k - 1], ax[k + 1]],
                                                                 "p_right": P[k]}, cls=cls)
                    return False
    finally:
        cp.uniform = saved
    # coarse diffusion coefficient / drift = those of the stand-alone chain of the previous level; fine = current level
    cc, cf = float(cp.equivalent_diffusion_coefficient_coarse), float(cp.equivalent_diffusion_coefficient_fine)
    sc, sf = float(coarse.equivalent_diffusion_coefficient), float(standalone_fine.equivalent_diffusion_coefficient)
    if not (math.isclose(cc, sc, rel_tol=1e-12, abs_tol=1e-300) and math.isclose(cf, sf, rel_tol=1e-12, abs_tol=1e-300)):
        ctx.fail("oracle", "c03.1d.diffusion", dl, {"coupling_coarse": cc, "level_l_minus_1_chain": sc, "coupling_fine": cf,
                                                  "level_l_chain": sf}, cls=cls)
        return False
    ts = np.array([0.0, 1.0, 0.37])
    both = np.asarray(pms[-1].deterministic_path(ts), dtype=float)
    want_c = np.asarray(coarse.deterministic_path(ts), dtype=float)
    want_f = np.asarray(standalone_fine.deterministic_path(ts), dtype=float)
    if both.shape[0] != 2 or not (np.allclose(both[1], want_c, rtol=1e-12, atol=1e-13) and np.allclose(both[0], want_f, rtol=1e-12, atol=1e-13)):
        ctx.fail("oracle", "c03.1d.drift", dl, {"coupled_paths_at_0_1_037": both.tolist(), "level_l_minus_1_chain": want_c.tolist(),
                                              "level_l_chain": want_f.tolist()}, cls=cls)
        return False
    # one Brownian vector for both components
    ps = cp.fine_process._path_simulation
    if hasattr(ps, "_brownian_increments"):
        wv = [0.5, -1.25, 2.0]
        sq = np.array([0.5, 0.75, 0.25])
        keep = ps._brownian_increments
        ps._brownian_increments = deque([[list(wv)]])
        try:
            df, dc = sim.simulate_diffusion_with_coupling(sq)
        finally:
            ps._brownian_increments = keep
        ef, ec = np.cumsum(sq * sf * np.array(wv)), np.cumsum(sq * sc * np.array(wv))
        if not (np.allclose(np.ravel(df), ef, rtol=1e-12, atol=1e-300) and np.allclose(np.ravel(dc), ec, rtol=1e-12, atol=1e-300)):
            ctx.fail("oracle", "c03.1d.same_brownian", dl, {"fine": np.ravel(df).tolist(), "coarse": np.ravel(dc).tolist(),
                                                          "expected_fine": ef.tolist(), "expected_coarse": ec.tolist()}, cls=cls)
            return False
    return True


def corr_level_1d(ctx, d, cls, cp, g_prev, coarse, tbl, level, exact=False):
    """C: the model fed with the real masses against the implementation"""
    rng = ctx.rng
    g = cp.grid
    ax, o, qf, qc, P = impl_level_1d(cp, g_prev, coarse)
    n = len(ax)
    dl = dict(d, level=level)
    mass = cp.fine_process.model.mass
    qs = rdll(ctx.lean(f"q1d {wl(ax)} {o} {tbl}"))
    nodd = (n - 1) // 2
    if len(qs) != 2 * nodd + (n - 1) + (len(qc) - 1):
        ctx.fail("corr", "c03.1d.queries.model", dl, {"name": "Drivers/C03 q1d", "len": len(qs)}, cls=cls)
        return False
    try:
        vals = [float(mass(float(a), float(b))) for a, b in qs]
    except Exception as e:                       # a boundary the model computed is not an admissible interval for mass()
        ctx.fail("corr", "c03.1d.queries.model", dl, {"name": "Drivers/C03 q1d intervals rejected by mass()", "exception": repr(e)[:200]}, cls=cls)
        return False
    if not finite(vals):
        ctx.branches["c03.1d.corr_skipped_nonfinite_mass"] += 1
        return True
    head = f"{wl(ax)} {o} {tbl} {wl(vals)}"
    out = ctx.lean(f"c1d {head}").split(" ")
    m_p, m_qf, m_coupled, m_qc = rdl(out[0]), rdl(out[1]), rdl(out[2]), rdl(out[3])
    lam = fr(max(float(cp.fine_process.intensity_of_jumps), 1e-300))
    floor = lam * Fraction(1, 2 ** 30)
    same = (lambda a, b: fr(a) == b) if exact else (lambda a, b: relclose(a, b, floor))
    bad = [k for k in range(n) if not same(qf[k], m_qf[k])]
    if bad:
        ctx.fail("corr", "c03.1d.rates.model", dl, {"name": "Drivers/C03 fine rate vs create_q_vector", "k": bad[0], "impl": qf[bad[0]],
                                                  "model": str(m_qf[bad[0]])}, cls=cls)
        return False
    bad = [j for j in range(len(qc)) if not same(qc[j], m_qc[j])]
    if bad:
        ctx.fail("corr", "c03.1d.rates.model", dl, {"name": "Drivers/C03 coarse rate vs create_q_vector on the un-refined grid", "j": bad[0],
                                                  "impl": qc[bad[0]], "model": str(m_qc[bad[0]])}, cls=cls)
        return False
    for i, k in enumerate(range(1, n, 2)):
        if k in P and not close(P[k], m_p[i], scale=Fraction(1)):
            ctx.fail("corr", "c03.1d.pright.model", dl, {"name": "Drivers/C03 pRight vs probability_to_right_jump", "k": k, "impl": P[k],
                                                       "model": str(m_p[i])}, cls=cls)
            return False
    coupled = coupled_rates_1d(len(qc), qf, P)
    bad = [j for j in range(len(qc)) if not relclose(coupled[j], m_coupled[j], floor)]
    if bad:
        ctx.fail("corr", "c03.1d.coupled.model", dl, {"name": "Drivers/C03 coupledRate vs sum of rate x probability_to_right_jump", "j": bad[0],
                                                    "impl": coupled[bad[0]], "model": str(m_coupled[bad[0]])}, cls=cls)
        return False
    # coupling_state with the uniform patched around the model's breakpoints
    sim = cp._path_coupling_simulation
    saved = cp.uniform
    try:
        odd = [k for k in P if 2.0 ** -18 < P[k] < 1 - 2.0 ** -18]
        for k in (rng.sample(odd, min(len(odd), 6)) if odd else []):
            for u in (P[k] * (1 - 2.0 ** -20), P[k] * (1 + 2.0 ** -20), rng.random()):
                if abs(u - P[k]) < P[k] * 2.0 ** -21 or not (0 <= u < 1):
                    ctx.excluded_small_margin += 1
                    continue
                cp.uniform = ScriptedUniform([u])
                got = float(sim.coupling_state(k - o))
                want = rd(ctx.lean(f"couple1d {head} {k - o} {w(u)}"))
                if fr(got) != want:
                    ctx.fail("corr", "c03.1d.couple.model", dl, {"name": "Drivers/C03 couple1d vs coupling_state", "increment": k - o, "u": u,
                                                               "impl": got, "model": str(want), "p_right": P[k]}, cls=cls)
                    return False
        # a history: one slice of increments with scripted uniforms
        live = [k for k in range(n) if k != o and (k % 2 == 0 or k in P)]
        if live:
            incs = [rng.choice(live) - o for _ in range(rng.randint(1, 7))]
            us = [rng.random() for _ in incs]
            us = [u for u, inc in zip(us, incs) if inc % 2]
            if all(abs(u - P[o + inc]) > 2.0 ** -20 for u, inc in zip(us, [i for i in incs if i % 2])):
                cp.uniform = ScriptedUniform(list(us))
                got = [float(x) for x in sim.coupling_states_for_a_slice(list(incs))]
                want = rdl(ctx.lean(f"slice1d {head} [{','.join(str(i) for i in incs)}] {wl(us)}"))
                sc = fr(max(abs(ax[0]), abs(ax[-1]))) * len(incs)
                if len(got) != len(want) or not all(close(a, b, scale=sc) for a, b in zip(got, want)):
                    ctx.fail("corr", "c03.1d.slice.model", dl, {"name": "Drivers/C03 slice1d vs coupling_states_for_a_slice", "increments": incs,
                                                              "uniforms": us, "impl": got, "model": [str(x) for x in want]}, cls=cls)
                    return False
                ctx.branches["c03.1d.slice_histories"] += 1
    finally:
        cp.uniform = saved
    return True


def corr_levels_1d(ctx, d, cls, cp, base, chains, pms, tbl, L):
    """C: the level record after L next_level calls (grid, coefficients, frozen path) against M's nextLevel^L"""
    ax0, o0, h0 = base
    diffs = [float(c.equivalent_diffusion_coefficient) for c in chains]
    drifts = [float(np.ravel(c.process_drift())[0]) for c in chains]
    x0s = [float(np.ravel(c.model.x0_value())[0]) if np.ndim(c.model.x0_value()) else float(c.model.x0_value()) for c in chains]
    t = 0.375
    out = ctx.lean(f"levels {wl(ax0)} {o0} {w(h0)} {tbl} {L} {wl(diffs)} {wl(drifts)} {wl(x0s)} {w(t)}").split(" ")
    m_ax, m_o, m_h, m_l, m_df, m_dc = rdl(out[0]), int(out[1]), rd(out[2]), int(out[3]), rd(out[4]), rd(out[5])
    m_spot, m_drift, m_cp, m_fp = rd(out[6]), rd(out[7]), rd(out[8]), rd(out[9])
    g = cp.grid
    ax = [float(x) for x in g.axes[0]]
    sc = fr(max(abs(ax[0]), abs(ax[-1])))
    both = np.asarray(pms[-1].deterministic_path(np.array([0.0, 1.0, t])), dtype=float)
    scale_p = max(abs(m_spot), abs(m_drift), Fraction(1))
    ok = (len(m_ax) == len(ax) and all(close(a, b, scale=sc) for a, b in zip(ax, m_ax)) and m_o == int(g.origin_coordinate.value)
          and fr(float(g.h)) == m_h and m_l == cp.level
          and fr(float(cp.equivalent_diffusion_coefficient_fine)) == m_df and fr(float(cp.equivalent_diffusion_coefficient_coarse)) == m_dc
          and close(both[1][0], m_spot, scale=scale_p) and close(both[1][1] - both[1][0], m_drift, scale=scale_p)
          and close(both[1][2], m_cp, scale=scale_p) and close(both[0][2], m_fp, scale=scale_p))
    ctx.branches["c03.1d.levels"] += 1
    if not ok:
        ctx.fail("corr", "c03.1d.levels.model", dict(d, levels=L),
                 {"name": "Drivers/C03 levels (nextLevel^L) vs CouplingMarkovChain after L next_level calls",
                  "impl": {"n": len(ax), "origin": int(g.origin_coordinate.value), "h": float(g.h), "level": cp.level,
                           "diff_fine": float(cp.equivalent_diffusion_coefficient_fine),
                           "diff_coarse": float(cp.equivalent_diffusion_coefficient_coarse), "paths": both.tolist()},
                  "model": out[1:]}, cls=cls)
        return False
    return True


def coupling1d_probe(ctx, d, cls, model, g, method_name, L, corr=True, exact=False):
    """one 1-d coupling taken through L real next_level calls"""
    prod = the_product()
    method = METHODS_1D[method_name]
    cp = CouplingMarkovChain(model, method, g)
    prod.update(cp.fine_process.process_representation)
    cp.initialisation(prod)
    pms = [MLMCPath(cp.fine_process.deterministic_path, False)]
    cp.pre_computation(2, prod)
    base = ([float(x) for x in g.axes[0]], int(g.origin_coordinate.value), float(g.h))
    rows, seen = [], set()
    mid_rows(g, rows, seen)
    chains = []
    done = 0
    for level in range(1, L + 1):
        g_prev = copy.deepcopy(cp.grid)
        coarse = MarkovChainProcess(model, method, g_prev)
        coarse.initialisation(prod)
        chains.append(coarse)
        cp.next_level(2, pms, prod)
        ax = [float(x) for x in cp.grid.axes[0]]
        if not axis_ok(ax, int(cp.grid.origin_coordinate.value)):
            # probability-step grid whose outer gaps have float mass 0: middle() returns the gap's left end (C13's subject)
            ctx.branches[f"c03.1d.skipped_not_wellformed_after_refine:{cls.get('kind')}"] += 1
            break
        mid_rows(cp.grid, rows, seen)
        tbl = wll(rows) if rows else "[]"
        standalone = MarkovChainProcess(model, method, copy.deepcopy(cp.grid))
        standalone.initialisation(prod)
        ctx.count("c03.1d.level", dict(d, level=level), nontrivial=len(ax) >= 5, branch=f"{cls.get('kind')}:{cls.get('family')}:L{level}")
        if not oracle_level_1d(ctx, d, cls, cp, g_prev, coarse, standalone, pms, level):
            return
        if corr and not corr_level_1d(ctx, d, cls, cp, g_prev, coarse, tbl, level, exact=exact):
            return
        done = level
        last_standalone = standalone
    if corr and done:
        corr_levels_1d(ctx, d, cls, cp, base, chains[:done] + [last_standalone], pms, wll(rows) if rows else "[]", done)
    ctx.branches[f"c03.1d.method:{method_name}"] += 1


def run_1d(ctx, nmodels, corr=True):
    rng = ctx.rng
    hs = [0.2, 0.1, 0.05]
    for fam, params in zoo.model_stream(rng, nmodels):
        exp = rng.random() < 0.5
        model = zoo.make_exp(fam, params) if exp else zoo.make_levy(fam, params)
        for kind in rng.sample(zoo.GRID_KINDS, 3):
            h = rng.choice(hs)
            kw = {}
            if kind in ("uniform", "geometric"):
                kw["truncation_probability"] = rng.choice([0.99, 0.999])
            if kind in ("geometric", "geometric_bounds"):
                kw["nb"] = rng.choice([2, 3, 5])
            if kind == "geometric_bounds":
                kw["truncations"] = (-rng.choice([0.5, 1.0, 2.0]), rng.choice([0.75, 1.5, 3.0]))
            if kind == "fixed":
                kw["nb_of_points"] = rng.choice([3, 5, 9, 21])
            if kind == "probstep":
                kw["minimum_probability_step"] = rng.choice([0.1, 0.2])
                h = max(h, 0.1)
            if kind == "credit":
                kw["level_a"] = -rng.choice([0.25, 0.3, 0.5])
            try:
                g, gd = zoo.make_grid(kind, model, h, **kw)
            except Exception as e:          # constructor rejected these arguments (C13's subject)
                ctx.branches[f"c03.ctor_raises:{kind}:{type(e).__name__}"] += 1
                continue
            ax0 = [float(x) for x in g.axes[0]]
            if not axis_ok(ax0, int(g.origin_coordinate.value)):
                ctx.branches[f"c03.skipped_not_wellformed:{kind}"] += 1
                continue
            L = rng.randint(1, 3 if kind != "probstep" else 2)
            while L > 1 and (len(ax0) - 1) * 2 ** L + 1 > 400:
                L -= 1
            if (len(ax0) - 1) * 2 ** L + 1 > 800:
                ctx.branches[f"c03.skipped_too_large:{kind}"] += 1
                continue
            method = "INVERSION" if rng.random() < 0.6 else "BINARYSEARCHTREEADAPTED1D"
            d = dict(stream="1d", family=fam, params=params, exp=exp, grid=gd, L=L, method=method)
            cls = dict(stream="1d", kind=kind, family=fam, dimension=1)
            guarded(ctx, d, cls, coupling1d_probe, ctx, d, cls, model, g, method, L, corr=corr)


# ------------------------------------------------------------------------------------------------- 1-d synthetic (exact masses)
def synthetic_case(rng):
    n_left, n_right = rng.randint(1, 4), rng.randint(1, 4)
    h = rng.choice([1.0, 0.5, 0.25])
    steps = lambda m: list(np.cumsum([h] + [rng.randint(1, 32) / 32 for _ in range(m - 1)]))
    left = [-x for x in steps(n_left)][::-1]
    right = steps(n_right)
    axis = [float(x) for x in left] + [0.0] + [float(x) for x in right]
    span = max(-axis[0], axis[-1])
    kn = sorted({round(rng.randint(-64, 64) / 16 * (span / 4 if rng.random() < 0.5 else span / 2) * 64) / 64 for _ in range(rng.randint(2, 9))})
    if len(kn) < 2:
        kn = [-span, span]
    heights = [rng.choice([0, 1, 2, 3, 5, 8]) / 4 for _ in range(len(kn) - 1)]
    return dict(stream="synthetic", axis=axis, o=n_left, h=h, knots=[float(x) for x in kn], heights=heights,
                L=rng.randint(1, 2), method=rng.choice(list(METHODS_1D)))


def synthetic_probe(ctx, d, corr=True):
    tm = zoo.TableMeasure(d["knots"], d["heights"])
    model = zoo.make_levy("hem", {})
    model.levy_triplet.nu = tm
    g = zoo.CTMCGrid(h=d["h"], origin_coordinate=d["o"], axes=[np.array(d["axis"])])
    cls = dict(stream="synthetic", kind="synthetic", family="table", dimension=1)
    method = d["method"]
    half = Fraction(d["h"]) / 2 ** (d["L"] + 1)
    if tm._exact(d["axis"][0], -half, 0) + tm._exact(half, d["axis"][-1], 0) == 0 or \
            tm._exact(d["axis"][0], -Fraction(d["h"]) / 2, 0) + tm._exact(Fraction(d["h"]) / 2, d["axis"][-1], 0) == 0:
        ctx.branches["c03.synthetic:zero_intensity_skipped"] += 1     # a chain that never jumps (inversion ctor divides by 0): C01's note
        return
    guarded(ctx, d, cls, coupling1d_probe, ctx, d, cls, model, g, method, d["L"], corr=corr, exact=False)


# ------------------------------------------------------------------------------------------------- item 28: samplers returning arrays
def array_sampler_probe(ctx, name):
    """`if slice_fine_states:` on an ndarray with >= 2 elements (couplingmarkovchain.py:252): reproduce once per sampler"""
    model = zoo.make_levy("hem", {})
    g, gd = zoo.make_grid("fixed", model, 0.1, nb_of_points=9)
    prod = the_product()
    d = dict(stream="array_sampler", method=name, grid=gd)
    method = {**ARRAY_SAMPLERS, **METHODS_1D}[name]
    cls = dict(stream="array_sampler", method=name, dimension=1, jumps_in_slice_ge_2=True)
    cp = CouplingMarkovChain(model, method, g)
    prod.update(cp.fine_process.process_representation)
    cp.initialisation(prod)
    cp.pre_computation(2, prod)
    cp.next_level(2, None, prod)
    ps = cp.fine_process._path_simulation
    ps._poisson_rv = deque([[3]])
    ps._brownian_increments = deque([[[0.25]]])
    ctx.count("c03.1d.path", d, nontrivial=True, branch=name)
    st = np.random.get_state()
    np.random.seed(12345)
    try:
        path = cp.simulate_one_path_with_coupling()
        jp = np.asarray(path.jump_path, dtype=float)
        ax = [float(x) for x in cp.grid.axes[0]]
        gap = max(b - a for a, b in zip(ax, ax[1:]))
        # three fine jumps, each moved by at most one fine gap
        if not (jp.shape[0] == 2 and abs(jp[0][-1] - jp[1][-1]) <= 3 * gap + 1e-12):
            ctx.fail("oracle", "c03.1d.path", d, {"jump_paths": jp.tolist(), "largest_gap": gap}, cls=cls)
    except ValueError as e:
        frames = traceback.extract_tb(e.__traceback__)
        where = [f"{f.filename.split('/rpylib/')[-1]}:{f.lineno}" for f in frames if "/rpylib/" in f.filename][-2:]
        ctx.fail("oracle", "c03.1d.path.raises", d, {"exception": repr(e)[:300], "where": where}, cls=cls,
                 mirrors_model="truth value of an array" in str(e))
    finally:
        np.random.set_state(st)


# ------------------------------------------------------------------------------------------------- n-d
def run_nd(ctx, corr=True):
    pass


def replay_nd(ctx, d):
    pass


# ------------------------------------------------------------------------------------------------------------ entry points
def run(ctx, corr=True):
    rng = ctx.rng
    run_1d(ctx, nmodels=ctx.n(14, 150), corr=corr)
    for _ in range(ctx.n(25, 600)):
        synthetic_probe(ctx, synthetic_case(rng), corr=corr)
    if corr:
        for name in list(ARRAY_SAMPLERS) + list(METHODS_1D):
            array_sampler_probe(ctx, name)
    run_nd(ctx, corr=corr)
    ctx.notes.append(f"largest oracle residual / lambda: 1-d {MAXDEV['1d']:.2e}, 2-d independent {MAXDEV['2d']:.2e} (threshold {ORACLE_REL})")


def search(ctx):
    """the tie broke but no oracle failed yet: oracle-only pass with a larger budget"""
    run_1d(ctx, nmodels=ctx.n(30, 150), corr=False)
    for _ in range(ctx.n(100, 600)):
        synthetic_probe(ctx, synthetic_case(ctx.rng), corr=False)
    run_nd(ctx, corr=False)


def replay(ctx, rec):
    d = rec["input"]
    s = d.get("stream")
    if s == "synthetic":
        synthetic_probe(ctx, d)
    elif s == "1d":
        model = zoo.make_exp(d["family"], d["params"]) if d.get("exp") else zoo.make_levy(d["family"], d["params"])
        g = grid_from_desc(model, d["grid"])
        cls = rec.get("cls") or dict(stream="1d", kind=d["grid"]["kind"], family=d["family"], dimension=1)
        guarded(ctx, d, cls, coupling1d_probe, ctx, d, cls, model, g, d["method"], d["L"])
    elif s == "array_sampler":
        array_sampler_probe(ctx, d["method"])
    elif s in ("copula", "cex"):
        replay_nd(ctx, d)
    else:
        raise Infra(f"unknown replay record stream {s!r}")
